#!/bin/sh
# Build the verification framework from files on disk only (offline): clean Coq build, extraction and the
# OCaml model driver, and a warm-up build of the Go harness modules against /repo's current tree.
set -e
cd "$(dirname "$0")"
export GOFLAGS=-mod=mod GOPROXY=off GOSUMDB=off GOTOOLCHAIN=local
rm -rf .work && mkdir -p .work evidence replays
python3 - <<'PY'
import sys
sys.path.insert(0, ".")
from lib import core
ok, out = core.coq_make(clean=True)
print(out[-3000:])
if not ok:
    sys.exit("coq build failed")
bad = core.forbidden_scan()
if bad:
    sys.exit("forbidden constructs: %s" % bad)
ok, msg = core.build_model_driver(force=True)
print("model driver:", msg)
if not ok:
    sys.exit(1)
import os
for v in ("v1", "v2"):
    b, out = core.build_harness(v)
    print("harness", v, "->", b)
    if b is None:
        print(out)
        sys.exit(1)
PY
echo setup done
