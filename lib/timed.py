"""Timed join / unite / limit scenarios (families 5, 6): generation, decoding of the two sides' traces,
projections and monitors shared by C03 C08 C09 C10 C11 (join family) and C04 C12 (limit)."""
from .core import SKIP, Scenario

FUEL = 400000


# ----------------------------------------------------------------------------------------- join family (5)
def enc_join(variant, J, nocopy, T, inacc, icap, close_after, stop_at, prod, cons, oracle=(), capextra=0):
    ps, cs = [], []
    for d, n in prod:
        ps += [d, n]
    for h, p in cons:
        cs += [h, p]
    return [5, variant, J, 1 if nocopy else 0, T, inacc, icap, close_after, stop_at, FUEL, capextra,
            len(ps)] + ps + [len(cs)] + cs + [len(oracle)] + list(oracle)


def interval_of(T, inacc, v1=False):
    """calcInterruptInterval as documented: returns (interval, divider) or (None, code)"""
    if T <= 0:
        return 0, 0
    if inacc == 0:
        inacc = 25
    div = 100 // inacc
    if div == 0:
        return None, 2
    i = T // div
    if (v1 and i < 10_000_000) or (not v1 and i == 0):
        return None, 3
    return i, div


def gen_join_scenario(rng, variant, tier, style=None, stop=False):
    """variant 0 join v2, 1 unite v2, 2 join v1 (no stop here).  Times: first producer delay odd, later ones even,
    ticker period even, so a tick and a put rarely coincide (the model flags the cases where they do)."""
    v1 = variant == 2
    J = rng.choice([1, 2, 3, 4, 5, 7, 9])
    nocopy = rng.random() < 0.45
    style = style or rng.choice(["untimed", "timed", "timed", "timed", "trickle", "slowcons", "tiny", "blockedwrite", "long", "backlog"])
    unit = 10_000_000 if v1 else 1
    if style == "untimed":
        T, inacc = rng.choice([0, 0, -5]), rng.choice([0, 25, 100])
    elif style == "long":
        T, inacc = rng.choice([600, 1200]) * unit, rng.choice([25, 50, 100])
    elif style == "tiny" and not v1:
        T, inacc = rng.choice([4, 7, 40]), rng.choice([25, 50, 100, 0])
    else:
        T = rng.choice([600, 1200, 2400]) * unit
        inacc = rng.choice([0, 1, 10, 25, 33, 34, 50, 51, 100])
        if v1:
            inacc = rng.choice([0, 25, 34, 50, 51, 100])
        if rng.random() < 0.3:
            # Timeout NOT divisible by floor(100/inaccuracy): the ticker interval is truncated (still an even number of units)
            T, inacc = rng.choice([(2000, 30), (1400, 33), (2000, 33), (1000, 14), (2600, 30), (1000, 30)])
            T *= unit
    if rng.random() < 0.04:
        # the malformed stream: constructor arguments that must be rejected (or just accepted) -- compared with the model
        T = rng.choice([1, 3, 99, 100, 9_999_999, 10_000_000, 39_999_999, 40_000_000, 1_000_000_000])
        inacc = rng.choice([0, 1, 25, 50, 100, 101, 150, 1000])
    if style == "bigjoin":
        T, inacc = rng.choice([0, 0, 2400 * unit]), 25
    ivl, div = interval_of(T, inacc, v1)
    if ivl is None:
        style = "ctor-error"
    icap = rng.choice([0, 0, 1, 2, J, 2 * J])
    n = rng.choice([0, 1, 2, 3, 5, 8, 13, 21])
    if style == "long":
        # many slices, most of them full, with the occasional timeout slice in between
        J = rng.choice([2, 3, 4])
        n = rng.choice([40, 70, 120]) if tier == "quick" else rng.choice([70, 150, 300])
    if style == "bigjoin":
        # JoinSize beyond any plausible preallocation limit: a few thousand elements arriving at once
        J = rng.choice([1030, 1500, 2600])
        if variant == 1 and rng.random() < 0.34:
            J = 70000          # beyond a 16-bit preallocation limit; unite only (whole slices, a few dozen puts)
        n = 2 * J + rng.randrange(1, J)
        if J >= 70000:
            n = J + rng.randrange(1, J // 4)      # one full slice and a remainder are enough there
    Tm = max(T, 40 * unit)
    gaps = [0, 0, 0, 2 * unit, 20 * unit, Tm // 2, Tm, Tm + (ivl or 0), 3 * Tm]
    if style == "bigjoin":
        gaps = [0]
    if style == "trickle":
        gaps = [Tm // (J + 1) // 2 * 2, Tm // 4, Tm // 2, Tm // 3 // 2 * 2]
    if style == "long":
        gaps = [0] * 12 + [2 * unit, Tm + (ivl or 0), 2 * Tm]
    prod = []
    for i in range(n):
        d = (rng.choice([1, 3, 21]) * (unit if not v1 else 1) + (rng.choice(gaps) if rng.random() < 0.3 else 0)) if i == 0 else rng.choice(gaps)
        if variant == 1:
            ln = rng.choice([0, 1, 1, 2, max(J - 1, 1), J, J + 1, 2 * J, rng.randrange(0, 2 * J + 2)])
        else:
            ln = 1
        prod.append((d, ln))
    if style == "bigjoin" and variant == 1:
        prod, total = [], 0
        while total < n:
            ln = rng.choice([J // 3, J // 2, 1, 7, J - 1, J // 5])
            prod.append((1 if not prod else 0, ln))
            total += ln
    if style == "blockedwrite" and T > 0:
        # the consumer stalls after the first slice, the producer fills the output buffer so that a write blocks, then a
        # sparse tail follows: a short slice right after the blocked write completed, silence, one more element, close
        icap = rng.choice([0, 0, 1])
        stall = rng.choice([2 * Tm, 3 * Tm, 5 * Tm])
        nfill = J * (icap + 3)
        prod = [(1 * (unit if not v1 else 1), J if variant == 1 else 1)] + [(0, (J if variant == 1 else 1))] * (nfill - 1)
        if variant == 1:
            prod = prod[: icap + 4]
        prod.append((stall + 2 * unit, 1))
        prod.append((rng.choice([3 * Tm, 4 * Tm]), 1))
    if style == "backlog" and T > 0:
        # no-copy mode, the consumer keeps the first slice well beyond the Timeout while a backlog of more than one maximal slice plus
        # a remainder queues up in the input buffer; after the release the remainder must still wait for its own Timeout
        nocopy = True
        k = rng.randrange(1, J) if J > 1 else 1
        burst = 2 * J + k
        icap = burst + rng.choice([0, 2])
        if variant == 1:
            prod = [(1, J)] + [(2 * unit if i == 0 else 0, 1) for i in range(burst)]
        else:
            prod = [(1, 1)] + [(0, 1)] * (J - 1) + [(2 * unit if i == 0 else 0, 1) for i in range(burst)]
    cons = []
    if style == "backlog" and T > 0:
        cons = [(rng.choice([2, 3]) * Tm + 10 * unit, 0)]
    elif style == "blockedwrite" and T > 0:
        cons = [(0, stall)]
    elif style == "slowcons" or rng.random() < 0.25:
        for i in range(rng.randrange(1, 6)):
            cons.append((rng.choice([0, 0, 10 * unit, Tm // 2, 2 * Tm]) if nocopy else 0,
                         rng.choice([0, 0, 20 * unit, Tm // 2, Tm, 4 * Tm])))
    close_after = rng.choice([2 * unit, 2 * Tm, 6 * Tm + 2 * unit])
    if style == "backlog":
        close_after = 6 * Tm + 2 * unit
    capextra = rng.choice([0, 0, 1, J, 2 * J, -1, -1, -2, -2]) if variant == 1 else 0     # -1: empty input slices are nil slices; -2: windows of one array
    stop_at = -1
    if stop and v1:
        horizon = sum(d for d, _ in prod) + close_after
        stop_at = rng.randrange(0, max(horizon, 2) + Tm) // 2 * 2 + 7    # an instant that is neither a tick nor a put
        if stop == "unreleased" and ivl is not None:
            # no-copy mode, a consumer that keeps the first slice without releasing it, a producer that goes on writing, Stop()
            # while the release is awaited: the delivered slice must never be touched again
            nocopy = True
            icap = rng.choice([J, 2 * J])
            n = max(n, 2 * J + 2)
            prod = [(1, 1)] + [(rng.choice([0, 0, 2 * unit]), 1) for _ in range(n - 1)]
            first_out = sum(d for d, _ in prod[:J])
            cons = [(first_out + 50 * Tm, 0)]
            stop_at = (first_out + rng.choice([2, 6, 20]) * unit) // 2 * 2 + 7
            if rng.random() < 0.5:
                # ... and the producer closes the input before Stop() arrives: the final flush must not write the held slice again
                prod = prod[:J + rng.randrange(1, J + 1)]
                close_after = 2 * unit
                stop_at = (sum(d for d, _ in prod) + close_after + rng.choice([2, 6, 20]) * unit) // 2 * 2 + 7
        if stop == "closedfull":
            # copy mode, a consumer that takes the first slice and then stalls: the second full slice sits unread in the output
            # buffer, a partial slice is accumulated, the input is closed (the final flush cannot be written), then Stop()
            nocopy = False
            k = rng.randrange(1, J) if J > 1 else 1
            prod = [(1, 1)] + [(0, 1)] * (2 * J + k - 1)
            cons = [(0, 50 * Tm)]
            close_after = 2 * unit
            stop_at = (1 + close_after + rng.choice([2, 6, 20]) * unit) // 2 * 2 + 7
    enc = enc_join(variant, J, nocopy, T, inacc, icap, close_after, stop_at, prod, cons, capextra=capextra)
    meta = {"variant": ["join-v2", "unite-v2", "join-v1"][variant], "J": J, "nocopy": nocopy, "T": T, "inaccuracy": inacc,
            "interval": ivl, "divider": div, "icap": icap, "close_after": close_after, "prod": prod, "cons": cons, "style": style, "capextra": capextra, "stop_at": stop_at}
    nontrivial = n >= 2
    return Scenario(enc, style, meta, nontrivial=nontrivial, version="v1" if v1 else "v2")


class JoinTrace:
    """decoded result of either side"""

    def __init__(self, vals):
        flags = []
        vals = list(vals)
        if "flags" in vals:
            k = vals.index("flags")
            flags = [str(x) for x in vals[k + 1:]]
            vals = vals[:k]
        v = [int(x) for x in vals]
        self.flags = flags
        self.error = None
        if v[0] != 0:
            self.error = -v[0]
            self.ambiguous = False
            self.finished = True
            self.puts, self.outs, self.tclose, self.stop_ret = [], [], -1, -1
            return
        self.ambiguous = v[1] == 1
        self.finished = v[2] == 1
        n = v[3]
        self.puts = v[4:4 + n]
        pos = 4 + n
        m = v[pos]
        pos += 1
        self.outs = []
        for _ in range(m):
            t, alias, ln = v[pos], v[pos + 1], v[pos + 2]
            self.outs.append((t, alias, v[pos + 3:pos + 3 + ln]))
            pos += 3 + ln
        self.tclose, self.stop_ret = v[pos], v[pos + 1]


def inputs_of(meta):
    """the producer's items as lists of values"""
    out, nxt = [], 1
    for _, ln in meta["prod"]:
        out.append(list(range(nxt, nxt + ln)))
        nxt += ln
    return out


def greedy_join(vals, J):
    return [vals[i:i + J] for i in range(0, len(vals), J)]


def greedy_unite(slices, J):
    outs, buf = [], []
    for s in slices:
        if len(s) >= J:
            if buf:
                outs.append(buf)
                buf = []
            outs.append(list(s))
            continue
        if len(s) + len(buf) > J:
            outs.append(buf)
            buf = []
        buf = buf + list(s)
        if len(buf) >= J:
            outs.append(buf)
            buf = []
    if buf:
        outs.append(buf)
    return outs


def is_maximal(meta, ins, outs, i):
    """slice i of outs (all values globally ordered 1..N) reached JoinSize / is oversize alone / the next non-empty
    input slice would not have fitted"""
    J = meta["J"]
    s = outs[i]
    if len(s) >= J:
        return True
    if meta["variant"] != "unite-v2":
        return False
    last = s[-1]
    for x in ins:
        if x and x[0] == last + 1:
            return len(s) + len(x) > J
    return False


def proj_model(trace):
    return SKIP if trace.ambiguous else None


# --------------------------------------------------------------------------------------------- limit (6)
def enc_limit(Q, I, icap, close_after, prod, cons):
    ps = []
    for d in prod:
        ps.append(d)
    cs = []
    for idx, p in cons:
        cs += [idx, p]
    return [6, Q, I, icap, close_after, FUEL, len(ps)] + ps + [len(cs)] + cs


class LimitTrace:
    def __init__(self, vals):
        v = [int(x) for x in vals]
        self.error = None
        if v[0] != 0:
            self.error = -v[0]
            self.ambiguous, self.finished, self.puts, self.outs, self.tclose = False, True, [], [], -1
            return
        self.ambiguous = v[1] == 1
        self.finished = v[2] == 1
        n = v[3]
        self.puts = v[4:4 + n]
        pos = 4 + n
        m = v[pos]
        self.outs = [(v[pos + 1 + 2 * i], v[pos + 2 + 2 * i]) for i in range(m)]
        self.tclose = v[pos + 1 + 2 * m]


def gen_limit_scenario(rng, tier, style=None):
    Q = rng.choice([1, 1, 2, 3, 7, 100])
    if rng.random() < 0.08:
        Q = rng.choice([2 ** 63 - 1, 2 ** 63, 2 ** 64 - 1, 2 ** 32 + 1])     # the full uint64 range of Rate.Quantity
    I = rng.choice([1000, 10 ** 6, 10 ** 9, 1000, 10 ** 6, 10 ** 9, 1, 3, 10])      # down to a single nanosecond
    icap = rng.choice([0, 0, 1, 3, min(Q, 8), min(2 * Q, 16)])
    huge_ok = style is None
    style = style or rng.choice(["upfront", "upfront", "trickle", "stall-burst", "random", "slowcons", "stall-upfront"])
    if style == "slowcons" and rng.random() < 0.5:
        icap = 0        # the output buffer is a single slot: a busy consumer makes the discipline block inside a batch
    k = rng.randrange(0, 5)
    N = rng.choice([0, max(Q - 1, 0), Q, k * Q, k * Q + 1, max(k * Q - 1, 0), rng.randrange(0, 40)]) if Q <= 100 else rng.randrange(0, 40)
    N = min(N, 60 if tier == "quick" else 400)
    if huge_ok and rng.random() < 0.06:
        # Intervals of years (time.Duration reaches 292 years): products such as Interval*100 leave int64
        Q = rng.choice([1, 2, 3])
        I = rng.choice([95 * 10 ** 15, 32 * 10 ** 16, 12 * 10 ** 17])
        N = rng.choice([Q, 2 * Q, 2 * Q + 1, 3 * Q])
        style = "upfront"
        icap = rng.choice([0, 1, Q])
    if style == "upfront":
        delays = [0] * N
    elif style == "trickle":
        g = rng.choice([I // (2 * Q) or 1, I // Q or 1, 2 * I // Q or 1, 2 * I])
        delays = [g] * N
    elif style == "stall-burst":
        delays = [0] * N
        for _ in range(rng.randrange(1, 3)):
            if N:
                delays[rng.randrange(N)] = rng.choice([2 * I + 1, 5 * I, 9 * I + 7])
    else:
        delays = [rng.choice([0, 0, 1, I // 3, I, 3 * I]) for _ in range(N)]
    cons = []
    if style == "stall-upfront":
        # everything is available at once, the consumer takes a few elements, stalls for a few Intervals (the output fills up and the
        # discipline blocks inside a portion while Intervals pass), then reads eagerly: no window may see more than two portions
        Q = rng.choice([2, 3, 5, 7])
        icap = rng.choice([0, 0, 1, Q])
        N = rng.choice([3, 4, 6]) * Q + rng.randrange(0, Q)
        delays = [0] * N
        first = rng.choice([1, Q - 1, Q, Q + 1, 2 * Q])
        cons = [(first, rng.choice([I + I // 2, 2 * I + 3 * I // 4, 3 * I + I // 4, 5 * I + I // 3]))]
    if style == "slowcons" and N:
        for idx in sorted(rng.sample(range(N), min(N, rng.randrange(1, 4)))):
            cons.append((idx, rng.choice([I // 2, 3 * I, 7 * I])))
    close_after = rng.choice([0, 1, I // 2, 3 * I])
    if I > 10 ** 15:
        close_after = rng.choice([0, 1, I // 2])
    enc = enc_limit(Q, I, icap, close_after, delays, cons)
    meta = {"Q": Q, "I": I, "icap": icap, "N": N, "delays": delays, "cons": cons, "close_after": close_after, "style": style,
            "upfront": all(d == 0 for d in delays), "prompt": not cons}
    return Scenario(enc, style, meta, nontrivial=N >= 2, version="v2")


# ------------------------------------------------------------------------------- suites for the join family
def join_generate(variants, styles=None):
    def generate(rng, tier):
        n = 400 if tier == "quick" else 3000
        out = []
        for variant in variants:
            for _ in range(n):
                out.append(gen_join_scenario(rng, variant, tier, style=rng.choice(styles) if styles else None))
            if True:
                for _ in range(4 if tier == "quick" else 12):
                    out.append(gen_join_scenario(rng, variant, tier, style="bigjoin"))
        return out
    return generate


def _trace(sc, vals):
    return JoinTrace(vals)


def _project(kind, sc, tr):
    if tr.error is not None:
        return ["error", tr.error]
    m = sc.meta
    J = m["J"]
    ins = inputs_of(m)
    outs = [o[2] for o in tr.outs]
    if kind == "C03":
        return ["concat", [v for o in outs for v in o], [(len(o) == 0, len(o) > J) for o in outs], tr.tclose >= 0]
    if kind == "C09":
        return ["lengths", [len(o) for o in outs], [tr.outs[i][0] - (tr.outs[i - 1][0] if i else 0) for i in range(len(outs))]]
    if kind == "C10":
        put_of = {}
        vals = [v for it in ins for v in it]
        k = 0
        for idx, it in enumerate(ins):
            for v in it:
                put_of[v] = tr.puts[idx] if idx < len(tr.puts) else None
        return ["residence", [(v, o[0] - put_of.get(v)) if put_of.get(v) is not None else (v, None) for o in tr.outs for v in o[2]]]
    if kind == "C11":
        return ["boundaries", [(o[0], o[-1]) if o else None for o in outs]]
    if kind == "C08":
        return ["alias", [o[1] for o in tr.outs], [o[2] for o in tr.outs], sorted(set(tr.flags))]
    return ["full", tr.puts, tr.outs, tr.tclose]


def make_project(kind):
    def project(sc, vals):
        tr = JoinTrace(vals)
        if tr.ambiguous:      # only the model sets this flag
            return SKIP
        return _project(kind, sc, tr)
    return project


def lower_bound_write(tr, i, ocap, puts_of_last):
    """a lower bound of the instant slice i was written to the output: there had to be room (the slice ocap
    positions earlier was already received) and its last element had to be put"""
    lb = puts_of_last
    if i - ocap >= 0:
        lb = max(lb, tr.outs[i - ocap][0])
    return lb


def monitor_join(kind):
    def monitor(sc, ir):
        if ir.verdict != "ok":
            return [("implementation verdict %s %s" % (ir.verdict, ir.raw[-200:].replace("\n", " ")), None)]
        tr = JoinTrace(ir.vals)
        m = sc.meta
        if tr.error is not None:
            exp_i, exp_code = interval_of(m["T"], m["inaccuracy"], m["variant"] == "join-v1")
            if exp_i is None and exp_code == tr.error:
                return []
            return [("constructor returned error %s" % tr.error, None)]
        J, T = m["J"], m["T"]
        ins = inputs_of(m)
        allvals = [v for it in ins for v in it]
        outs = [o[2] for o in tr.outs]
        key = "join:%s:%s" % (m["variant"], sc.enc[2:9] + sc.enc[10:11])
        fails = []
        prompt = not m["cons"]
        ocap = 1 if m["variant"] == "join-v1" else 1 + m["icap"]
        put_of = {}
        for idx, it in enumerate(ins):
            for v in it:
                put_of[v] = tr.puts[idx] if idx < len(tr.puts) else None
        if kind == "C03":
            if tr.tclose < 0:
                fails.append("output never closed after the input was closed")
            if [v for o in outs for v in o] != allvals:
                fails.append("concatenation of the output slices differs from the input stream")
            if any(len(o) == 0 for o in outs):
                fails.append("empty output slice")
            for o in outs:
                if len(o) > J:
                    if m["variant"] != "unite-v2":
                        fails.append("join slice longer than JoinSize: %s" % o)
                    elif not any(o == it and len(it) >= J for it in ins):
                        fails.append("unite slice %s exceeds JoinSize but is not exactly one input slice of at least JoinSize" % o)
        elif kind == "C11":
            starts = {it[0] for it in ins if it}
            ends = {it[-1] for it in ins if it}
            for o in outs:
                if not o:
                    fails.append("an empty output slice was produced (empty input slices must produce nothing)")
                    continue
                if o[0] not in starts or o[-1] not in ends or o != list(range(o[0], o[-1] + 1)):
                    fails.append("output slice %s splits an input slice (inputs %s)" % (o, [it for it in ins if it]))
            for it in ins:
                if len(it) >= J and it not in outs:
                    fails.append("input slice %s of at least JoinSize elements is not an output slice of its own" % it)
            if sum(len(o) for o in outs) != len(allvals):
                fails.append("elements lost or invented")
        elif kind == "C09":
            if T <= 0:
                ref = greedy_unite(ins, J) if m["variant"] == "unite-v2" else greedy_join(allvals, J)
                if outs != ref:
                    fails.append("without a timeout the output %s is not the greedy batching %s" % (outs, ref))
            else:
                # the final slice is the one cut by the end of the input: delivered when (or after) the input was closed; a last
                # output that left while the input was still open was cut by the timeout like any other
                closed_at = (tr.puts[-1] + m["close_after"]) if tr.puts and len(tr.puts) == len(m["prod"]) else None
                for i in range(len(outs)):
                    if i == len(outs) - 1 and (closed_at is None or tr.outs[i][0] >= closed_at):
                        continue
                    if outs[i] and not is_maximal(m, ins, outs, i):
                        if i == 0:
                            lb = 0
                        else:
                            last = outs[i - 1][-1] if outs[i - 1] else None
                            lb = lower_bound_write(tr, i - 1, ocap, put_of.get(last) or 0)
                            if m["nocopy"] and i >= 2:
                                # no-copy mode: slice i-1 cannot have been written before slice i-2 was released (received + held)
                                hold = m["cons"][i - 2][0] if i - 2 < len(m["cons"]) else 0
                                lb = max(lb, tr.outs[i - 2][0] + hold)
                        if tr.outs[i][0] - lb < T:
                            fails.append("non-maximal non-final slice %s delivered at %d, less than Timeout=%d after the previous delivery (not before %d)"
                                         % (outs[i], tr.outs[i][0], T, lb))
        elif kind == "C10":
            if T > 0 and prompt and m["divider"]:
                div = m["divider"]
                for o in tr.outs:
                    for v in o[2]:
                        if put_of.get(v) is None:
                            continue
                        res = o[0] - put_of[v]
                        if res * div > T * div + T:
                            fails.append("element %d stayed %d ns inside the discipline, allowed Timeout*(1+1/%d) = %d" % (v, res, div, T + T // div))
                            break
        elif kind == "C08":
            for f in sorted(set(tr.flags)):
                fails.append("harness flag: " + f)
            if not m["nocopy"]:
                al = [o[1] for o in tr.outs]
                if al != list(range(len(al))):
                    fails.append("copy mode: output slices share memory (alias classes %s)" % al)
                if any(v == -7777 for o in outs for v in o):
                    fails.append("copy mode: an output contains what the consumer wrote into an earlier slice")
            else:
                for i in range(len(tr.outs) - 1):
                    hold = m["cons"][i][0] if i < len(m["cons"]) else 0
                    if tr.outs[i + 1][0] < tr.outs[i][0] + hold:
                        fails.append("no-copy mode: slice %d delivered at %d before slice %d was released at %d" % (i + 1, tr.outs[i + 1][0], i, tr.outs[i][0] + hold))
            if [v for o in outs for v in o if v != -7777] != [v for v in allvals][:sum(len(o) for o in outs)] and tr.stop_ret < 0:
                pass
        return [("%s [%s J=%d nocopy=%s T=%d icap=%d prod=%s cons=%s -> outs %s close %d]" % (
            f, m["variant"], J, m["nocopy"], T, m["icap"], m["prod"], m["cons"], tr.outs, tr.tclose), key) for f in fails[:3]]
    return monitor


JOIN_RULE = ("random timed scenarios inside a testing/synctest bubble (exact fake nanoseconds): JoinSize 1..9, copy/no-copy, no timeout / "
             "timeouts 600..2400 (x10ms for v1) with inaccuracy 0,1,10,25,33,34,50,51,100 / tiny timeouts 4..40ns, input capacity 0..2J, "
             "0..21 items (unite: slice lengths 0,1,J-1,J,J+1,2J,random), producer gaps 0..3*Timeout, consumer holds and pauses up to "
             "4*Timeout, late close; non-trivial = at least two items; scenarios in which the model sees a tick and an input become ready "
             "at the same instant are monitored but not compared")


# ------------------------------------------------------------------------------------- suites for limit
def limit_generate(styles=None):
    def generate(rng, tier):
        n = 600 if tier == "quick" else 5000
        return [gen_limit_scenario(rng, tier, style=rng.choice(styles) if styles else None) for _ in range(n)]
    return generate


def limit_project(kind):
    def project(sc, vals):
        tr = LimitTrace(vals)
        if tr.error is not None:
            return ["error", tr.error]
        if kind == "C04":
            return ["times", sorted(tr.outs)]
        return ["passthrough", [o[1] for o in tr.outs], tr.outs, tr.tclose]
    return project


def monitor_limit(kind):
    def monitor(sc, ir):
        if ir.verdict != "ok":
            return [("implementation verdict %s %s" % (ir.verdict, ir.raw[-200:].replace("\n", " ")), None)]
        tr = LimitTrace(ir.vals)
        m = sc.meta
        if tr.error is not None:
            return [("constructor returned error %s for a valid rate" % tr.error, None)]
        Q, I, N = m["Q"], m["I"], m["N"]
        times = [o[0] for o in tr.outs]
        fails = []
        key = "limit:%d:%d:%d:%s" % (Q, I, N, m["style"])
        if kind == "C04":
            # cumulative bound: holds for receive times of any consumer
            for j, t in enumerate(times):
                cnt = j + 1
                while cnt < len(times) and times[cnt] <= t:
                    cnt += 1
                if cnt > Q * (t // I + 1):
                    fails.append("%d elements left the output by t=%d, allowed %d*(floor(t/%d)+1) = %d" % (cnt, t, Q, I, Q * (t // I + 1)))
                    break
            # window bound: on write times.  A consumer that never pauses receives every element the instant it is written; after
            # the last pause of a consumer that then reads eagerly the same is true of every element except those that were
            # already in the output channel (1 + cap(input) slots) or inside the blocked send when the pause ended
            start = 0
            if not m["prompt"]:
                start = max(idx for idx, _ in m["cons"]) + m["icap"] + 4
            if True:
                n = len(times)
                for i in range(start, n):
                    hi = min(n, i + 3 * Q + 2)
                    for j in range(i + 1, hi):
                        w = times[j] - times[i]
                        if j - i + 1 > Q * (w // I + 2):
                            fails.append("%d elements within a window of %d ns (from t=%d), allowed %d*(floor(W/%d)+2) = %d"
                                         % (j - i + 1, w, times[i], Q, I, Q * (w // I + 2)))
                            break
                    if fails:
                        break
        else:
            if [o[1] for o in tr.outs] != list(range(1, N + 1)):
                fails.append("output %s is not the input sequence 1..%d" % ([o[1] for o in tr.outs][:30], N))
            if tr.tclose < 0:
                fails.append("output never closed")
            closed_at = (tr.puts[-1] if tr.puts else 0) + m["close_after"] if len(tr.puts) == N else None
            if closed_at is not None and 0 <= tr.tclose < closed_at:
                fails.append("output closed at %d before the input was closed at %d" % (tr.tclose, closed_at))
            if times and tr.tclose >= 0 and tr.tclose < times[-1]:
                fails.append("output closed before the last element was forwarded")
            if m["icap"] == 0 and Q <= 10 ** 6:
                # unbuffered input, any consumer: the discipline takes the next element as soon as it is offered, its predecessor has
                # been written out (no later than the consumer received it) and, at a batch boundary, one Interval has passed since it
                # took the first element of the previous batch (the batch clock starts no later than that)
                dl = m["delays"]
                for j in range(1, min(len(tr.puts), len(times) + 1, len(dl))):
                    offer = tr.puts[j - 1] + dl[j]
                    bound = max(offer, times[j - 1])
                    if j % Q == 0:
                        bound = max(bound, tr.puts[j - Q] + I)
                    if tr.puts[j] > bound:
                        fails.append("element %d was taken from the input only at %d although it was offered at %d, its predecessor had left by %d%s: "
                                     "throttled below the configured rate" % (j + 1, tr.puts[j], offer, times[j - 1],
                                                                              (" and the previous batch started by %d" % tr.puts[j - Q]) if j % Q == 0 else ""))
                        break
            if m["prompt"]:
                # fewer than Quantity elements since the start of a batch pass with no pause at all
                for j in range(min(Q, len(times), len(tr.puts))):
                    if times[j] != tr.puts[j] and m["icap"] == 0:
                        fails.append("element %d of the first batch was delayed: put at %d, delivered at %d" % (j + 1, tr.puts[j], times[j]))
                        break
                # no throttling below the rate: an element leaves as soon as it is there, its predecessor has left and the batch
                # Quantity positions earlier started at least one Interval ago
                for j in range(min(len(times), len(tr.puts))):
                    bound = max(tr.puts[j], times[j - 1] if j else 0, times[j - Q] + I if j >= Q else 0)
                    if times[j] > bound:
                        fails.append("element %d held back: it was put at %d, its predecessor left at %d, element %d left at %s, yet it left only at %d"
                                     % (j + 1, tr.puts[j], times[j - 1] if j else 0, j + 1 - Q, times[j - Q] if j >= Q else None, times[j]))
                        break
                if m["upfront"]:
                    for j, t in enumerate(times):
                        if t > (j // Q) * I:
                            fails.append("element %d available up-front left at %d, later than floor(%d/%d)*Interval = %d" % (j + 1, t, j, Q, (j // Q) * I))
                            break
                    if N and tr.tclose >= 0 and closed_at is not None:
                        # closure follows the closing of the input and the trailing delay of a complete last batch
                        latest = max(((N + Q - 1) // Q - 1) * I, (N // Q) * I if N % Q == 0 else 0, closed_at)
                        if tr.tclose > latest:
                            fails.append("closed at %d, later than %d (input closed at %d)" % (tr.tclose, latest, closed_at))
        return [("%s [Q=%d I=%d icap=%d N=%d style=%s cons=%s -> %s close %d]" % (f, Q, I, m["icap"], N, m["style"], m["cons"], tr.outs[:40], tr.tclose), key)
                for f in fails[:3]]
    return monitor


LIMIT_RULE = ("random timed scenarios in a synctest bubble: Quantity 1,2,3,7,100; Interval 1us/1ms/1s; input capacity 0..2Q; N in {0,<Q,Q,kQ,kQ+-1,random} "
              "elements; arrival up-front / trickle / stall-then-burst / random gaps; consumer pauses of 0.5..7 Intervals at up to three positions; "
              "non-trivial = at least two elements")


def join_stop_variants(sc):
    """the v1 selects after Stop() have up to three random choices: give the model every resolution"""
    base = list(sc.enc)
    # the oracle section is the last list: [..., k, bits...] with k = 0 as generated
    assert base[-1] == 0
    out = []
    for bits in range(8):
        out.append(base[:-1] + [3, bits & 1, (bits >> 1) & 1, (bits >> 2) & 1])
    return out


def join_stop_generate():
    def generate(rng, tier):
        n = 240 if tier == "quick" else 3000
        return [gen_join_scenario(rng, 2, tier, stop=("unreleased" if i % 3 == 0 else ("closedfull" if i % 7 == 1 else True))) for i in range(n)]
    return generate


def project_join_stop(sc, vals):
    tr = JoinTrace(vals)
    if tr.ambiguous:
        return SKIP
    if tr.error is not None:
        return ["error", tr.error]
    return ["stop", [(o[0], o[2]) for o in tr.outs], tr.tclose, tr.stop_ret]


def monitor_join_stop(sc, ir):
    if ir.verdict != "ok":
        what = "implementation verdict %s %s" % (ir.verdict, ir.raw[-300:].replace("\n", " "))
        if ir.verdict == "hang":
            what = "Stop() of the join discipline did not return (wall-clock watchdog) " + what
        return [(what, None)]
    tr = JoinTrace(ir.vals)
    m = sc.meta
    if tr.error is not None:
        return []
    fails = []
    key = "join1-stop:%s" % (sc.enc[2:11],)
    allvals = [v for it in inputs_of(m) for v in it]
    got = [v for o in tr.outs for v in o[2]]
    if tr.stop_ret < 0:
        fails.append("Stop() has not returned")
    elif tr.stop_ret != m["stop_at"]:
        fails.append("Stop() was called at %d and returned only at %d: it waited for the consumer" % (m["stop_at"], tr.stop_ret))
    if "output-not-closed-when-stop-returned" in tr.flags:
        fails.append("the output was not closed when Stop() returned")
    for f in tr.flags:
        if f != "output-not-closed-when-stop-returned":
            fails.append("harness flag: " + f)
    # what was delivered is an in-order duplicate-free subsequence of what was written
    it = iter(allvals)
    if not all(any(v == w for w in it) for v in got):
        fails.append("delivered elements %s are not an in-order duplicate-free subsequence of the written ones" % got)
    if tr.stop_ret >= 0 and any(o[0] > tr.stop_ret for o in tr.outs):
        fails.append("a slice was delivered after Stop() had returned")
    if any(len(o[2]) > m["J"] or not o[2] for o in tr.outs):
        fails.append("empty or oversize slice")
    return [("%s [join-v1 J=%d nocopy=%s T=%d icap=%d stop_at=%d prod=%s cons=%s -> outs %s close %d stop_ret %d]" % (
        f, m["J"], m["nocopy"], m["T"], m["icap"], m["stop_at"], m["prod"], m["cons"], tr.outs, tr.tclose, tr.stop_ret), key) for f in fails[:3]]
