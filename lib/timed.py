"""Timed join / unite / limit scenarios (families 5, 6): generation, decoding of the two sides' traces,
projections and monitors shared by C03 C08 C09 C10 C11 (join family) and C04 C12 (limit)."""
from .core import SKIP, Scenario

FUEL = 400000


# ----------------------------------------------------------------------------------------- join family (5)
def enc_join(variant, J, nocopy, T, inacc, icap, close_after, stop_at, prod, cons, oracle=()):
    ps, cs = [], []
    for d, n in prod:
        ps += [d, n]
    for h, p in cons:
        cs += [h, p]
    return [5, variant, J, 1 if nocopy else 0, T, inacc, icap, close_after, stop_at, FUEL,
            len(ps)] + ps + [len(cs)] + cs + [len(oracle)] + list(oracle)


def interval_of(T, inacc, v1=False):
    """calcInterruptInterval as documented: returns (interval, divider) or (None, code)"""
    if T <= 0:
        return 0, 0
    if inacc == 0:
        inacc = 25
    div = 100 // inacc
    if div == 0:
        return None, 2
    i = T // div
    if (v1 and i < 10_000_000) or (not v1 and i == 0):
        return None, 3
    return i, div


def gen_join_scenario(rng, variant, tier, style=None):
    """variant 0 join v2, 1 unite v2, 2 join v1 (no stop here).  Times: first producer delay odd, later ones even,
    ticker period even, so a tick and a put rarely coincide (the model flags the cases where they do)."""
    v1 = variant == 2
    J = rng.choice([1, 2, 3, 4, 5, 7, 9])
    nocopy = rng.random() < 0.45
    style = style or rng.choice(["untimed", "timed", "timed", "timed", "trickle", "slowcons", "tiny"])
    unit = 10_000_000 if v1 else 1
    if style == "untimed":
        T, inacc = rng.choice([0, 0, -5]), rng.choice([0, 25, 100])
    elif style == "tiny" and not v1:
        T, inacc = rng.choice([4, 7, 40]), rng.choice([25, 50, 100, 0])
    else:
        T = rng.choice([600, 1200, 2400]) * unit
        inacc = rng.choice([0, 1, 10, 25, 33, 34, 50, 51, 100])
        if v1:
            inacc = rng.choice([0, 25, 34, 50, 51, 100])
    ivl, div = interval_of(T, inacc, v1)
    icap = rng.choice([0, 0, 1, 2, J, 2 * J])
    n = rng.choice([0, 1, 2, 3, 5, 8, 13, 21])
    Tm = max(T, 40 * unit)
    gaps = [0, 0, 0, 2 * unit, 20 * unit, Tm // 2, Tm, Tm + (ivl or 0), 3 * Tm]
    if style == "trickle":
        gaps = [Tm // (J + 1) // 2 * 2, Tm // 4, Tm // 2, Tm // 3 // 2 * 2]
    prod = []
    for i in range(n):
        d = (rng.choice([1, 3, 21]) * (unit if not v1 else 1) + (rng.choice(gaps) if rng.random() < 0.3 else 0)) if i == 0 else rng.choice(gaps)
        if variant == 1:
            ln = rng.choice([0, 1, 1, 2, max(J - 1, 1), J, J + 1, 2 * J, rng.randrange(0, 2 * J + 2)])
        else:
            ln = 1
        prod.append((d, ln))
    cons = []
    if style == "slowcons" or rng.random() < 0.25:
        for i in range(rng.randrange(1, 6)):
            cons.append((rng.choice([0, 0, 10 * unit, Tm // 2, 2 * Tm]) if nocopy else 0,
                         rng.choice([0, 0, 20 * unit, Tm // 2, Tm, 4 * Tm])))
    close_after = rng.choice([2 * unit, 2 * Tm, 6 * Tm + 2 * unit])
    enc = enc_join(variant, J, nocopy, T, inacc, icap, close_after, -1, prod, cons)
    meta = {"variant": ["join-v2", "unite-v2", "join-v1"][variant], "J": J, "nocopy": nocopy, "T": T, "inaccuracy": inacc,
            "interval": ivl, "divider": div, "icap": icap, "close_after": close_after, "prod": prod, "cons": cons, "style": style}
    nontrivial = n >= 2
    return Scenario(enc, style, meta, nontrivial=nontrivial, version="v1" if v1 else "v2")


class JoinTrace:
    """decoded result of either side"""

    def __init__(self, vals):
        flags = []
        vals = list(vals)
        if "flags" in vals:
            k = vals.index("flags")
            flags = [str(x) for x in vals[k + 1:]]
            vals = vals[:k]
        v = [int(x) for x in vals]
        self.flags = flags
        self.error = None
        if v[0] != 0:
            self.error = -v[0]
            self.ambiguous = False
            self.finished = True
            self.puts, self.outs, self.tclose, self.stop_ret = [], [], -1, -1
            return
        self.ambiguous = v[1] == 1
        self.finished = v[2] == 1
        n = v[3]
        self.puts = v[4:4 + n]
        pos = 4 + n
        m = v[pos]
        pos += 1
        self.outs = []
        for _ in range(m):
            t, alias, ln = v[pos], v[pos + 1], v[pos + 2]
            self.outs.append((t, alias, v[pos + 3:pos + 3 + ln]))
            pos += 3 + ln
        self.tclose, self.stop_ret = v[pos], v[pos + 1]


def inputs_of(meta):
    """the producer's items as lists of values"""
    out, nxt = [], 1
    for _, ln in meta["prod"]:
        out.append(list(range(nxt, nxt + ln)))
        nxt += ln
    return out


def greedy_join(vals, J):
    return [vals[i:i + J] for i in range(0, len(vals), J)]


def greedy_unite(slices, J):
    outs, buf = [], []
    for s in slices:
        if len(s) >= J:
            if buf:
                outs.append(buf)
                buf = []
            outs.append(list(s))
            continue
        if len(s) + len(buf) > J:
            outs.append(buf)
            buf = []
        buf = buf + list(s)
        if len(buf) >= J:
            outs.append(buf)
            buf = []
    if buf:
        outs.append(buf)
    return outs


def is_maximal(meta, ins, outs, i):
    """slice i of outs (all values globally ordered 1..N) reached JoinSize / is oversize alone / the next non-empty
    input slice would not have fitted"""
    J = meta["J"]
    s = outs[i]
    if len(s) >= J:
        return True
    if meta["variant"] != "unite-v2":
        return False
    last = s[-1]
    for x in ins:
        if x and x[0] == last + 1:
            return len(s) + len(x) > J
    return False


def proj_model(trace):
    return SKIP if trace.ambiguous else None


# --------------------------------------------------------------------------------------------- limit (6)
def enc_limit(Q, I, icap, close_after, prod, cons):
    ps = []
    for d in prod:
        ps.append(d)
    cs = []
    for idx, p in cons:
        cs += [idx, p]
    return [6, Q, I, icap, close_after, FUEL, len(ps)] + ps + [len(cs)] + cs


class LimitTrace:
    def __init__(self, vals):
        v = [int(x) for x in vals]
        self.error = None
        if v[0] != 0:
            self.error = -v[0]
            self.ambiguous, self.finished, self.puts, self.outs, self.tclose = False, True, [], [], -1
            return
        self.ambiguous = v[1] == 1
        self.finished = v[2] == 1
        n = v[3]
        self.puts = v[4:4 + n]
        pos = 4 + n
        m = v[pos]
        self.outs = [(v[pos + 1 + 2 * i], v[pos + 2 + 2 * i]) for i in range(m)]
        self.tclose = v[pos + 1 + 2 * m]
