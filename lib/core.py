"""Shared machinery of the cqos verification checks (see DESIGN.md sections 2, 3, 8).

A check for property Cnn consists of
  (A) the proof obligations: theorems of coq/theories/Properties.v listed for Cnn in coq/obligations.json,
      compiled by `make`, re-audited on every run by compiling a generated Audit.v (Print Assumptions);
  (B) the correspondence: seeded scenarios executed on the real code (Go harness built from /repo's current
      working tree) and on the extracted Coq model, compared on the property's projection;
  (C) monitors: the property predicate evaluated directly on the implementation's results;
  (D) the decision, evidence and replay files.
"""
import hashlib
import json
import os
import random
import re
import shutil
import subprocess
import sys
import time

VERIF = os.path.dirname(os.path.dirname(os.path.abspath(__file__)))
REPO = os.environ.get("VERIF_REPO", "/repo")
WORK = os.path.join(VERIF, ".work")
COQ = os.path.join(VERIF, "coq")
EXTRACT = os.path.join(VERIF, "extract")
REPLAYS = os.path.join(VERIF, "replays")
EVIDENCE = os.path.join(VERIF, "evidence")

GOENV = dict(os.environ, GOFLAGS="-mod=mod", GOPROXY="off", GOSUMDB="off", GOTOOLCHAIN="local",
             CGO_ENABLED=os.environ.get("CGO_ENABLED", "1"))
GO = "go1.26"

STD_AXIOMS = {
    # axioms declared by Coq's standard library that Flocq's use of Reals brings in (float64 model only)
    "ClassicalDedekindReals.sig_forall_dec",
    "ClassicalDedekindReals.sig_not_dec",
    "FunctionalExtensionality.functional_extensionality_dep",
    "Classical_Prop.classic",
}

FORBIDDEN = re.compile(
    r"\b(Admitted|admit|Axiom|Axioms|Parameter|Parameters|Conjecture|Hypothesis|Variable|Variables|Hypotheses)\b"
    r"|Unset\s+Guard|bypass_check|type-in-type|impredicative-set|Admit\s+Obligations|native_compute")


def log(msg):
    print(msg, flush=True)


def sh(cmd, cwd=None, timeout=None, env=None, check=False, input=None):
    p = subprocess.run(cmd, cwd=cwd, timeout=timeout, env=env, input=input, text=True,
                       stdout=subprocess.PIPE, stderr=subprocess.STDOUT, shell=isinstance(cmd, str))
    if check and p.returncode != 0:
        raise RuntimeError("command failed: %s\n%s" % (cmd, p.stdout[-4000:]))
    return p.returncode, p.stdout


# --------------------------------------------------------------------------------------------- (A) proofs

def coq_sources():
    d = os.path.join(COQ, "theories")
    return sorted(os.path.join(d, f) for f in os.listdir(d) if f.endswith(".v"))


def forbidden_scan():
    """Textual scan of the development for anything that would declare an axiom or switch a check off.
    Section-local Variable/Hypothesis are allowed only inside a Section (checked crudely: the file must
    contain 'Section' before the first use) -- and Print Assumptions is the authority anyway."""
    bad = []
    for path in coq_sources() + [os.path.join(EXTRACT, "Extract.v")]:
        text = open(path).read()
        # drop comments (non-nested approximation is enough for our own files)
        text_nc = re.sub(r"\(\*.*?\*\)", " ", text, flags=re.S)
        depth = 0
        for ln, line in enumerate(text_nc.split("\n"), 1):
            if re.match(r"\s*Section\b", line):
                depth += 1
            if re.match(r"\s*End\b", line) and depth > 0:
                depth -= 1
            m = FORBIDDEN.search(line)
            if not m:
                continue
            word = m.group(0)
            if word in ("Variable", "Variables", "Hypothesis", "Hypotheses") and depth > 0:
                continue
            bad.append("%s:%d: %s" % (os.path.relpath(path, VERIF), ln, line.strip()[:120]))
    return bad


RACEFACTS_PKGS = ["priority", "v2/priority", "v2/priority/simple", "join", "v2/join", "v2/join/unite", "v2/limit"]


def regenerate_facts():
    """coq/theories/Facts.v is a translation of the current /repo sources (tools/racefacts): regenerated on every run, rewritten
    only when it changed so that `make` stays a no-op on an unchanged tree."""
    os.makedirs(WORK, exist_ok=True)
    tool = os.path.join(WORK, "racefacts")
    src = os.path.join(VERIF, "tools", "racefacts")
    if not os.path.exists(tool) or os.path.getmtime(tool) < os.path.getmtime(os.path.join(src, "main.go")):
        rc, out = sh(["go", "build", "-o", tool, "."], cwd=src, env=GOENV, timeout=600)
        if rc != 0:
            return False, "racefacts does not build: " + out[-1500:]
    tmp = os.path.join(WORK, "Facts.v.%d" % os.getpid())
    rc, out = sh([tool, REPO, tmp] + RACEFACTS_PKGS, timeout=300)
    if rc != 0:
        return False, "racefacts failed on the current sources: " + out[-1500:]
    dst = os.path.join(COQ, "theories", "Facts.v")
    new = open(tmp).read()
    os.remove(tmp)
    if not os.path.exists(dst) or open(dst).read() != new:
        open(dst, "w").write(new)
    return True, ""


def regenerate_consts():
    """coq/theories/SrcConsts.v: the named integer constants of the current /repo sources (tools/srcconsts), regenerated on every
    run.  A constant that can no longer be evaluated is left out (with a comment): the tie lemma that mentions it then fails."""
    os.makedirs(WORK, exist_ok=True)
    tool = os.path.join(WORK, "srcconsts")
    src = os.path.join(VERIF, "tools", "srcconsts")
    if not os.path.exists(tool) or os.path.getmtime(tool) < os.path.getmtime(os.path.join(src, "main.go")):
        rc, out = sh(["go", "build", "-o", tool, "."], cwd=src, env=GOENV, timeout=600)
        if rc != 0:
            return False, "srcconsts does not build: " + out[-1500:]
    tmp = os.path.join(WORK, "SrcConsts.v.%d" % os.getpid())
    rc, out = sh([tool, REPO, tmp], timeout=300)
    if rc not in (0, 3) or not os.path.exists(tmp):
        return False, "srcconsts failed on the current sources: " + out[-1500:]
    dst = os.path.join(COQ, "theories", "SrcConsts.v")
    new = open(tmp).read()
    os.remove(tmp)
    if not os.path.exists(dst) or open(dst).read() != new:
        open(dst, "w").write(new)
    return True, ""


def regenerate_blockfacts():
    """coq/theories/BlockFacts.v: the potentially blocking operations (selects with their cases, bare channel operations, blocking
    calls, go statements) of every function of the library packages, translated from the current /repo sources by
    tools/blockfacts on every run; StopAlts.v re-checks by computation that every blocking point of the v1 goroutines has a stop
    alternative."""
    os.makedirs(WORK, exist_ok=True)
    tool = os.path.join(WORK, "blockfacts")
    src = os.path.join(VERIF, "tools", "blockfacts")
    if not os.path.exists(tool) or os.path.getmtime(tool) < os.path.getmtime(os.path.join(src, "main.go")):
        rc, out = sh(["go", "build", "-o", tool, "."], cwd=src, env=GOENV, timeout=600)
        if rc != 0:
            return False, "blockfacts does not build: " + out[-1500:]
    tmp = os.path.join(WORK, "BlockFacts.v.%d" % os.getpid())
    rc, out = sh([tool, REPO, tmp] + RACEFACTS_PKGS, timeout=300)
    if rc != 0 or not os.path.exists(tmp):
        return False, "blockfacts failed on the current sources: " + out[-1500:]
    dst = os.path.join(COQ, "theories", "BlockFacts.v")
    new = open(tmp).read()
    os.remove(tmp)
    if not os.path.exists(dst) or open(dst).read() != new:
        open(dst, "w").write(new)
    return True, ""


def regenerate_gen():
    """coq/theories/Gen*.v: Gallina translations of the sequential functions of the current /repo sources (tools/gotrans: dividers,
    rate conversion, the scheduling arithmetic of both priority disciplines, option validation, interval computations, helpers),
    regenerated on every run.  The hand-written GenTie*.v prove that they equal the corresponding pieces of the hand-written
    models; a function that changed, disappeared or can no longer be translated breaks those proof obligations."""
    os.makedirs(WORK, exist_ok=True)
    tool = os.path.join(WORK, "gotrans")
    src = os.path.join(VERIF, "tools", "gotrans")
    newest = max(os.path.getmtime(os.path.join(src, f)) for f in os.listdir(src) if f.endswith(".go") or f in ("go.mod", "go.sum"))
    if not os.path.exists(tool) or os.path.getmtime(tool) < newest:
        rc, out = sh(["go", "build", "-o", tool, "."], cwd=src, env=GOENV, timeout=600)
        if rc != 0:
            return False, "gotrans does not build: " + out[-1500:]
    tmp = os.path.join(WORK, "gen.%d" % os.getpid())
    shutil.rmtree(tmp, ignore_errors=True)
    os.makedirs(tmp)
    rc, out = sh([tool, REPO, tmp], timeout=600, env=GOENV)
    theories = os.path.join(COQ, "theories")
    # the units that were generated when the index was last committed: one of them missing now is a translation failure
    try:
        expected = sorted(json.load(open(os.path.join(COQ, "gotrans_index.json"))).keys())
    except (OSError, ValueError):
        expected = []
    produced = sorted(f for f in os.listdir(tmp) if f.endswith(".v"))
    problems = []
    if rc != 0:
        problems.append("gotrans exit %d: %s" % (rc, out[-800:]))
    for f in expected:
        if f not in produced:
            # the unit can no longer be translated: an empty module, so that exactly the tie lemmas about it stop checking
            open(os.path.join(tmp, f), "w").write("(* GENERATED by tools/gotrans: this unit could not be translated from the current sources\n%s *)\n"
                                                  % out[-1500:].replace("*)", "* )"))
            problems.append("%s not produced" % f)
    for f in sorted(os.listdir(tmp)):
        if not (f.endswith(".v") or f == "gotrans_index.json"):
            continue
        dst = os.path.join(theories, f) if f.endswith(".v") else os.path.join(COQ, f)
        new = open(os.path.join(tmp, f)).read()
        if not os.path.exists(dst) or open(dst).read() != new:
            open(dst, "w").write(new)
    shutil.rmtree(tmp, ignore_errors=True)
    return True, "; ".join(problems)


def coq_make(clean=False, timeout=3000):
    """Builds the whole development (`make -k`: a file that no longer checks does not hide the others; its stale .vo is removed
    so that nothing can load it).  Returns (everything built, output)."""
    ok, msg = regenerate_facts()
    if not ok:
        return False, msg
    ok, msg = regenerate_consts()
    if not ok:
        return False, msg
    ok, msg = regenerate_blockfacts()
    if not ok:
        return False, msg
    ok, msg = regenerate_gen()
    if not ok:
        return False, msg
    if clean:
        sh("make clean >/dev/null 2>&1; rm -f Makefile Makefile.conf .*.d; find . -name '*.vo*' -delete -o -name '*.glob' -delete -o -name '.*.aux' -delete",
           cwd=COQ)
    if not os.path.exists(os.path.join(COQ, "Makefile")):
        sh("coq_makefile -f _CoqProject -o Makefile", cwd=COQ, check=True)
    rc, out = sh("make -k -j16", cwd=COQ, timeout=timeout)
    if rc != 0:
        for f in re.findall(r"\[[^\]]*?(theories/\w+)\.vo\] Error", out):
            for ext in (".vo", ".vos", ".vok", ".glob"):
                try:
                    os.remove(os.path.join(COQ, f + ext))
                except OSError:
                    pass
    return rc == 0, out


def obligations_for(pid):
    data = json.load(open(os.path.join(COQ, "obligations.json")))
    return data.get(pid, {"theorems": [], "allowed_axioms": []})


def audit_theorems(pid, names, allowed_axioms):
    """Compile generated files that Print-Assumptions every theorem claimed for the property, one file per Properties module so
    that a module that no longer compiles fails only its own theorems.  Returns (discharged, details, failures)."""
    os.makedirs(WORK, exist_ok=True)
    d = os.path.join(WORK, "audit-%s-%d" % (pid, os.getpid()))
    os.makedirs(d, exist_ok=True)
    mods = sorted(os.path.basename(f)[:-2] for f in coq_sources() if os.path.basename(f).startswith("Properties"))
    where = {}
    for mname in mods:
        for th in re.findall(r"^Theorem (\w+)", open(os.path.join(COQ, "theories", mname + ".v")).read(), flags=re.M):
            where[th] = mname
    failures, details, discharged = [], {}, 0
    groups = {}
    for n in names:
        groups.setdefault(where.get(n), []).append(n)
    for mname, group in sorted(groups.items(), key=lambda kv: str(kv[0])):
        if mname is None:
            for n in group:
                failures.append("%s: no such theorem in the Properties files" % n)
            continue
        src = ["From Cqos Require %s." % mname]
        for n in group:
            src.append('Goal True. idtac "@@BEGIN %s". exact I. Qed.' % n)
            src.append("Check %s.%s." % (mname, n))
            src.append("Print Assumptions %s.%s." % (mname, n))
        src.append('Goal True. idtac "@@END". exact I. Qed.')
        fname = "Audit%s.v" % mname
        open(os.path.join(d, fname), "w").write("\n".join(src) + "\n")
        rc, out = sh(["coqc", "-Q", os.path.join(COQ, "theories"), "Cqos", fname], cwd=d, timeout=600)
        if rc != 0:
            failures.append("%s (%s): the module does not check: %s" % (", ".join(group), mname, out[-600:]))
            continue
        blocks = re.split(r"@@BEGIN (\S+)", out)
        # blocks = [pre, name1, text1, name2, text2, ...]
        for i in range(1, len(blocks), 2):
            name, text = blocks[i], blocks[i + 1].split("@@END")[0]
            if "Closed under the global context" in text:
                details[name] = []
                discharged += 1
                continue
            axioms = re.findall(r"^([A-Za-z_][\w.]*)\s*:", text.split("Axioms:")[-1], flags=re.M) if "Axioms:" in text else None
            if axioms is None:
                failures.append("%s: no assumption report" % name)
                continue
            axioms = [a for a in axioms if a != name and a != "%s.%s" % (mname, name)]
            extra = [a for a in axioms if a not in allowed_axioms]
            details[name] = axioms
            if extra:
                failures.append("%s depends on axioms outside the allow-list: %s" % (name, ", ".join(extra)))
            else:
                discharged += 1
        for n in group:
            if n not in details and not any(f.startswith(n + ":") or f.startswith(n + " ") for f in failures):
                failures.append("%s: not reported" % n)
    shutil.rmtree(d, ignore_errors=True)
    return discharged, details, failures


def coqchk_all():
    """thorough tier: re-check every compiled file of the development (and everything it depends on) with the independent
    checker and list the axioms of the whole context; cached per content of coq/theories."""
    h = hashlib.sha1()
    for f in coq_sources():
        h.update(open(f, "rb").read())
    key = h.hexdigest()
    cache = os.path.join(WORK, "coqchk-%s.json" % key[:16])
    if os.path.exists(cache):
        return json.load(open(cache))
    mods = ["Cqos." + os.path.basename(f)[:-2] for f in coq_sources() if os.path.basename(f).startswith("Properties")]
    t0 = time.time()
    rc, out = sh(["coqchk", "-silent", "-o", "-Q", "theories", "Cqos"] + mods, cwd=COQ, timeout=7200)
    axioms = []
    if "* Axioms:" in out:
        block = out.split("* Axioms:")[1].split("* Constants")[0]
        axioms = [l.strip() for l in block.strip().split("\n") if l.strip() and l.strip() != "<none>"]
    res = {"ok": rc == 0, "axioms": axioms, "wall_s": round(time.time() - t0, 1), "tail": out[-1200:]}
    json.dump(res, open(cache, "w"))
    return res


def proofs_part(pid, clean=False, thorough=False):
    """(A): make + textual scan + assumption audit (+ coqchk in the thorough tier).  Returns dict."""
    t0 = time.time()
    ob = obligations_for(pid)
    ok, out = coq_make(clean=clean)
    failures = []
    bad = forbidden_scan()
    if bad:
        failures.append("forbidden constructs: " + "; ".join(bad[:5]))
    discharged, details, f2 = audit_theorems(pid, ob["theorems"], set(ob.get("allowed_axioms", [])))
    failures += f2
    if not ok:
        # some file of the development no longer checks.  It concerns this property if one of its theorems is affected (the
        # audit above fails then) or if the executable model cannot be built (Run.vo: the correspondence needs it)
        errs = re.findall(r"(theories/\w+\.v)", " ".join(re.findall(r"\[[^\]]*?theories/\w+\.vo\] Error", out)))
        if f2 or not os.path.exists(os.path.join(COQ, "theories", "Run.vo")) or not errs:
            failures.append("coq build failed: " + out[-2000:])
    chk = None
    if ok and thorough:
        chk = coqchk_all()
        if not chk["ok"]:
            failures.append("coqchk rejects the compiled development: " + chk["tail"][-600:])
        extra = [a for a in chk["axioms"] if a.replace("Coq.Reals.", "").replace("Coq.Logic.", "") not in STD_AXIOMS]
        if extra:
            failures.append("coqchk reports axioms outside the allow-list: " + ", ".join(extra))
    return {"obligations": len(ob["theorems"]), "discharged": discharged, "theorems": details,
            "failures": failures, "wall_s": round(time.time() - t0, 2), "partial": ob.get("partial", []), "coqchk": chk}


# --------------------------------------------------------------------------------------------- model driver

def model_driver_path():
    return os.path.join(EXTRACT, "model_driver")


def build_model_driver(force=False):
    """Extract Run.run and build the OCaml driver (only when stale)."""
    drv = model_driver_path()
    gen = os.path.join(EXTRACT, "gen")
    newest_vo = max([os.path.getmtime(p) for p in
                     [os.path.join(COQ, "theories", f) for f in os.listdir(os.path.join(COQ, "theories")) if f.endswith(".vo")]]
                    + [os.path.getmtime(os.path.join(EXTRACT, "Extract.v")), os.path.getmtime(os.path.join(EXTRACT, "driver.ml"))])
    if not force and os.path.exists(drv) and os.path.getmtime(drv) >= newest_vo:
        return True, "up to date"
    shutil.rmtree(gen, ignore_errors=True)
    os.makedirs(gen)
    rc, out = sh(["coqc", "-Q", os.path.join(COQ, "theories"), "Cqos", "../Extract.v", "-o", "./Extract.vo"], cwd=gen, timeout=1200)
    if rc != 0:
        return False, out[-2000:]
    shutil.copy(os.path.join(EXTRACT, "driver.ml"), gen)
    rc, out = sh("ocamlfind ocamlopt -w -a -o ../model_driver $(ocamlfind ocamldep -sort *.mli *.ml)", cwd=gen, timeout=1200)
    if rc != 0:
        return False, out[-2000:]
    return True, "built"


def run_model(lines):
    """lines: list of list[int] -> list of list[int]"""
    if not lines:
        return []
    data = "\n".join(" ".join(str(v) for v in l) for l in lines) + "\n"
    # the extracted model recurses on lists and fuel (not tail-recursive everywhere): no stack limit for it
    rc, out = sh("ulimit -s unlimited 2>/dev/null || ulimit -s 1000000 2>/dev/null; exec '%s'" % model_driver_path(), input=data, timeout=3600)
    if rc != 0:
        raise RuntimeError("model driver failed: " + out[-1000:])
    res = [[int(t) for t in l.split()] for l in out.strip("\n").split("\n")]
    if len(res) != len(lines):
        raise RuntimeError("model driver returned %d lines for %d scenarios" % (len(res), len(lines)))
    return res


def coq_eval(lines, timeout=600):
    """Re-evaluate scenarios inside Coq (vm_compute) -- used to confirm the model side of a disagreement."""
    d = os.path.join(WORK, "cases-%d" % os.getpid())
    os.makedirs(d, exist_ok=True)
    src = ["From Coq Require Import ZArith List.", "From Cqos Require Import Run.", "Import ListNotations.", "Open Scope Z_scope."]
    for i, l in enumerate(lines):
        src.append('Goal True. idtac "@@CASE %d". exact I. Qed.' % i)
        src.append("Eval vm_compute in run [%s]." % "; ".join("(%d)" % v for v in l))
    open(os.path.join(d, "cases.v"), "w").write("\n".join(src) + "\n")
    rc, out = sh(["coqc", "-Q", os.path.join(COQ, "theories"), "Cqos", "cases.v"], cwd=d, timeout=timeout)
    shutil.rmtree(d, ignore_errors=True)
    if rc != 0:
        return None
    res = []
    for chunk in re.split(r"@@CASE \d+", out)[1:]:
        body = chunk.split(": list Z")[0]
        res.append([int(x) for x in re.findall(r"-?\d+", body.replace("%Z", ""))])
    return res


# --------------------------------------------------------------------------------------------- Go harness

def repo_tree_id():
    rc, out = sh("git -C %s rev-parse HEAD; git -C %s status --porcelain | sha1sum" % (REPO, REPO))
    return hashlib.sha1(out.encode()).hexdigest()[:12]


def build_harness(version, race=False):
    """Copy the harness module to .work (so tracked files are never rewritten by the go tool), point its
    replace directive at REPO and build the test binary from REPO's current working tree with -tags verif."""
    src = os.path.join(VERIF, "harness", version)
    # per-process build directory and binary: several checks may run at the same time
    dst = os.path.join(WORK, "build", "harness-%s-%d" % (version, os.getpid()))
    _cleanup.append(dst)
    shutil.rmtree(dst, ignore_errors=True)
    shutil.copytree(src, dst)
    common = os.path.join(VERIF, "harness", "common")
    for f in os.listdir(common):
        shutil.copy(os.path.join(common, f), dst)
    repo_mod = REPO if version == "v1" else os.path.join(REPO, "v2")
    gomod = open(os.path.join(dst, "go.mod")).read()
    gomod = re.sub(r"=> /repo(/v2)?", "=> " + repo_mod, gomod)
    open(os.path.join(dst, "go.mod"), "w").write(gomod)
    shutil.copy(os.path.join(repo_mod, "go.sum"), os.path.join(dst, "go.sum"))
    binary = os.path.join(WORK, "build", "h-%s%s-%d.test" % (version, "-race" if race else "", os.getpid()))
    _cleanup.append(binary)
    cmd = [GO, "test", "-c", "-tags", "verif", "-o", binary]
    if race:
        cmd.append("-race")
    cmd.append(".")
    rc, out = sh(cmd, cwd=dst, env=GOENV, timeout=1800)
    if rc != 0:
        return None, out[-3000:]
    return binary, out


class ImplResult:
    __slots__ = ("verdict", "vals", "raw", "goroutines")

    def __init__(self, verdict, vals, raw=""):
        vals = list(vals)
        self.goroutines = None          # library goroutines still alive after the scenario (reported by the harness)
        if len(vals) >= 2 and vals[-2] == "goroutines":
            self.goroutines = int(vals[-1])
            vals = vals[:-2]
        self.verdict, self.vals, self.raw = verdict, vals, raw

    def to_json(self):
        return {"verdict": self.verdict, "vals": self.vals}


def run_impl(binary, lines, batch_timeout=300, tag="x", stall_timeout=45, max_hangs=4, confirm_hang=True):
    """Run scenarios on the implementation.  Crash / hang of the binary = verdict for the scenario that was
    running; the binary is restarted after it."""
    n = len(lines)
    results = [None] * n
    if n == 0:
        return results
    os.makedirs(WORK, exist_ok=True)
    base = os.path.join(WORK, "run-%s-%d" % (tag, os.getpid()))
    inp, outp = base + ".in", base + ".out"
    open(inp, "w").write("\n".join(" ".join(str(v) for v in l) for l in lines) + "\n")
    start = 0
    restarts = hangs = 0
    while start < n:
        if os.path.exists(outp):
            os.remove(outp)
        env = dict(os.environ, VERIF_IN=inp, VERIF_OUT=outp, VERIF_FROM=str(start))
        verdict_on_fail = "crash"
        tail = ""
        # no progress in the result file for stall_timeout seconds = the running scenario hangs (a scenario takes
        # milliseconds; the slowest stress scenarios a few seconds)
        logf = open(base + ".log", "w+")
        proc = subprocess.Popen([binary, "-test.run", "^TestHarness$", "-test.timeout", "%ds" % (batch_timeout + 30)],
                                env=env, stdout=logf, stderr=subprocess.STDOUT, text=True)
        t0 = last_change = time.time()
        last_size = -1
        while proc.poll() is None:
            time.sleep(0.05)
            now = time.time()
            try:
                size = os.path.getsize(outp)
            except OSError:
                size = 0
            if size != last_size:
                last_size, last_change = size, now
            if now - t0 > batch_timeout or now - last_change > stall_timeout:
                verdict_on_fail = "hang"
                proc.kill()
                proc.wait()
                break
        logf.seek(0)
        tail = logf.read()[-3000:]
        logf.close()
        os.remove(base + ".log")
        running = None
        if os.path.exists(outp):
            for l in open(outp):
                parts = l.split()
                if len(parts) < 2:
                    continue
                idx = int(parts[0])
                if parts[1] == "begin":
                    running = idx
                    continue
                results[idx] = ImplResult(parts[1], parts[2:])
                running = None
        done_upto = start
        while done_upto < n and results[done_upto] is not None:
            done_upto += 1
        if done_upto >= n:
            break
        # the binary stopped before finishing: blame the scenario that was running (or the next one)
        bad = running if running is not None else done_upto
        if "blocked goroutines remain" in tail or "deadlock: main bubble goroutine" in tail or "all goroutines in bubble are blocked" in tail:
            verdict_on_fail = "bubble-deadlock"
        results[bad] = ImplResult(verdict_on_fail, [], raw=tail[-1500:])
        if verdict_on_fail == "hang" and confirm_hang and n > 1:
            # a stall can also come from outside (the machine paused, a snapshot of the sandbox being taken): a hang only counts
            # if the scenario hangs again when run alone in a fresh process; a scenario that really hangs does so deterministically
            again = run_impl(binary, [lines[bad]], batch_timeout=batch_timeout, tag=tag + "r", stall_timeout=stall_timeout,
                             max_hangs=1, confirm_hang=False)[0]
            if again.verdict != "hang":
                again.raw = "first attempt stalled for %d s without progress, the scenario ran normally when repeated alone" % stall_timeout
                results[bad] = again
                verdict_on_fail = "stall-not-reproduced"
        start = bad + 1
        restarts += 1
        hangs += 1 if verdict_on_fail == "hang" else 0
        if restarts > 200 or hangs >= max_hangs:
            for i in range(n):
                if results[i] is None:
                    results[i] = ImplResult("not-run", [])
            break
    for f in (inp, outp):
        if os.path.exists(f):
            os.remove(f)
    return results


# --------------------------------------------------------------------------------------------- known findings

def load_known_findings():
    p = os.path.join(VERIF, "known_findings.json")
    if not os.path.exists(p):
        return {"findings": [], "fixed": []}
    return json.load(open(p))


# --------------------------------------------------------------------------------------------- the engine

class Scenario:
    """enc: list[int] passed to both sides; label: category (input distribution); meta: readable form."""
    __slots__ = ("enc", "label", "meta", "nontrivial", "version")

    def __init__(self, enc, label="", meta=None, nontrivial=True, version="v2"):
        self.enc, self.label, self.meta, self.nontrivial, self.version = enc, label, meta or {}, nontrivial, version

    def to_json(self):
        return {"enc": self.enc, "label": self.label, "meta": self.meta, "version": self.version}


class Failure:
    def __init__(self, kind, scenario, what, impl=None, model=None, key=None):
        self.kind = kind          # 'monitor' | 'correspondence' | 'verdict'
        self.scenario, self.what, self.impl, self.model = scenario, what, impl, model
        self.key = key            # string used to match known findings

    def to_json(self):
        return {"kind": self.kind, "what": self.what, "key": self.key,
                "scenario": self.scenario.to_json() if self.scenario else None,
                "impl": self.impl.to_json() if isinstance(self.impl, ImplResult) else self.impl,
                "model": self.model}


def write_replay(pid, payload):
    os.makedirs(REPLAYS, exist_ok=True)
    h = hashlib.sha1(json.dumps(payload, sort_keys=True, default=str).encode()).hexdigest()[:10]
    path = os.path.join(REPLAYS, "%s-%s.json" % (pid, h))
    json.dump(payload, open(path, "w"), indent=1, default=str)
    return path


def write_evidence(pid, tier, seed, coverage, assumptions, wall, violations):
    os.makedirs(EVIDENCE, exist_ok=True)
    ev = {"property_id": pid, "tier": tier, "seed": seed, "level": "proof", "coverage": coverage,
          "assumptions": assumptions, "wall_s": round(wall, 2), "violations": violations}
    json.dump(ev, open(os.path.join(EVIDENCE, pid + ".json"), "w"), indent=1, default=str)


_cleanup = []


def _remove_build_output():
    for path in _cleanup:
        if os.path.isdir(path):
            shutil.rmtree(path, ignore_errors=True)
        elif os.path.exists(path):
            os.remove(path)


import atexit  # noqa: E402
atexit.register(_remove_build_output)

TRUSTED_BASE = [
    "Coq 8.16.1 kernel (coqc; vm_compute used, native_compute not used); coqchk in the thorough tier",
    "hand-written Gallina model of the Go code (coq/theories/*.v), tied to /repo by the executed correspondence check",
    "extraction with ExtrOcamlBasic only (bool, option, unit, list, prod, sumbool, sumor; andb/orb inlined); N/Z/positive/nat stay inductives",
    "OCaml driver extract/driver.ml (decimal <-> Z conversion), Go harness under harness/, Python comparison in lib/",
    "Go 1.26.8 testing/synctest fake clock for the timed and concurrent scenarios",
    "tools/gotrans (Go -> Gallina translator for the sequential functions and the v2 priority goroutine body, regenerated on every run) with its "
    "semantics libraries GoSem.v / GoConc.v (64-bit wrap-around, maps as association lists, control flow and channel requests; documented totalisations); "
    "the other Go-AST translators (racefacts, srcconsts, blockfacts) where their output is used",
]


SKIP = object()   # returned by a projection of the MODEL result: scenario not comparable (e.g. simultaneous events)


def safe_monitor(monitor, sc, ir, strict):
    """a monitor that raises is a defect of the check, not of the code: while shrinking / searching the candidate is skipped;
    in the main pass it is reported (visibly) instead of crashing the run"""
    try:
        return list(monitor(sc, ir))
    except Exception as e:  # noqa: BLE001
        if strict:
            return [("internal error in the monitor: %r" % (e,), "internal-error")]
        return []


class Suite:
    """One scenario family as used by one property.
    generate(rng, tier) -> [Scenario]; project(sc, ints) -> comparable; monitor(sc, ImplResult) -> [(what, key)]"""

    def __init__(self, name, generate, project=None, monitor=None, rule="", version="v2", race=False,
                 model=True, batch_timeout=300, impl_ints=True, variants=None, shrink=None):
        self.name, self.generate, self.project, self.monitor = name, generate, project, monitor
        self.rule, self.version, self.race, self.model = rule, version, race, model
        self.batch_timeout, self.impl_ints = batch_timeout, impl_ints
        # variants(sc) -> list of encodings for the model (resolutions of a nondeterministic select); the implementation's
        # projection must equal that of at least one of them (trace inclusion)
        self.variants = variants
        # shrink(sc) -> iterable of smaller candidate scenarios (delta debugging of a monitor failure)
        self.shrink = shrink
        # cross(scenarios, run_on): optional hook run before the monitors; run_on(version, lines) executes encodings on the
        # harness of another module version (used where a property relates the two versions to each other)
        self.cross = None


def _ints(vals):
    return [int(v) for v in vals]


def run_suite(pid, suite, scenarios, binaries):
    """Execute scenarios on both sides.  Returns (failures, stats)."""
    failures = []
    key = (suite.version, suite.race)
    if key not in binaries:
        b, out = build_harness(suite.version, race=suite.race)
        if b is None:
            raise RuntimeError("harness build failed (%s):\n%s" % (suite.version, out))
        binaries[key] = b
    lines = [s.enc for s in scenarios]
    if suite.cross is not None:
        def run_on(version, lines2):
            k2 = (version, False)
            if k2 not in binaries:
                b2, out2 = build_harness(version)
                if b2 is None:
                    raise RuntimeError("harness build failed (%s):\n%s" % (version, out2))
                binaries[k2] = b2
            return run_impl(binaries[k2], lines2, batch_timeout=suite.batch_timeout, tag=pid + suite.name + "x")
        suite.cross(scenarios, run_on)
    t0 = time.time()
    impl = run_impl(binaries[key], lines, batch_timeout=suite.batch_timeout, tag=pid + suite.name)
    t_impl = time.time() - t0
    t0 = time.time()
    if suite.model and suite.variants is not None:
        groups = [suite.variants(sc) for sc in scenarios]
        flat = [e for g in groups for e in g]
        flat_res = run_model(flat)
        model, k = [], 0
        for g in groups:
            model.append(flat_res[k:k + len(g)])
            k += len(g)
    else:
        model = run_model(lines) if suite.model else [None] * len(lines)
    t_model = time.time() - t0
    disagreements = 0
    monitor_fail = 0
    skipped = 0
    verdicts = {}
    for sc, ir, mr in zip(scenarios, impl, model):
        verdicts[ir.verdict] = verdicts.get(ir.verdict, 0) + 1
        if ir.verdict == "not-run":     # the run was cut short after several hangs, each already recorded
            continue
        if suite.monitor is not None:
            for what, k in safe_monitor(suite.monitor, sc, ir, True):
                failures.append(Failure("monitor", sc, what, ir, mr, key=k))
                monitor_fail += 1
        if suite.model and suite.project is not None:
            if ir.verdict != "ok":
                failures.append(Failure("correspondence", sc, "implementation verdict '%s' (model expects a normal run)" % ir.verdict, ir, mr))
                disagreements += 1
                continue
            try:
                pi = suite.project(sc, _ints(ir.vals) if suite.impl_ints else ir.vals)
            except Exception as e:  # malformed implementation output is a disagreement, not a crash of the check
                pi = "unparsable: %r" % (e,)
            if suite.variants is not None:
                pms = [suite.project(sc, v) for v in mr]
                if all(x is SKIP for x in pms):
                    skipped += 1
                    continue
                pm = next((x for x in pms if x is not SKIP and x == pi), None)
                if pm is None:
                    pm = next(x for x in pms if x is not SKIP)
            else:
                pm = suite.project(sc, mr)
            if pm is SKIP:
                skipped += 1
                continue
            if pi != pm:
                failures.append(Failure("correspondence", sc, "projection differs: impl %s / model %s" % (short(pi), short(pm)), ir, mr))
                disagreements += 1
    stats = {"suite": suite.name, "scenarios": len(scenarios), "disagreements": disagreements,
             "monitor_failures": monitor_fail, "impl_verdicts": verdicts, "skipped_ambiguous": skipped,
             "impl_s": round(t_impl, 2), "model_s": round(t_model, 2)}
    return failures, stats, impl, model


def short(x, n=300):
    s = json.dumps(x, default=str)
    return s if len(s) <= n else s[:n] + "..."


def match_known(pid, failure, known):
    for f in known.get("findings", []):
        if f["property"] == pid and failure.key is not None and f["key"] == failure.key:
            return f
    return None


def run_property(pid, suites, tier, seed, assumptions, extra_obligation_check=None, replay=None):
    """The common decision procedure (D).  suites: list[Suite]."""
    t_start = time.time()
    rng_master = random.Random(seed * 1000003 + int(pid[1:]))
    proofs = proofs_part(pid, clean=False, thorough=(tier == "thorough"))
    ok_drv, msg = build_model_driver()
    if not ok_drv:
        proofs["failures"].append("model extraction/driver build failed: " + msg)
    binaries = {}
    all_fail = []
    stats_all = []
    samples = []
    distribution = {}
    evaluations = 0
    distinct = set()
    for suite in suites:
        if replay is not None:
            scenarios = [Scenario(r["enc"], r.get("label", ""), r.get("meta"), version=r.get("version", suite.version))
                         for r in replay if r.get("suite", suite.name) == suite.name]
            if not scenarios:
                continue
        else:
            scenarios = suite.generate(random.Random(rng_master.random()), tier)
        fails, stats, impl, model = run_suite(pid, suite, scenarios, binaries)
        for f in fails:
            f.suite = suite.name
        all_fail += fails
        stats_all.append(stats)
        evaluations += len(scenarios)
        for sc in scenarios:
            distribution[suite.name + ":" + sc.label] = distribution.get(suite.name + ":" + sc.label, 0) + 1
            if sc.nontrivial:
                distinct.add((suite.name, tuple(sc.enc)))
        for sc, ir, mr in list(zip(scenarios, impl, model))[:3]:
            samples.append({"suite": suite.name, "scenario": sc.to_json(), "impl": ir.to_json(), "model": mr})
    known = load_known_findings()
    violations = []
    known_hits = {}
    mon = [f for f in all_fail if f.kind == "monitor"]
    cor = [f for f in all_fail if f.kind != "monitor"]
    for f in mon:
        k = match_known(pid, f, known)
        if k is not None:
            known_hits[k["key"]] = k
        else:
            violations.append(f)
    out_lines = []
    exit_code = 0
    # shrink the first unknown monitor failure to a smaller scenario that still fails the same monitor (greedy, bounded)
    if violations and replay is None:
        f0 = violations[0]
        su = next((x for x in suites if x.name == getattr(f0, "suite", None)), None)
        if su is not None and su.shrink is not None and (su.version, su.race) in binaries:
            cur, budget = f0, 60
            improved = True
            while improved and budget > 0:
                improved = False
                cands = list(su.shrink(cur.scenario))[:12]
                if not cands:
                    break
                res = run_impl(binaries[(su.version, su.race)], [c.enc for c in cands], batch_timeout=su.batch_timeout, tag=pid + "shrink")
                budget -= len(cands)
                for c, ir in zip(cands, res):
                    fs = safe_monitor(su.monitor, c, ir, False)
                    if fs:
                        nf = Failure("monitor", c, fs[0][0], ir, None, key=fs[0][1])
                        nf.suite = su.name
                        cur, improved = nf, True
                        break
            if cur is not f0:
                cur.what = cur.what + "  (shrunk from a scenario of %d to %d encoded values)" % (len(f0.scenario.enc), len(cur.scenario.enc))
                violations[0] = cur
    for k in known_hits.values():
        out_lines.append("KNOWN-FINDING: property=%s %s" % (pid, k["what"]))
    if violations:
        f = violations[0]
        path = write_replay(pid, {"property": pid, "kind": "monitor", "what": f.what, "failure": f.to_json(),
                                  "all_failures": [x.to_json() for x in violations[:20]],
                                  "replay": [dict(f.scenario.to_json(), suite=getattr(f, "suite", ""))]})
        out_lines.append("VIOLATION property=%s replay=%s" % (pid, path))
        exit_code = 1
    else:
        # correspondence failures attributable to a known finding (the model is the repaired behaviour) are not re-reported
        cor_unknown = [f for f in cor if not any(kf["property"] == pid and kf.get("scenario_key") and kf["scenario_key"] == getattr(f.scenario, "meta", {}).get("key") for kf in known.get("findings", []))]
        found = None
        searched = 0
        if (proofs["failures"] or cor_unknown) and replay is None:
            # directed search: the theorem or the correspondence no longer checks but no monitor failed so far; look for a
            # concrete input on which the property fails on the implementation: fresh seeds for the suites concerned
            # (all suites when only a proof obligation broke), implementation and monitors only
            concerned = [su for su in suites if su.monitor is not None and
                         (not cor_unknown or any(getattr(f, "suite", None) == su.name for f in cor_unknown))]
            for rnd in range(3 if tier == "quick" else 8):
                for su in concerned:
                    extra_sc = su.generate(random.Random(seed * 7919 + 104729 * (rnd + 1) + int(pid[1:])), tier)
                    key = (su.version, su.race)
                    if key not in binaries:
                        continue
                    if su.cross is not None:
                        # suites that relate two module versions: the other version is run on the extra scenarios as well
                        def run_on(version, lines2, _su=su):
                            k2 = (version, False)
                            if k2 not in binaries:
                                b2, out2 = build_harness(version)
                                if b2 is None:
                                    raise RuntimeError("harness build failed (%s):\n%s" % (version, out2))
                                binaries[k2] = b2
                            return run_impl(binaries[k2], lines2, batch_timeout=_su.batch_timeout, tag=pid + _su.name + "sx")
                        su.cross(extra_sc, run_on)
                    impl2 = run_impl(binaries[key], [sc.enc for sc in extra_sc], batch_timeout=su.batch_timeout, tag=pid + su.name + "s")
                    searched += len(extra_sc)
                    for sc, ir in zip(extra_sc, impl2):
                        for what_, k in safe_monitor(su.monitor, sc, ir, False):
                            f = Failure("monitor", sc, what_, ir, None, key=k)
                            f.suite = su.name
                            if match_known(pid, f, known) is None:
                                found = f
                                break
                        if found:
                            break
                    if found:
                        break
                if found:
                    break
        if found is not None:
            path = write_replay(pid, {"property": pid, "kind": "monitor", "what": found.what, "failure": found.to_json(),
                                      "found_by": "directed search after a broken proof obligation / correspondence",
                                      "broken": {"proofs": proofs["failures"], "correspondence": [x.to_json() for x in cor_unknown[:5]]},
                                      "replay": [dict(found.scenario.to_json(), suite=found.suite)]})
            out_lines.append("VIOLATION property=%s replay=%s" % (pid, path))
            exit_code = 1
            violations.append(found)
        elif proofs["failures"] or cor_unknown:
            what = []
            if proofs["failures"]:
                what.append("proof obligations no longer check: " + "; ".join(proofs["failures"])[:1500])
            if cor_unknown:
                what.append("correspondence between model and implementation fails on %d scenario(s), first: %s" % (len(cor_unknown), cor_unknown[0].what))
            confirm = None
            if cor_unknown:
                confirm = coq_eval([cor_unknown[0].scenario.enc])
            path = write_replay(pid, {"property": pid, "kind": "no-failing-input-found", "what": what,
                                      "theorems": obligations_for(pid)["theorems"],
                                      "failures": [x.to_json() for x in cor_unknown[:20]],
                                      "model_side_confirmed_in_coq": confirm, "directed_search_scenarios": searched,
                                      "replay": [dict(x.scenario.to_json(), suite=getattr(x, "suite", "")) for x in cor_unknown[:20]]})
            out_lines.append("VIOLATION property=%s replay=%s no-failing-input-found" % (pid, path))
            exit_code = 1
    wall = time.time() - t_start
    coverage = {
        "obligations": proofs["obligations"], "discharged": proofs["discharged"],
        "checker_cmd": "make -C coq (coqc 8.16.1) + generated Audit.v: Check/Print Assumptions for each theorem of coq/obligations.json[%s]" % pid,
        "trusted_base": TRUSTED_BASE,
        "theorems": proofs["theorems"], "partial_theorems": proofs.get("partial", []), "coqchk": proofs.get("coqchk"),
        "proof_failures": proofs["failures"],
        "evaluations": evaluations, "distinct_nontrivial": len(distinct),
        "rule": "; ".join("%s: %s" % (s.name, s.rule) for s in suites),
        "samples": samples[:8],
        "correspondence": stats_all,
        "input_distribution": distribution,
        "known_findings_seen": sorted(known_hits.keys()),
    }
    write_evidence(pid, tier, seed, coverage, assumptions, wall, len(violations))
    for l in out_lines:
        log(l)
    log("%s %s: obligations %d/%d, scenarios %d, monitor failures %d, disagreements %d, %.1fs" % (
        pid, tier, proofs["discharged"], proofs["obligations"], evaluations, len(mon), len(cor), wall))
    return exit_code
