"""C20 -- no data races under documented concurrent use (DESIGN.md section 5.C20).
(A) Proof over a model REGENERATED from the source on every run: tools/racefacts translates the discipline packages into
    Facts.v (fields with kinds, per-function field reads/writes, call graph, go statements, exported entry points) and
    C20_table : confined facts = true is re-checked by the kernel; C20_no_conflicting_access is what it means.
(B) The dynamic tie and the search for a concrete failing input: free-running stress of the documented concurrent use of every
    discipline of both versions under the race detector (harness/*/stress_test.go)."""
import os
import re
import time

from .. import core

TESTS = ["TestStressPriority", "TestStressSimple", "TestStressJoin", "TestStressUnite", "TestStressLimit",
         "TestStressPriorityV1", "TestStressSimpleV1", "TestStressJoinV1", "TestStressPure", "TestStressPureV1"]


def run(tier, seed, replay):
    t0 = time.time()
    pid = "C20"
    proofs = core.proofs_part(pid, thorough=(tier == "thorough"))
    rounds = 3 if tier == "quick" else 40
    races, runs, samples = [], 0, []
    failures_other = []
    for version in ("v1", "v2"):
        binary, out = core.build_harness(version, race=True)
        if binary is None:
            failures_other.append("race build of harness %s failed: %s" % (version, out[-800:]))
            continue
        env = dict(os.environ, VERIF_STRESS=str(rounds), VERIF_SEED=str(seed))
        rc, out = core.sh([binary, "-test.run", "^TestStress", "-test.v", "-test.timeout", "1500s"], env=env, timeout=1800)
        ran = re.findall(r"^=== RUN\s+(\S+)", out, flags=re.M)
        runs += len(ran) * rounds
        samples += [{"test": t, "version": version, "rounds": rounds} for t in ran]
        for m in re.finditer(r"WARNING: DATA RACE.*?={10,}", out, flags=re.S):
            races.append({"version": version, "report": m.group(0)[:6000]})
        if rc != 0 and "DATA RACE" not in out:
            failures_other.append("stress run of harness %s failed: %s" % (version, out[-1500:]))
    lines = []
    exit_code = 0
    if races:
        path = core.write_replay(pid, {"property": pid, "kind": "monitor", "what": "the race detector reported a data race during the stress of documented concurrent use",
                                       "races": races[:5], "replay": [{"cmd": "./check C20 --tier %s (builds harness/%s with -race and runs ^TestStress with VERIF_STRESS=%d)" % (tier, races[0]["version"], rounds)}]})
        lines.append("VIOLATION property=%s replay=%s" % (pid, path))
        exit_code = 1
    elif proofs["failures"] or failures_other:
        path = core.write_replay(pid, {"property": pid, "kind": "no-failing-input-found",
                                       "what": ["proof obligations no longer check: " + "; ".join(proofs["failures"])[:3000]] + failures_other,
                                       "theorems": core.obligations_for(pid)["theorems"],
                                       "note": "the confinement table regenerated from the source is no longer confined (or does not build); the stress runs "
                                               "under the race detector reported no race", "replay": []})
        lines.append("VIOLATION property=%s replay=%s no-failing-input-found" % (pid, path))
        exit_code = 1
    coverage = {
        "obligations": proofs["obligations"], "discharged": proofs["discharged"],
        "checker_cmd": "tools/racefacts -> coq/theories/Facts.v; make -C coq; Audit.v (Check / Print Assumptions of C20_*)",
        "trusted_base": core.TRUSTED_BASE + ["tools/racefacts (Go AST translator: field kinds from declared types, reads/writes from syntax)",
                                             "Go memory model: channel send happens-before receive, `go` happens-before the goroutine's start, sync objects are race-free",
                                             "Go race detector (ThreadSanitizer) for the dynamic part"],
        "theorems": proofs["theorems"], "proof_failures": proofs["failures"],
        "evaluations": runs, "distinct_nontrivial": len(samples),
        "rule": "every TestStress* of harness/v1 and harness/v2 (priority, simple, join copy/no-copy with retained and modified slices, unite with "
                "a producer that keeps reading what it sent, limit, the pure functions (rate conversion, dividers, helpers) called concurrently with results compared to the sequential ones; v1 with Stop/GracefulStop/cancel/AddInput/RemoveInput from other goroutines) "
                "run %d rounds each under -race; distinct = test functions" % rounds,
        "samples": samples[:12], "races": len(races),
    }
    core.write_evidence(pid, tier, seed, coverage, [
        "partial: data-race freedom is decided as confinement of plain fields over a table extracted from the syntax; slices handed to users are C08's subject",
    ], time.time() - t0, len(races))
    for l in lines:
        core.log(l)
    core.log("%s %s: obligations %d/%d, stress runs %d, races %d, %.1fs" % (pid, tier, proofs["discharged"], proofs["obligations"], runs, len(races), time.time() - t0))
    return exit_code
