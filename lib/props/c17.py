"""C17 -- v1 AddInput/RemoveInput; see DESIGN.md section 5.C17; scripts, projections and monitors live in lib/prio.py"""
from .. import prio
from ..core import Suite

SUITES = [Suite("prio1-addremove", prio.prio1_generate(0.0, 0.0, ["addremove", "addremove", "unbuffered"]), prio.prio1_project("C17"),
                prio.monitor_prio1("C17"), rule=prio.PRIO1_RULE, version="v1", impl_ints=False, batch_timeout=300, shrink=prio.shrink_prio1)]
ASSUMPTIONS = [
    "model: Prio1.sched_step with channel identities; AddInput/RemoveInput are commands taken by the loop's select (the API call returns at that moment)",
    "one channel is never registered under two priorities at once; AddInput/RemoveInput are not called after termination (they panic: documented misuse)",
]
