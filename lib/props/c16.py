"""C16 -- v1 Stop()/cancel; see DESIGN.md section 5.C16; scenarios and monitors in lib/prio.py (priority) and lib/timed.py (join)"""
from .. import prio, timed
from ..core import Suite

SUITES = [
    Suite("prio1-stop", prio.prio1_generate_with_injection(0.0, 1.0, "stop"), prio.prio1_project("C16"), prio.monitor_prio1("C16"),
          rule=prio.PRIO1_RULE, version="v1", impl_ints=False, batch_timeout=120),
    Suite("join1-stop", timed.join_stop_generate(), timed.project_join_stop, timed.monitor_join_stop,
          rule=timed.JOIN_RULE + "; v1 join with Stop() at a random instant; the model is run under every resolution of the (at most three) "
          "selects that have several ready cases after the stop and the implementation must agree with one of them",
          version="v1", impl_ints=False, batch_timeout=120, variants=timed.join_stop_variants),
]

SUITES.append(Suite("simple1", prio.simple1_generate(["stop", "cancel", "double-stop", "stop-during-graceful"]), None, prio.monitor_simple1("C16"),
                    rule=prio.SIMPLE1_RULE, version="v1", impl_ints=False, batch_timeout=120, model=False))
ASSUMPTIONS = [
    "model: Prio1.sched_step / Join.jstep with a stop alternative at every blocking point; Go's random choice among ready select cases is an oracle",
    "Stop()/cancel are injected at quiescent points of the scenario (after a settle); in between the discipline is blocked or idle",
    "a hang of the harness process (wall-clock watchdog) is the verdict 'Stop did not complete'",
]
