"""C15 -- see DESIGN.md section 5.C15; driver scripts, projections and monitors live in lib/prio.py"""
from .. import prio
from ..core import Suite

STYLES = None
SUITES = [Suite("prio2-det", prio.prio_generate(0.6, STYLES), prio.prio_project("C15"), prio.monitor_prio("C15"),
                rule=prio.PRIO_RULE, version="v2", impl_ints=False, batch_timeout=600, shrink=prio.shrink_prio2)]

SUITES.append(Suite("prio1-det", prio.prio1_generate_with_injection(0.5, 0.0, "fault"), prio.prio1_project("C15"), prio.monitor_prio1("C15"),
                    rule=prio.PRIO1_RULE, version="v1", impl_ints=False, batch_timeout=300, shrink=prio.shrink_prio1))
# ---- v2 New with dividers that obey the sum rule but not the order of the shares (family 4 with the `moved` divider of Run.v): the
# constructor must reject exactly the configurations in which SOME priority's share is zero, wherever in the list that priority is
def _moved_shares(ps_sorted, kind, H, frm, to):
    from .c18 import ref_fair, ref_rate
    d = (ref_fair if kind == 0 else ref_rate)(ps_sorted, H)
    pf, pt = ps_sorted[frm % len(ps_sorted)], ps_sorted[to % len(ps_sorted)]
    if pf != pt:
        d[pt] = d.get(pt, 0) + d.get(pf, 0)
        d[pf] = 0
    return d


def ctor_generate(rng, tier):
    from ..core import Scenario
    out = []
    sets = [[1], [2, 1], [3, 2, 1], [5, 1], [7, 5, 3, 1], [70, 20, 10], [4, 3], [6, 5, 4, 3, 2, 1], [9, 8, 2], [40, 30, 20, 10]]
    for _ in range(120 if tier == "quick" else 3000):
        ps = list(rng.choice(sets))
        rng.shuffle(ps)
        kind = rng.randrange(2)
        n = len(ps)
        H = rng.choice([0, 1, n, n + 1, 2 * n, rng.randrange(1, 40), rng.randrange(1, 200)])
        if rng.random() < 0.25:
            enc = [4, kind, H, n] + ps                    # the plain divider
            frm = to = None
        else:
            frm, to = rng.randrange(n), rng.randrange(n)
            enc = [4, kind, H, n] + ps + [frm, to]
        out.append(Scenario(enc, "ctor-moved" if frm is not None else "ctor-plain",
                            {"divider": ["Fair", "Rate"][kind], "H": H, "priorities": ps, "from": frm, "to": to}, nontrivial=H > 0))
    return out


def ctor_monitor(sc, ir):
    if ir.verdict != "ok":
        return [("implementation verdict %s" % ir.verdict, None)]
    m = sc.meta
    vals = [int(v) for v in ir.vals]
    ps, H, kind = sorted(m["priorities"], reverse=True), m["H"], 0 if m["divider"] == "Fair" else 1
    key = "ctor:%s:%d:%s:%s:%s" % (m["divider"], H, ps, m["from"], m["to"])
    if H == 0:
        return [] if vals[0] == 2 else [("v2 New returned code %d for HandlersQuantity 0" % vals[0], key)]
    shares = _moved_shares(ps, kind, H, m["from"] or 0, m["to"] or 0)
    zero = sorted(p for p in ps if shares.get(p, 0) == 0)
    fails = []
    if zero and vals[0] == 0:
        fails.append("v2 New accepted a configuration in which the share of priorities %s is zero (shares %s)" % (zero, shares))
    if not zero and vals[0] != 0:
        fails.append("v2 New rejected (code %d) a configuration in which every share is non-zero (shares %s)" % (vals[0], shares))
    if zero and vals[0] not in (0, 4):
        fails.append("v2 New returned code %d instead of ErrHandlersQuantityTooSmall" % vals[0])
    if len(vals) > 1 and vals[1] == 1:
        fails.append("accepted, and the discipline does not terminate after every input was closed")
    return [("%s [%s H=%d priorities %s, increment of position %s moved to position %s]" % (f, m["divider"], H, ps, m["from"], m["to"]), key)
            for f in fails]


SUITES.append(Suite("ctor-v2", ctor_generate, lambda sc, ints: ints[:1], ctor_monitor,
                    rule="v2 New over ten priority sets in shuffled order x {Fair, Rate} x H in {0, 1, n, n+1, 2n, random} with the plain divider or a "
                         "sum-preserving custom divider that moves the whole increment of one listed priority to another one (a zero share at any "
                         "position of the list); non-trivial = H > 0", version="v2"))

ASSUMPTIONS = [
    "model: the scheduling goroutine as a program-counter machine (Prio2.sched_step) over FIFO-list channels; the driver of Prio2Sim.v "
    "(run to a blocked state / settle to a fixpoint) is used only for the correspondence",
    "environment: handlers release only items they received (otherwise the unsigned in-flight counter wraps: API misuse)",
    "dividers return maps (unique keys) and do not mutate the priorities they are given",
]
