"""C18 -- handler-quantity helpers (v2/priority/utils/utils.go, priority/utils.go) and acceptance by v2 New.
Family 3: [3, fn, divider, n, ps.., q|max, limit_num, limit_den]; see coq/theories/Run.v for fn."""
import itertools
import math

from ..core import Scenario, Suite

SWEEP = [0, 1, 2, 5, 10, 20, 33, 50, 75, 100, 101, 150, 400, 100000]


# ---- independent reference (first principles) used by the monitors
def ref_fair(ps, d):
    n = len(ps)
    base, rem = divmod(d, n)
    return {p: base + (1 if i < rem else 0) for i, p in enumerate(ps)}


def go_round(x):
    r = math.floor(x)
    return r + 1 if x - r >= 0.5 else r


def ref_rate(ps, d):
    s = sum(ps)
    base = float(d) / float(s)
    rem = d
    out = {}
    for p in ps:
        part = int(go_round(base * float(p)))
        if rem < part:
            out[p] = out.get(p, 0) + rem
            return out
        out[p] = out.get(p, 0) + part
        rem -= part
    out[ps[0]] += rem
    return out


def ref_nonfatal(ps, kind, q):
    ps = sorted(ps, reverse=True)
    div = ref_fair if kind == 0 else ref_rate
    for r in range(1, len(ps) + 1):
        for c in itertools.combinations(ps, r):
            dist = div(list(c), q)
            if any(dist.get(p, 0) == 0 for p in c):
                return False
    return True


def enc(fn, kind, ps, q, ln=1, ld=1):
    return [3, fn, kind, len(ps)] + list(ps) + [q, ln, ld]


def make_generate(version):
    def generate(rng, tier):
        out = []

        def add(fn, kind, ps, q, ln=1, ld=1, label=""):
            distinct = len(set(ps)) == len(ps) and len(ps) > 0
            out.append(Scenario(enc(fn, kind, ps, q, ln, ld), label,
                                {"fn": fn, "divider": ["Fair", "Rate"][kind], "priorities": list(ps), "q": q,
                                 "limit": [ln, ld], "distinct": distinct}, nontrivial=distinct and q > 0, version=version))

        # corpus
        add(0, 1, [7, 5, 3, 1], 8, label="corpus")
        add(4, 1, [10, 20, 70], 60, 10, 1, label="corpus")
        add(9, 1, [10, 20, 70], 40, 10, 1, label="corpus")
        add(9, 1, [10, 20, 70], 12, 100, 1, label="corpus")
        if version == "v2":
            add(7, 1, [32, 26, 11, 1], 10, label="corpus")
        add(8, 1, [10, 4, 3, 2, 1], 30, label="corpus")
        quick = tier == "quick"
        # Rate has fatal quantities at and above the sum of the priorities: a dominant first priority and a tail of small ones,
        # every quantity up to a little beyond the sum (where "each priority gets at least its own value" looks plausible and is false)
        for _ in range(20 if quick else 400):
            k = rng.randrange(4, 7)
            tail = sorted(rng.sample(range(1, 8), k - 1), reverse=True)
            ps = [rng.randrange(tail[0] + 1, 3 * tail[0] + 4)] + tail
            add(8, 1, ps, min(sum(ps) + rng.randrange(0, 12), 60 if quick else 150), label="rate-around-sum")
        # all priority sets within {1..6} (as given: sorted, reversed or shuffled), both dividers
        uni = [1, 2, 3, 4, 5, 6]
        sets = [list(c) for r in range(1, 7) for c in itertools.combinations(uni, r)]
        if quick:
            sets = [s for s in sets if len(s) <= 4] + [uni]
        extra = [[70, 20, 10], [1000, 70, 3, 1], [32, 26, 11, 1], [9, 7, 5, 3, 1], [100, 1], [13, 8, 5, 3, 2, 1]]
        for ps in sets + extra:
            for kind in (0, 1):
                order = rng.choice(["desc", "asc", "shuffled"])
                ps2 = sorted(ps, reverse=True) if order == "desc" else sorted(ps) if order == "asc" else rng.sample(ps, len(ps))
                mx = rng.choice([12, 30]) if quick else rng.choice([60, 150, 300])
                add(8, kind, ps2, mx, label="pick-nonfatal-" + order)
                if version == "v2":
                    for q in rng.sample(range(0, mx + 1), 3 if quick else 12):
                        add(7, kind, ps2, q, label="nonfatal-vs-new")
                lim = rng.choice([0, 1, 5, 10, 25, 50, 100])
                add(9, kind, ps2, mx if quick else min(mx, 120), lim, 1, label="pick-suitable-" + order)
                add(10, kind, ps2, rng.randrange(0, mx + 1), label="limit-sweep")
        # the six plain API functions, random arguments incl. fractional limits, max = 0, duplicates
        for _ in range(150 if quick else 3000):
            k = rng.randrange(1, 6)
            ps = rng.sample(range(1, rng.choice([7, 30, 200])), k)
            if rng.random() < 0.05:
                ps = ps + [ps[0]]
            kind = rng.randrange(2)
            fn = rng.randrange(6)
            q = rng.choice([0, 1, rng.randrange(0, 40), rng.randrange(0, 301)])
            ln, ld = rng.choice([(0, 1), (1, 3), (5, 2), (10, 1), (37, 1), (100, 1), (250, 1), (rng.randrange(0, 101), 1)])
            add(fn, kind, ps, q if fn in (0, 3) else min(q, 60 if quick else 300), ln, ld, label="api-random")
        return out
    return generate


def project(sc, ints):
    return ints


def monitor(sc, ir):
    if ir.verdict != "ok":
        return [("implementation verdict %s" % ir.verdict, None)]
    m = sc.meta
    if not m["distinct"]:
        return []
    vals = [int(v) for v in ir.vals]
    fn, ps, q = m["fn"], m["priorities"], m["q"]
    kind = 0 if m["divider"] == "Fair" else 1
    key = "utils:%d:%s:%s:%d:%s" % (fn, m["divider"], ",".join(map(str, ps)), q, m["limit"])
    fails = []

    def pick_check(pmin, pmax, flags, what):
        trues = [i + 1 for i, f in enumerate(flags) if f == 1]
        emin = trues[0] if trues else 0
        emax = trues[-1] if trues else 0
        if pmin != emin:
            fails.append("PickUpMin%s returned %d, the smallest q in [1,%d] satisfying the predicate is %d" % (what, pmin, len(flags), emin))
        if pmax != emax:
            fails.append("PickUpMax%s returned %d, the largest q in [1,%d] satisfying the predicate is %d" % (what, pmax, len(flags), emax))

    if fn == 0:
        if vals[0] != (1 if ref_nonfatal(ps, kind, q) else 0):
            fails.append("IsNonFatalConfig = %d disagrees with its definition" % vals[0])
    elif fn == 1 or fn == 2:
        flags = [1 if ref_nonfatal(ps, kind, k) else 0 for k in range(1, q + 1)]
        trues = [i + 1 for i, f in enumerate(flags) if f]
        exp = (trues[0] if fn == 1 else trues[-1]) if trues else 0
        if vals[0] != exp:
            fails.append("PickUp%sNonFatalQuantity returned %d, expected %d" % ("Min" if fn == 1 else "Max", vals[0], exp))
    elif fn == 7:
        nonfatal, code = vals[0], vals[1]
        if nonfatal != (1 if ref_nonfatal(ps, kind, q) else 0):
            fails.append("IsNonFatalConfig = %d disagrees with its definition" % nonfatal)
        if nonfatal == 1 and code != 0:
            fails.append("judged non-fatal but v2 New rejects it (code %d)" % code)
        if code == 0:
            dist = (ref_fair if kind == 0 else ref_rate)(sorted(ps, reverse=True), q)
            if any(dist.get(p, 0) == 0 for p in ps):
                fails.append("v2 New accepted a configuration in which some priority's share is zero")
    elif fn == 8:
        flags = vals[2:]
        for k, f in enumerate(flags, 1):
            if f != (1 if ref_nonfatal(ps, kind, k) else 0):
                fails.append("IsNonFatalConfig(q=%d) = %d disagrees with its definition" % (k, f))
                break
        pick_check(vals[0], vals[1], flags, "NonFatalQuantity")
    elif fn == 9:
        flags = vals[2:]
        pick_check(vals[0], vals[1], flags, "SuitableQuantity")
        for k, f in enumerate(flags, 1):
            if f == 1 and not ref_nonfatal(ps, kind, k):
                fails.append("IsSuitableConfig(q=%d) holds although the configuration is fatal" % k)
                break
    elif fn == 10:
        nonfatal, flags = vals[0], vals[1:]
        if any(flags[i] > flags[i + 1] for i in range(len(flags) - 1)):
            fails.append("IsSuitableConfig is not monotone in the limit: %s over limits %s" % (flags, SWEEP))
        if any(flags) and nonfatal != 1:
            fails.append("IsSuitableConfig holds although IsNonFatalConfig does not")
        if nonfatal != (1 if ref_nonfatal(ps, kind, q) else 0):
            fails.append("IsNonFatalConfig = %d disagrees with its definition" % nonfatal)
    return [("%s [fn %d %s %s q=%d limit=%s -> %s]" % (f, fn, m["divider"], ps, q, m["limit"], vals[:12]), key) for f in fails]


RULE = ("all priority sets within {1..6} (<=4 elements + the full set in the quick tier) and six skewed sets, given in descending, ascending or "
        "shuffled order, x {Fair, Rate}: composite scenarios return PickUpMin/Max together with the predicate for every q in [1,max] "
        "(max up to 30 quick / 300 thorough), a sweep over limits 0..100, and IsNonFatalConfig next to the v2 constructor's verdict; plus "
        "random calls of the six API functions (fractional limits, max 0, duplicate priorities); non-trivial = distinct priorities and q>0")
SUITES = [Suite("pure-utils-v2", make_generate("v2"), project, monitor, rule=RULE, version="v2"),
          Suite("pure-utils-v1", make_generate("v1"), project, monitor, rule=RULE, version="v1")]
ASSUMPTIONS = [
    "model: utils.go transcribed to Gallina; float64 of isDistributionSuitable via Flocq binary64, compared bit-exactly with Go",
    "monitors use an independent Python re-implementation of Fair/Rate and the definition of non-fatality over all non-empty subsets",
    "C18_nonfatal_accepted assumes a divider that conserves the dividend (C14 proves it for Fair and Rate with any rounding)",
]
