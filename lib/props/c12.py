"""C12 -- see DESIGN.md section 5.C12; scenarios, projections and monitors live in lib/timed.py"""
from .. import timed
from ..core import Suite

SUITES = [Suite("timed-limit", timed.limit_generate(), timed.limit_project("C12"), timed.monitor_limit("C12"),
                rule=timed.LIMIT_RULE, version="v2")]
ASSUMPTIONS = [
    "model: the limit goroutine as a program-counter machine (Limit.lstep); channels, producer, consumer and clock are the deterministic "
    "environment of LimitSim.v, used only for the correspondence",
    "time: testing/synctest fake clock: Sleep never returns early, monotone clock; output events are the discipline's writes "
    "(= receive times of a consumer that does not pause)",
]
