"""C01 -- see DESIGN.md section 5.C01; driver scripts, projections and monitors live in lib/prio.py"""
from .. import prio
from ..core import Suite

STYLES = None
SUITES = [Suite("prio2-det", prio.prio_generate(0.1, STYLES), prio.prio_project("C01"), prio.monitor_prio("C01"),
                rule=prio.PRIO_RULE, version="v2", impl_ints=False, batch_timeout=600, shrink=prio.shrink_prio2)]

SUITES.append(Suite("prio1-det", prio.prio1_generate(0.1, 0.0), prio.prio1_project("C01"), prio.monitor_prio1("C01"),
                    rule=prio.PRIO1_RULE, version="v1", impl_ints=False, batch_timeout=300, shrink=prio.shrink_prio1))

SUITES.append(Suite("prio1-few-handlers", prio.prio1_few_handlers_generate(), prio.prio1_project("C01"), prio.monitor_prio1("C01"),
                    rule=prio.PRIO1_RULE + "; this suite: HandlersQuantity 1..3, below what the registered priorities need (zero shares): "
                    "only the capacity bound and the agreement with the model are checked there", version="v1", impl_ints=False,
                    batch_timeout=300, shrink=prio.shrink_prio1))

SUITES.append(Suite("simple2", prio.simple2_generate(), prio.simple2_project, prio.monitor_simple2("C01"),
                    rule=prio.SIMPLE2_RULE, version="v2", impl_ints=False, batch_timeout=300))

SUITES.append(Suite("simple1", prio.simple1_generate(None), prio.simple1_project, prio.monitor_simple1("C01"),
                    rule=prio.SIMPLE1_RULE, version="v1", impl_ints=False, batch_timeout=120, variants=prio.simple1_variants))
ASSUMPTIONS = [
    "model: the scheduling goroutine as a program-counter machine (Prio2.sched_step) over FIFO-list channels; the driver of Prio2Sim.v "
    "(run to a blocked state / settle to a fixpoint) is used only for the correspondence",
    "environment: handlers release only items they received (otherwise the unsigned in-flight counter wraps: API misuse)",
    "dividers return maps (unique keys) and do not mutate the priorities they are given",
]
