"""C05 -- see DESIGN.md section 5.C05; driver scripts, projections and monitors live in lib/prio.py"""
from .. import prio
from ..core import Suite

STYLES = ["saturated", "saturated", "mixed"]
SUITES = [Suite("prio2-det", prio.prio_generate(0.0, STYLES), prio.prio_project("C05"), prio.monitor_prio("C05"),
                rule=prio.PRIO_RULE, version="v2", impl_ints=False, batch_timeout=600, shrink=prio.shrink_prio2)]
SUITES.append(Suite("prio1-saturated", prio.prio1_generate(0.0, 0.0, ["saturated"]), prio.prio1_project("C05"), prio.monitor_prio1("C05"),
                    rule=prio.PRIO1_RULE, version="v1", impl_ints=False, batch_timeout=300, shrink=prio.shrink_prio1))
ASSUMPTIONS = [
    "model: the scheduling goroutine as a program-counter machine (Prio2.sched_step) over FIFO-list channels; the driver of Prio2Sim.v "
    "(run to a blocked state / settle to a fixpoint) is used only for the correspondence",
    "environment: handlers release only items they received (otherwise the unsigned in-flight counter wraps: API misuse)",
    "dividers return maps (unique keys) and do not mutate the priorities they are given",
]
