"""C14 -- dividers (v2/priority/divider/divider.go, priority/divider.go).
Family 2: [2, which, nil?, dividend, n, ps.., 2k, (key val)..] -> [isnil, key, val, ...]
which: 0 v2 Fair, 1 v2 Rate, 2 v1 FairDivider, 3 v1 RateDivider."""
import itertools

from ..core import Scenario, Suite


def enc(which, isnil, dividend, ps, pre):
    kv = []
    for k, v in pre:
        kv += [k, v]
    return [2, which, 1 if isnil else 0, dividend, len(ps)] + list(ps) + [len(kv)] + kv


def make_generate(version):
    fair, rate = (0, 1) if version == "v2" else (2, 3)

    def generate(rng, tier):
        out = []

        def add(which, isnil, dividend, ps, pre, label):
            wellformed = len(ps) > 0 and len(set(ps)) == len(ps) and list(ps) == sorted(ps, reverse=True)
            out.append(Scenario(enc(which, isnil, dividend, ps, pre), label,
                                {"divider": ["Fair", "Rate", "FairDivider", "RateDivider"][which], "nil": isnil,
                                 "dividend": dividend, "priorities": list(ps), "prefilled": pre,
                                 "wellformed": wellformed}, nontrivial=wellformed and dividend > 0, version=version))

        # corpus (minimised past failures / seeded mutants)
        add(rate, False, 12, [9, 7, 5, 3, 1], [], "corpus")
        add(rate, False, 38, [8, 7, 6, 5, 4, 3, 2, 1], [], "corpus")
        add(rate, False, 10, [32, 26, 11, 1], [], "corpus")
        # exhaustive small sub-space: all non-empty subsets of {1..6} and {1,2,3,70,1000}, dividends 0..D
        D = 24 if tier == "quick" else 64
        universes = [[6, 5, 4, 3, 2, 1]] if tier == "quick" else [[8, 7, 6, 5, 4, 3, 2, 1], [1000, 70, 3, 2, 1]]
        if tier == "quick":
            universes.append([1000, 70, 3, 1])
        for uni in universes:
            for r in range(1, len(uni) + 1):
                for ps in itertools.combinations(uni, r):
                    for d in range(0, D + 1):
                        add(fair, False, d, ps, [], "exhaustive-small")
                        add(rate, False, d, ps, [], "exhaustive-small")
        # exact halves: dividend*p/sum = k + 1/2 for some listed p -- where the order of the float64 operations decides the rounding
        want = 300 if tier == "quick" else 6000
        tries = 0
        nh = 0
        while nh < want and tries < 4000 * want:
            tries += 1
            k = rng.randrange(2, 5)
            ps = sorted(rng.sample(range(1, rng.choice([8, 16, 40, 100])), k), reverse=True)
            S = sum(ps)
            p0 = rng.choice(ps)
            # 2*d*p0 = S (mod 2S)  <=>  d*p0 = S/2 (mod S): needs S even or ... solve by search over one period
            sols = [d for d in range(1, 2 * S + 1) if (2 * d * p0) % (2 * S) == S]
            if not sols:
                continue
            d = rng.choice(sols) + 2 * S * rng.randrange(0, 3)
            # input selection only (never an oracle): most of the cases kept are those where the float64 value of (d/S)*p is NOT the
            # exact half, i.e. where a different order of the operations rounds differently
            sensitive = (d / S) * p0 != (2 * d * p0) / (2 * S)
            if not sensitive and rng.random() < 0.97:
                continue
            shift = rng.choice([0, 0, 0, 10, 30])
            add(rate, False, d, [q << shift for q in ps], [], "exact-half-sensitive" if sensitive else "exact-half")
            nh += 1
        # medium: 5..8 priorities of moderate size, where Rate's leftover after rounding can exceed one unit
        for _ in range(400 if tier == "quick" else 8000):
            k = rng.randrange(5, 9)
            ps = sorted(rng.sample(range(1, rng.choice([10, 20, 40])), k), reverse=True)
            add(rng.choice([fair, rate, rate]), False, rng.randrange(0, 4 * sum(ps)), ps, [], "medium")
        # random: large magnitudes, pre-filled distributions, foreign keys, nil maps
        n = 300 if tier == "quick" else 6000
        for _ in range(n):
            k = rng.randrange(1, 9)
            mag = rng.choice([10, 100, 10 ** 4, 2 ** 20])
            ps = sorted(rng.sample(range(1, mag + 1), min(k, mag)), reverse=True)
            s = sum(ps)
            dmax = min(2 ** 32, (2 ** 50) // s)
            d = rng.choice([0, 1, rng.randrange(0, 200), rng.randrange(0, dmax + 1)])
            pre = []
            if rng.random() < 0.6:
                keys = rng.sample(ps, rng.randrange(0, len(ps) + 1)) + [rng.randrange(1, 2 * mag + 2) for _ in range(rng.randrange(0, 3))]
                seen = set()
                for key in keys:
                    if key not in seen:
                        seen.add(key)
                        pre.append((key, rng.randrange(0, 1000)))
            isnil = rng.random() < 0.08
            add(rng.choice([fair, rate]), isnil, d, ps, [] if isnil else pre, "random")
        # Fair is integer arithmetic: the whole uint range is its domain (dividends beyond 2^53, where a float64 detour would round)
        for _ in range(150 if tier == "quick" else 3000):
            k = rng.randrange(1, 9)
            ps = sorted(rng.sample(range(1, rng.choice([10, 100, 2 ** 20]) + 1), k), reverse=True)
            d = rng.choice([2 ** 53 + rng.randrange(0, 64), rng.randrange(2 ** 53, 2 ** 63), rng.randrange(2 ** 62, 2 ** 64 - 2 ** 20),
                            (2 ** rng.randrange(54, 64)) - rng.randrange(0, 9), rng.randrange(2 ** 53, 2 ** 64 - 2 ** 20) // k * k + rng.randrange(0, k)])
            pre = [(q, rng.randrange(0, 1000)) for q in rng.sample(ps, rng.randrange(0, k + 1))] if rng.random() < 0.4 else []
            add(fair, False, d, ps, pre, "fair-huge-dividend")
        # priority 0 is a legal value: lists that contain it, and the list [0] alone (Rate: the priorities sum to zero)
        for d in [0, 1, 2, 7, 100, rng.randrange(1, 10 ** 6)]:
            for which in (fair, rate):
                add(which, False, d, [0], [], "zero-priority")
                add(which, False, d, [0], [(0, 3), (5, 1)], "zero-priority")
                add(which, False, d, [3, 0], [], "zero-priority")
                add(which, False, d, [7, 2, 0], [(2, 1)], "zero-priority")
        # malformed stream (correspondence only): empty list, duplicates, unsorted
        for _ in range(40 if tier == "quick" else 400):
            kind = rng.randrange(3)
            if kind == 0:
                ps = []
            elif kind == 1:
                ps = [rng.randrange(1, 6) for _ in range(rng.randrange(1, 6))]
            else:
                ps = rng.sample(range(1, 50), rng.randrange(2, 6))
            add(rng.choice([fair, rate]), rng.random() < 0.2, rng.randrange(0, 60), ps, [], "malformed")
        return out
    return generate


def canon(ints):
    if not ints:
        return None
    pairs = sorted((ints[i], ints[i + 1]) for i in range(1, len(ints) - 1, 2))
    return [ints[0], pairs]


def project(sc, ints):
    return canon(ints)


def monitor(sc, ir):
    if ir.verdict != "ok":
        return [("implementation verdict %s" % ir.verdict, None)]
    m = sc.meta
    if not m["wellformed"]:
        return []
    vals = [int(v) for v in ir.vals]
    ps, d, pre = m["priorities"], m["dividend"], dict((k, v) for k, v in m["prefilled"])
    name = m["divider"]
    key = "divider:%s:%s:%d" % (name, ",".join(map(str, ps)), d)
    fails = []
    if vals[0] == 1:
        if name in ("Fair", "Rate") and m["nil"]:
            return []
        return [("nil distribution returned", key)]
    res = dict((vals[i], vals[i + 1]) for i in range(1, len(vals) - 1, 2))
    incs = [res.get(p, 0) - pre.get(p, 0) for p in ps]
    if sum(res.values()) != sum(pre.values()) + d:
        fails.append("total added %d != dividend %d" % (sum(res.values()) - sum(pre.values()), d))
    for k in set(res) | set(pre):
        if k not in ps and res.get(k, 0) != pre.get(k, 0):
            fails.append("entry %d outside the listed priorities changed" % k)
    if any(i < 0 for i in incs):
        fails.append("an entry decreased")
    if name in ("Fair", "FairDivider"):
        if max(incs) - min(incs) > 1 or any(incs[i] < incs[i + 1] for i in range(len(incs) - 1)):
            fails.append("Fair increments %s are not 'equal up to one, extras first'" % incs)
    else:
        if any(incs[i] < incs[i + 1] for i in range(len(incs) - 1)):
            fails.append("Rate increments %s are not non-increasing" % incs)
        s, n = sum(ps), len(ps)
        for p, inc in zip(ps, incs):
            if 2 * abs(inc * s - d * p) > n * s:
                fails.append("Rate increment %d of priority %d is further than n/2 from %d*%d/%d" % (inc, p, d, p, s))
                break
    return [("%s [%s(%s, %d, %s) -> %s]" % (f, name, ps, d, m["prefilled"], sorted(res.items())), key) for f in fails]


RULE = ("exhaustive over all non-empty subsets of small priority universes x dividends 0..D x {Fair, Rate}; random large "
        "magnitudes (priorities up to 2^20, dividends up to 2^32 with dividend*sum <= 2^50), pre-filled distributions with foreign "
        "keys, nil maps; malformed lists (empty, duplicates, unsorted) for correspondence only; non-trivial = well-formed list and dividend > 0")
def cross_v1(scenarios, run_on):
    """the same call on the v1 implementation (FairDivider / RateDivider): 'v1 and v2 produce identical distributions'"""
    lines = []
    for sc in scenarios:
        e = list(sc.enc)
        e[1] += 2
        lines.append(e)
    for sc, r in zip(scenarios, run_on("v1", lines)):
        sc.meta["v1"] = (r.verdict, [int(v) for v in r.vals] if r.verdict == "ok" else None)


def monitor_same(sc, ir):
    m = sc.meta
    if not m["wellformed"] or m["nil"]:
        return []
    v1v, v1 = m.get("v1", (None, None))
    if ir.verdict != "ok" or v1v != "ok":
        return [("implementation verdicts v2 %s / v1 %s" % (ir.verdict, v1v), None)]
    a, b = canon([int(v) for v in ir.vals]), canon(v1)
    if a != b:
        return [("%s(%s, %d, %s): v2 returns %s, v1 returns %s" % (m["divider"], m["priorities"], m["dividend"], m["prefilled"], a, b),
                 "divider-v1v2:%s:%s:%d" % (m["divider"], ",".join(map(str, m["priorities"])), m["dividend"]))]
    return []


SUITES = [Suite("pure-div-v2", make_generate("v2"), project, monitor, rule=RULE, version="v2"),
          Suite("pure-div-v1", make_generate("v1"), project, monitor, rule=RULE, version="v1")]
ASSUMPTIONS = [
    "model: Go map = association list with unique keys (absent key = 0); uint wrap-around not modelled (sums far below 2^64)",
    "Rate's float64 arithmetic is modelled with Flocq binary64 (part_f) and compared bit-exactly with Go on every scenario; "
    "order/closeness theorems are proved for the exact rational rounding part_q and for any rounding function meeting the two stated hypotheses",
    "priority 0 with Rate (sum possibly 0 => NaN) is outside the domain",
]
_same = Suite("pure-div-v1-vs-v2", make_generate("v2"), None, monitor_same, rule=RULE + "; the same call is made on the v1 and the v2 implementation "
              "and the two distributions are compared", version="v2", model=False)
_same.cross = cross_v1
SUITES.append(_same)
