"""C13 -- Rate conversion (v2/limit/rate.go).  Family 1: [1, which, Interval, Quantity, minimum]."""
from ..core import Scenario, Suite

MAX_I64 = 2 ** 63 - 1
MAX_U64 = 2 ** 64 - 1
OPT = 10_000_000


def _clamp(v, lo, hi):
    return max(lo, min(hi, v))


def generate(rng, tier):
    n_random = 400 if tier == "quick" else 20000
    out = []

    def add(which, i, q, m, label):
        i = _clamp(i, -MAX_I64 - 1, MAX_I64)
        q = _clamp(q, 0, MAX_U64)
        m = _clamp(m, -MAX_I64 - 1, MAX_I64)
        valid = i > 0 and q > 0 and m >= 0
        out.append(Scenario([1, which, i, q, m], label, {"which": ["Recalculate", "Optimize", "Flatten"][which],
                            "Interval": i, "Quantity": q, "minimum": m}, nontrivial=valid))

    # corpus: minimised past failures first
    add(0, 20_000_001, 2, 10_000_000, "corpus")
    add(1, 20_000_001, 2, 0, "corpus")
    # boundary structured: m around floor(I/Q), with zero / non-zero remainder
    for _ in range(60 if tier == "quick" else 3000):
        q = rng.choice([1, 2, 3, 7, 10, 1000, rng.randrange(1, 10 ** 6), rng.randrange(1, 2 ** 40)])
        base = rng.choice([1, 2, 5, OPT, OPT + 1, rng.randrange(1, 10 ** 9), rng.randrange(1, 2 ** 40)])
        for rem in (0, 1, q - 1, rng.randrange(0, q)):
            i = base * q + rem
            if i > MAX_I64:
                continue
            for dm in (-1, 0, 1):
                add(0, i, q, base + dm, "boundary-floor")
            add(1, i, q, 0, "boundary-opt")
            add(2, i, q, 0, "boundary-flat")
    # optimize boundary: floor(I/Q) == 10ms exactly / +-1
    for q in (1, 2, 3, 9, 1000, 12345):
        for d in (-1, 0, 1):
            for rem in (0, 1, q - 1):
                add(1, (OPT + d) * q + rem, q, 0, "boundary-opt10ms")
    # representability boundary: Q*m/I around 2^64
    for _ in range(40 if tier == "quick" else 2000):
        i = rng.choice([1, 2, 3, rng.randrange(1, 1000)])
        m = rng.choice([2, 3, 1000, rng.randrange(2, 10 ** 6)])
        q0 = (2 ** 64) * i // m
        for dq in (-2, -1, 0, 1, 2):
            add(0, i, q0 + dq, m, "boundary-u64")
    # extremes
    for i in (1, MAX_I64, MAX_I64 - 1):
        for q in (1, MAX_U64, MAX_U64 - 1, 2 ** 63):
            for m in (0, 1, MAX_I64, OPT):
                add(0, i, q, m, "extreme")
            add(1, i, q, 0, "extreme")
            add(2, i, q, 0, "extreme")
    # invalid inputs (the malformed stream)
    for (i, q, m) in [(0, 1, 0), (-1, 1, 0), (1, 0, 0), (5, 5, -1), (-MAX_I64 - 1, 0, -1), (0, 0, 0), (-5, 0, 3)]:
        add(0, i, q, m, "invalid")
        add(1, i, q, 0, "invalid")
        add(2, i, q, 0, "invalid")
    # uniform random 64-bit and random small
    for _ in range(n_random):
        which = rng.randrange(3)
        if rng.random() < 0.5:
            i, q, m = rng.randrange(1, 2 ** 63), rng.randrange(1, 2 ** 64), rng.randrange(0, 2 ** 63)
            if rng.random() < 0.5:
                m = rng.randrange(0, 2 ** rng.randrange(1, 63))
                q = rng.randrange(1, 2 ** rng.randrange(1, 64))
                i = rng.randrange(1, 2 ** rng.randrange(1, 63))
        else:
            i, q, m = rng.randrange(1, 200), rng.randrange(1, 50), rng.randrange(0, 60)
        add(which, i, q, m if which == 0 else 0, "random")
    return out


def project(sc, ints):
    return ints  # a pure function: the whole result


def effective_minimum(enc):
    return {0: enc[4], 1: OPT, 2: 0}[enc[1]]


def monitor(sc, ir):
    """The four clauses of the property, computed with Python integers on the implementation's result."""
    if ir.verdict != "ok":
        return [("implementation verdict %s" % ir.verdict, None)]
    code, ri, rq = (int(v) for v in ir.vals)
    _, which, i, q, _m = sc.enc
    m = effective_minimum(sc.enc)
    fails = []
    valid_in = i > 0 and q > 0
    if code != 0:
        if (ri, rq) != (0, 0):
            fails.append("error returned together with a non-zero Rate {%d,%d}" % (ri, rq))
        allowed = (not valid_in) or m < 0 or (m == 0 and i // q == 0) or (valid_in and m > 0 and q * m // i > MAX_U64)
        if not allowed:
            fails.append("error code %d for a valid rate and minimum %d with none of the permitted reasons" % (code, m))
    else:
        if not valid_in or m < 0:
            fails.append("no error for invalid input")
        else:
            if not (ri > 0 and rq > 0):
                fails.append("returned Rate {%d,%d} is not valid" % (ri, rq))
            if ri < m:
                fails.append("returned Interval %d below minimum %d" % (ri, m))
            if not (rq == 1 or ri == m):
                fails.append("Quantity %d != 1 although Interval %d != minimum %d" % (rq, ri, m))
            if ri > 0 and rq > 0:
                # "faster by less than one nanosecond of its interval": with one more nanosecond of Interval the returned rate is
                # strictly slower than the original, Q'/(I'+1) < Q/I (for Q' = 1 this is I/Q - 1 < I')
                if not (rq * i < q * (ri + 1)):
                    fails.append("faster than the original by a whole nanosecond of its Interval or more")
                if not (q * ri < (rq + 1) * i):
                    fails.append("slower than the original by a whole element per interval or more")
    key = "rate:%s:%d:%d:%d" % (["Recalculate", "Optimize", "Flatten"][which], i, q, m)
    return [(f + " [Rate{%d,%d}.%s(min=%d) -> code %d {%d,%d}]" % (i, q, ["Recalculate", "Optimize", "Flatten"][which], m, code, ri, rq), key) for f in fails]


SUITES = [Suite("pure-rate", generate, project, monitor,
                rule="boundary-structured (m = floor(I/Q)+-1 with zero/non-zero remainder, Q*m/I around 2^64, range extremes), "
                     "invalid inputs, uniform random 64-bit and small values; non-trivial = valid rate and minimum >= 0; distinct by argument tuple",
                version="v2")]
ASSUMPTIONS = [
    "model: Z arithmetic for int64/uint64/big.Int with the ranges as hypotheses (in_range); Go's uint64(Interval)/Quantity is Z division on valid inputs",
    "correspondence: whole result of Recalculate/Optimize/Flatten compared on every generated triple",
]
