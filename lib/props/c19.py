"""C19 -- all goroutines of a discipline end when it terminates (DESIGN.md section 5.C19).
Theorems: terminal program counters enable no step; the goroutines started are exactly the models' (from the regenerated
facts).  Dynamic tie: after every scenario (and after every Stop/GracefulStop return in the v1 simplified discipline) the
harness waits for quiescence and counts the goroutines that were created by library code and still exist; the synctest
bubble additionally refuses to end while a goroutine is blocked."""
from .. import prio, timed
from ..core import Suite


def leak_monitor(label):
    def monitor(sc, ir):
        if ir.verdict == "bubble-deadlock":
            return [("goroutines remained blocked when the scenario ended (%s): %s" % (label, ir.raw[-300:].replace("\n", " ")), None)]
        if ir.verdict != "ok":
            return [("implementation verdict %s (%s) %s" % (ir.verdict, label, ir.raw[-200:].replace("\n", " ")), None)]
        if ir.goroutines:
            return [("%d goroutine(s) started by the discipline remained after it had terminated (%s) %s" % (ir.goroutines, label, sc.label),
                     "leak:%s:%s" % (label, sc.label))]
        return []
    return monitor


def few(gen, nq, nt):
    def generate(rng, tier):
        out = gen(rng, tier)
        return out[: (nq if tier == "quick" else nt)]
    return generate


SUITES = [
    Suite("join-v2", few(timed.join_generate([0, 1]), 120, 3000), None, leak_monitor("join/unite v2"), rule=timed.JOIN_RULE, version="v2", impl_ints=False, model=False),
    Suite("join-v1", few(timed.join_generate([2]), 60, 1500), None, leak_monitor("join v1"), rule=timed.JOIN_RULE, version="v1", impl_ints=False, model=False),
    Suite("join-v1-stop", few(timed.join_stop_generate(), 80, 2000), None, leak_monitor("join v1 Stop"), rule=timed.JOIN_RULE, version="v1", impl_ints=False, model=False, batch_timeout=120),
    Suite("limit", few(timed.limit_generate(), 80, 2000), None, leak_monitor("limit"), rule=timed.LIMIT_RULE, version="v2", model=False),
    Suite("prio2", few(prio.prio_generate(0.3), 80, 2000), None, leak_monitor("priority v2 (normal and divider-fault termination)"), rule=prio.PRIO_RULE, version="v2", impl_ints=False, model=False, batch_timeout=600),
    Suite("prio1", few(prio.prio1_generate(0.2, 0.4), 80, 2000), None, leak_monitor("priority v1 (graceful, Stop, cancel, fault)"), rule=prio.PRIO1_RULE, version="v1", impl_ints=False, model=False, batch_timeout=300),
    Suite("simple2", few(prio.simple2_generate(), 50, 1000), None, leak_monitor("simple v2"), rule=prio.SIMPLE2_RULE, version="v2", impl_ints=False, model=False),
    Suite("simple1", prio.simple1_generate(), None, prio.monitor_simple1("C19"), rule=prio.SIMPLE1_RULE, version="v1", impl_ints=False, model=False, batch_timeout=120),
]
ASSUMPTIONS = [
    "partial: the theorems are about the process structure of the models; that the code starts no other goroutine is the generated table "
    "(C19_goroutines) and that none is left over is observed (goroutine count after quiescence, bubble leak detection), not proved",
    "a goroutine counts as the library's if its stack says 'created by github.com/akramarenkov/cqos...'",
]
