"""C09 -- see DESIGN.md section 5.C09; scenarios, projections and monitors live in lib/timed.py"""
from .. import timed
from ..core import Suite

VARIANTS = [0,1,2]


def _suites():
    out = []
    v2 = [v for v in VARIANTS if v != 2]
    if v2:
        out.append(Suite("timed-join-v2", timed.join_generate(v2, STYLES), timed.make_project("C09"), timed.monitor_join("C09"),
                         rule=timed.JOIN_RULE, version="v2", impl_ints=False))
    if 2 in VARIANTS:
        out.append(Suite("timed-join-v1", timed.join_generate([2], STYLES), timed.make_project("C09"), timed.monitor_join("C09"),
                         rule=timed.JOIN_RULE, version="v1", impl_ints=False))
    return out


STYLES = ["untimed", "timed", "slowcons", "blockedwrite", "blockedwrite", "trickle", "timed", "backlog"]
SUITES = _suites()
ASSUMPTIONS = [
    "model: the discipline's goroutine as a program-counter machine (Join.jstep); channels, producer, consumer, ticker grid and fake clock "
    "are the deterministic environment of JoinSim.v, used only for the correspondence",
    "time: testing/synctest fake clock (Go 1.26): Sleep never returns early, ticks on the grid t0+k*interval, dropped when nobody takes them",
]
