"""C08 -- see DESIGN.md section 5.C08; scenarios, projections and monitors live in lib/timed.py"""
from .. import timed
from ..core import Suite

VARIANTS = [0,1,2]


def _suites():
    out = []
    v2 = [v for v in VARIANTS if v != 2]
    if v2:
        out.append(Suite("timed-join-v2", timed.join_generate(v2, STYLES), timed.make_project("C08"), timed.monitor_join("C08"),
                         rule=timed.JOIN_RULE, version="v2", impl_ints=False))
    if 2 in VARIANTS:
        out.append(Suite("timed-join-v1", timed.join_generate([2], STYLES), timed.make_project("C08"), timed.monitor_join("C08"),
                         rule=timed.JOIN_RULE, version="v1", impl_ints=False))
    return out


STYLES = None
SUITES = _suites()
# v1: Stop()/cancel between delivery and release -- the delivered slice must never be touched again
SUITES.append(Suite("join1-stop", timed.join_stop_generate(), timed.project_join_stop, timed.monitor_join_stop,
                    rule=timed.JOIN_RULE + "; v1 join with Stop() at a random instant (model run under every resolution of the selects after the stop)",
                    version="v1", impl_ints=False, batch_timeout=120, variants=timed.join_stop_variants))
ASSUMPTIONS = [
    "model: the discipline's goroutine as a program-counter machine (Join.jstep); channels, producer, consumer, ticker grid and fake clock "
    "are the deterministic environment of JoinSim.v, used only for the correspondence",
    "time: testing/synctest fake clock (Go 1.26): Sleep never returns early, ticks on the grid t0+k*interval, dropped when nobody takes them",
]
