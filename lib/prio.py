"""v2 / v1 priority driver scripts (families 7, 8): generation, decoding, projections and monitors shared by
C01 C02 C05 C06 C07 C15 (C16 C17 for v1)."""
import itertools

from .core import SKIP, Scenario

FUEL = 200000
CLOSED_MARK = 4294967296
HUGE = 2 ** 64 - 1
PRIOSETS = [[HUGE, 2, 1], [2 ** 63, 5], [1], [2, 1], [3, 2, 1], [5, 1], [7, 5, 3, 1], [70, 20, 10], [4, 3], [1000, 2, 1], [6, 5, 4, 3, 2, 1],
            [2, 1, 0], list(range(12, 0, -1)), list(range(70, 0, -1))]      # priority 0 is a legal value (Rate gives it nothing: rejected by v2 New); twelve inputs; seventy inputs (more than a machine word has bits)


def ref_shares(ps, kind, H):
    from .props.c18 import ref_fair, ref_rate
    ps = sorted(ps, reverse=True)
    return (ref_fair if kind == 0 else ref_rate)(ps, H)


def min_handlers(ps, kind):
    for h in range(1, 4000):
        d = ref_shares(ps, kind, h)
        if all(d.get(p, 0) > 0 for p in ps):
            return h
    return None


def enc_prio2(kind, H, cfg, ops):
    pb, os_ = [], []
    for p, b in cfg:
        pb += [p, 1 if b else 0]
    for code, arg, stl in ops:
        os_ += [code, arg, 1 if stl else 0]
    return [7, kind, H, FUEL, len(pb)] + pb + [len(os_)] + os_


def gen_prio2_scenario(rng, tier, style=None, fault=False):
    ps = list(rng.choice(PRIOSETS))
    kind = rng.randrange(2)
    if ps == [1000, 2, 1] and kind == 1:
        ps = [100, 2, 1]
    if max(ps) >= 2 ** 63:
        kind = 0     # Rate's float64 arithmetic and the uint sum of priorities are outside their domain for such values
    if len(ps) > 20:
        kind = 0     # seventy inputs: Rate would need more than a thousand handlers
    hmin = min_handlers(ps, kind) or 1
    H = rng.choice([hmin, hmin, hmin + 1, hmin + rng.randrange(0, 6), 2 * hmin, rng.randrange(hmin, hmin + 30)])
    if rng.random() < 0.05 and len(ps) <= 20:
        H = rng.randrange(100, 400)       # many handlers: capacity and feedback limit H/10 above the number of inputs
    if rng.random() < 0.04:
        H = max(hmin - 1, 0)      # rejected by the constructor
    style = style or rng.choice(["mixed", "mixed", "saturated", "sparse", "single", "unbuffered", "closing"])
    if len(ps) > 20 and style in ("saturated", "unbuffered"):
        style = rng.choice(["sparse", "closing", "closing"])     # seventy inputs: keep the script short
    allbuf = style != "unbuffered" and rng.random() < 0.8
    cfg = [(p, True if allbuf else rng.random() < 0.5) for p in ps]
    if style == "unbuffered":
        cfg = [(p, rng.random() < 0.3) for p in ps]
    every_settle = not all(b for _, b in cfg)
    ops = []
    nops = rng.choice([10, 25, 40]) if tier == "quick" else rng.choice([25, 60, 120])
    active = ps if style != "single" else [rng.choice(ps)]
    open_ = set(ps)
    nput = 0

    def stl():
        return True if every_settle else rng.random() < 0.6

    if style == "alone":
        p = rng.choice(ps)
        for _ in range(H + 2):
            ops.append((6, p, False))     # there from the very beginning: the clean state of the 'alone' clause
            nput += 1
        for _ in range(H + 3):
            ops.append((3, 0, True))
        nops = 0
    if len(ps) > 64 and not fault and rng.random() < 0.5:
        # more inputs than a machine word has bits: the highest ones are closed (and seen closed) first, the lowest stay open and
        # get their items afterwards
        low = sorted(ps)[:rng.choice([1, 3, 6])]
        for p in sorted(ps, reverse=True):
            if p not in low:
                ops.append((2, p, False))
                open_.discard(p)
        ops.append((3, 0, True))
        for p in low:
            for _ in range(rng.choice([1, 2])):
                ops.append((1, p, True))
                nput += 1
        for _ in range(nput + 1):
            ops.append((3, 0, True))
            ops.append((4, 0, True))
        nops = rng.choice([0, 5])
    if style == "saturated":
        for p in ps:
            for _ in range(H + 2):
                ops.append((6, p, False))     # written before New(): the inputs have data from the very beginning
                nput += 1
        ops.append((3, 0, True))
    for _ in range(nops):
        r = rng.random()
        if style == "saturated" and r < 0.25:
            p = rng.choice(ps)
            ops.append((1, p, stl()))
            nput += 1
        elif r < 0.35 and open_:
            cand = [p for p in active if p in open_]
            if cand:
                p = rng.choice(cand)
                burst = rng.choice([1, 1, 2, H])
                for _ in range(burst):
                    ops.append((1, p, stl()))
                    nput += 1
        elif r < 0.65:
            for _ in range(rng.choice([1, 1, 2, 3])):
                ops.append((3, 0, stl()))
        elif r < 0.92:
            for _ in range(rng.choice([1, 1, 2, 4])):
                ops.append((4, rng.randrange(0, 8), stl()))
        elif style in ("closing", "mixed", "sparse") and open_ and rng.random() < 0.5:
            p = rng.choice(sorted(open_))
            open_.discard(p)
            ops.append((2, p, stl()))
    if fault:
        k = rng.randrange(0, len(ops) + 1)
        k = max(k, sum(1 for o in ops if o[0] == 6))
        ops.insert(k, (rng.choice([5, 5, 7]), rng.choice([1, 2, -1, -2, H, 1]), True))
    # finale: close everything, then take / release until everything must have been delivered
    for p in sorted(open_):
        ops.append((2, p, True))
    for _ in range(nput + 3):
        ops.append((3, 0, True))
        ops.append((4, 0, True))
    ops.append((3, 0, True))
    ops.append((3, 0, True))
    enc = enc_prio2(kind, H, cfg, ops)
    meta = {"divider": ["Fair", "Rate"][kind], "H": H, "cfg": cfg, "ops": ops, "style": style, "fault": fault, "hmin": hmin,
            "nput": nput}
    return Scenario(enc, style + ("+fault" if fault else ""), meta, nontrivial=nput >= 2 and H >= hmin, version="v2")


class PrioTrace:
    def __init__(self, vals, nops):
        vals = list(vals)
        self.extra = None
        self.noterm = False
        if "no-termination" in vals:
            self.noterm = True
            vals.remove("no-termination")
        if "extra" in vals:
            k = vals.index("extra")
            self.extra = [int(x) for x in vals[k + 1:k + 4]]
            vals = vals[:k]
        v = [int(x) for x in vals]
        self.error = None
        self.ops = []
        if v[0] != 0:
            self.error = -v[0]
            self.closed, self.err = None, None
            return
        pos = 1
        for _ in range(nops):
            tp, tx, olen, k = v[pos], v[pos + 1], v[pos + 2], v[pos + 3]
            pos += 4
            calls = set()
            for _ in range(k):
                dividend, n = v[pos], v[pos + 1]
                calls.add((dividend, tuple(v[pos + 2:pos + 2 + n])))
                pos += 2 + n
            nrow = v[pos]
            snap = tuple(tuple(v[pos + 1 + 3 * j:pos + 4 + 3 * j]) for j in range(nrow))
            pos += 1 + 3 * nrow
            self.ops.append((tp, tx, olen, calls, snap))
        self.closed, self.err = v[pos], v[pos + 1]


# ------------------------------------------------------------------------------------------- derived views
def replay_driver(meta, tr):
    """re-derives, from a trace, what the driver held after every operation: returns a list of per-op dicts
    {held: [priorities in take order], olen, taken: (p, x) or None, closed_seen}"""
    held, out = [], []
    puts = {}          # item value -> priority
    nxt = 1
    closed_in = set()
    pre = [o for o in meta["ops"] if o[0] == 6]
    for (code, arg, stl) in pre:
        puts[nxt] = arg
        nxt += 1
    for (code, arg, stl), (tp, tx, olen, calls, snap) in zip([o for o in meta["ops"] if o[0] != 6], tr.ops):
        taken = None
        closed_seen = False
        if code == 1:
            if arg not in closed_in:
                puts[nxt] = arg
                nxt += 1
        elif code == 2:
            closed_in.add(arg)
        elif code == 3:
            if tp == CLOSED_MARK:
                closed_seen = True
            elif tp != 0 or tx != 0:
                taken = (tp, tx)
                held.append(tp)
        elif code == 4:
            if held:
                held.pop(arg % len(held))
        out.append({"held": list(held), "olen": olen, "taken": taken, "closed_seen": closed_seen, "puts": dict(puts),
                    "closed_in": set(closed_in), "settled": bool(stl), "calls": calls, "snap": snap})
    return out


def prio_project(kind):
    def project(sc, vals):
        tr = PrioTrace(vals, len([o for o in sc.meta["ops"] if o[0] != 6]))
        if tr.error is not None:
            return ["error", tr.error]
        allbuf = all(b for _, b in sc.meta["cfg"])
        if sc.meta.get("fault") and not allbuf:
            return SKIP     # see prio1_project: the faulted call is not determined by the script when interrupter ticks cause calls
        view = replay_driver(sc.meta, tr)
        if kind == "C01":
            return ["inflight", [len(v["held"]) + v["olen"] for v in view]]
        if kind == "C02":
            return ["delivered", [v["taken"] for v in view if v["taken"]]]
        if kind == "C05":
            return ["vector", [(sorted(v["held"]), v["olen"]) for v in view]]
        if kind == "C06":
            return ["progress", [(v["taken"] is not None, v["olen"]) for v in view]]
        if kind == "C07":
            first_closed = next((i for i, v in enumerate(view) if v["closed_seen"]), None)
            return ["closure", first_closed, tr.closed, tr.err]
        if kind == "C15":
            # the per-operation sets of divider calls are compared for all-buffered configurations of up to seven inputs: with a
            # dozen inputs which operation an idle round's repeated calls are attributed to is not determined by the script (found by
            # a multi-seed sweep after the twelve-input configuration had been added; the call contract is monitored everywhere)
            return ["calls", [sorted(v["calls"]) for v in view] if allbuf and len(sc.meta["cfg"]) <= 7 else None, tr.closed, tr.err,
                    [v["taken"] for v in view if v["taken"]]]
        return ["full", tr.ops, tr.closed, tr.err]
    return project


def monitor_prio(kind):
    def monitor(sc, ir):
        if ir.verdict != "ok":
            return [("implementation verdict %s %s" % (ir.verdict, ir.raw[-300:].replace("\n", " ")), None)]
        m = sc.meta
        tr = PrioTrace(ir.vals, len([o for o in m["ops"] if o[0] != 6]))
        H = m["H"]
        ps = sorted([p for p, _ in m["cfg"]], reverse=True)
        kindn = 0 if m["divider"] == "Fair" else 1
        key = "prio2:%s:%d:%s:%s" % (m["divider"], H, ps, m["style"])
        if tr.error is not None:
            exp = None
            if H == 0:
                exp = 2
            elif any(ref_shares(ps, kindn, H).get(p, 0) == 0 for p in ps):
                exp = 4
            if exp == tr.error:
                return []
            return [("constructor returned error code %s for H=%d (shares %s)" % (tr.error, H, ref_shares(ps, kindn, H) if H else None), key)]
        if any(ref_shares(ps, kindn, H).get(p, 0) == 0 for p in ps):
            return [("constructor accepted H=%d although some priority's share is zero (%s)" % (H, ref_shares(ps, kindn, H)), key)]
        view = replay_driver(m, tr)
        shares = ref_shares(ps, kindn, H)
        fails = []
        if tr.noterm:
            fails.append("the discipline did not terminate after all inputs were closed and everything was taken and released")
        delivered = [v["taken"] for v in view if v["taken"]]
        allputs = view[-1]["puts"] if view else {}
        if kind == "C01":
            worst = max([len(v["held"]) + v["olen"] for v in view] + [tr.extra[0] if tr.extra else 0])
            if worst > H:
                fails.append("%d items handed out and not released, HandlersQuantity is %d" % (worst, H))
        elif kind == "C02":
            seen = set()
            last = {}
            for (p, x) in delivered:
                if x in seen:
                    fails.append("item %d delivered twice" % x)
                seen.add(x)
                if allputs.get(x) != p:
                    fails.append("item %d written to priority %s delivered with priority %d" % (x, allputs.get(x), p))
                if last.get(p, 0) > x:
                    fails.append("items of priority %d delivered out of order (%d after %d)" % (p, x, last[p]))
                last[p] = max(last.get(p, 0), x)
            if not m["fault"] and tr.closed == 1 and len(seen) != len(allputs):
                fails.append("%d of %d written items were delivered before normal termination" % (len(seen), len(allputs)))
        elif kind == "C05":
            if m["style"] == "saturated" and not m["fault"]:
                for i, v in enumerate(view):
                    # saturation holds while every input still has undelivered data
                    pend = {p: 0 for p in ps}
                    for x, p in v["puts"].items():
                        pend[p] += 1
                    for (p, x) in [t["taken"] for t in view[:i + 1] if t["taken"]]:
                        pend[p] -= 1
                    if any(pend[p] <= v["olen"] for p in ps) or v["closed_in"]:
                        break      # some input may have run dry: saturation (continuous since creation) is over
                    cnt = {p: v["held"].count(p) for p in ps}
                    for p in ps:
                        if cnt[p] > shares.get(p, 0):
                            fails.append("op %d: %d items of priority %d in processing, its share is %d" % (i, cnt[p], p, shares.get(p, 0)))
                    if v["settled"] and v["olen"] == 0 and any(cnt[p] != shares.get(p, 0) for p in ps):
                        fails.append("op %d: quiet and output empty under saturation but in-flight %s differs from the shares %s" % (i, cnt, shares))
                    if fails:
                        break
        elif kind == "C06":
            if not m["fault"]:
                for i, v in enumerate(view):
                    if not v["settled"]:
                        continue
                    got = [t["taken"] for t in view[:i + 1] if t["taken"]]
                    undelivered = len(v["puts"]) - len(got) - v["olen"]
                    if undelivered > 0 and not v["held"] and v["olen"] == 0:
                        fails.append("op %d: %d written items undelivered, nothing in flight, yet the output is empty after settling" % (i, undelivered))
                        break
                # a priority alone in having data, nothing of another priority in flight, itself within its share:
                # the vacant handlers are its own without any release
                for i, v in enumerate(view):
                    if not v["settled"] or v["olen"] != 0 or len(v["held"]) >= H:
                        continue
                    got = {t["taken"][1] for t in view[:i + 1] if t["taken"]}
                    waiting = {pp for x, pp in v["puts"].items() if x not in got}
                    if len(waiting) == 1:
                        pp = next(iter(waiting))
                        if all(h == pp for h in v["held"]) and len(v["held"]) <= shares.get(pp, 0):
                            fails.append("op %d: priority %d alone has data (%d items waiting), %d of %d handlers hold its items and nothing "
                                         "else is in flight, yet nothing is offered after settling" % (i, pp, len(v["puts"]) - len(got), len(v["held"]), H))
                            break
                if m["style"] == "alone":
                    worst = max([len(v["held"]) + v["olen"] for v in view] + [0])
                    if worst != H:
                        fails.append("a priority alone in having data (%d items, nothing else in flight) obtained %d handlers, HandlersQuantity is %d"
                                     % (m["nput"], worst, H))
                if tr.closed == 1 and len(delivered) != len(allputs):
                    fails.append("terminated with %d of %d written items delivered" % (len(delivered), len(allputs)))
        elif kind == "C07":
            for i, v in enumerate(view):
                if v["closed_seen"]:
                    got = [t["taken"] for t in view[:i + 1] if t["taken"]]
                    if not m["fault"]:
                        if len(v["closed_in"]) != len(ps):
                            fails.append("op %d: output closed while an input is still open" % i)
                        if v["held"]:
                            fails.append("op %d: output closed while %d delivered items are unreleased" % (i, len(v["held"])))
                        if len(got) != len(v["puts"]):
                            fails.append("op %d: output closed with %d of %d items delivered" % (i, len(got), len(v["puts"])))
                    break
            if not m["fault"]:
                if tr.closed != 1:
                    fails.append("not terminated although every input was closed and emptied and every item released")
                elif tr.err != 0:
                    fails.append("Err() yielded a non-nil error (code %d) in normal mode" % tr.err)
        elif kind == "C15":
            if tr.extra and tr.extra[1] != 0:
                fails.append("divider called with arguments violating its contract (%d calls: unsorted/duplicate priorities or nil map)" % tr.extra[1])
            for v in view:
                for (d, cps) in v["calls"]:
                    if d > H:
                        fails.append("divider called with dividend %d > HandlersQuantity %d" % (d, H))
                    if any(q not in ps for q in cps):
                        fails.append("divider called with an unknown priority %s" % (cps,))
            if m["fault"]:
                delta = next((a for (c, a, s_) in m["ops"] if c in (5, 7)), 0)
                hit = tr.extra[2] if tr.extra and len(tr.extra) > 2 else 0
                if hit == 1 and delta > 0 and tr.err != 1:
                    fails.append("a division over-allocating by %d was made but ErrDividerBad was not reported (closed=%d err=%d)" % (delta, tr.closed, tr.err))
                if tr.err == 1 and tr.closed != 1:
                    fails.append("ErrDividerBad reported but the discipline did not terminate after releases")
                worst = max([len(v["held"]) + v["olen"] for v in view] + [tr.extra[0] if tr.extra else 0])
                if worst > H:
                    fails.append("%d items in processing after a divider fault, HandlersQuantity is %d" % (worst, H))
            elif tr.err not in (0, -1):
                fails.append("error code %d reported although the divider obeys the sum rule" % tr.err)
        return [("%s [%s H=%d inputs=%s style=%s ops=%d]" % (f, m["divider"], H, m["cfg"], m["style"], len(m["ops"])), key) for f in fails[:3]]
    return monitor


def prio_generate(fault_share=0.0, styles=None):
    def generate(rng, tier):
        n = 400 if tier == "quick" else 3000
        return [gen_prio2_scenario(rng, tier, style=rng.choice(styles) if styles else None, fault=rng.random() < fault_share) for _ in range(n)]
    return generate


PRIO_RULE = ("driver scripts executed inside a testing/synctest bubble against the real discipline and against the model: priority sets "
             "[1] [2,1] [3,2,1] [5,1] [7,5,3,1] [70,20,10] [4,3] [1000,2,1] [6..1]; Fair/Rate; H from the constructor minimum upwards (4% below it); "
             "buffered / unbuffered / mixed inputs; operations put, close, take, release (k-th held item), optionally one injected divider fault; "
             "each operation optionally followed by a settle (200 fake ns); styles mixed, saturated, sparse, single, unbuffered, closing; a finale "
             "closes everything and takes/releases until termination; non-trivial = at least two items written and H accepted")


# ------------------------------------------------------------------------------------------------ v1 (family 8)
def enc_prio1(kind, H, ocap, cfg, ops, fixed=1, prefill=()):
    pc, os_ = [], []
    for p, ch in cfg:
        pc += [p, ch]
    for ch in prefill:
        os_ += [6, ch, 0, 0]
    for code, a, b, stl in ops:
        os_ += [code, a, b, 1 if stl else 0]
    return [8, kind, H, FUEL, ocap, fixed, len(pc)] + pc + [len(os_)] + os_


def gen_prio1_scenario(rng, tier, style=None, fault=False, stop=None, few_handlers=False):
    """stop: None | 'stop' | 'cancel' -- injected at a random position (C16)"""
    phase_sensitive = False
    pool = [1, 2, 3, 4, 5, 7, 10, 20, 70]
    kind = rng.randrange(2)
    style = style or rng.choice(["plain", "addremove", "addremove", "unbuffered"])
    n0 = rng.choice([0, 1, 2, 3])
    ps0 = rng.sample(pool, n0)
    next_ch = [0]
    next_uch = [1000]

    def new_chan():
        if style == "unbuffered" and rng.random() < 0.6 or rng.random() < 0.1:
            next_uch[0] += 1
            return next_uch[0] - 1
        next_ch[0] += 1
        return next_ch[0] - 1

    if style == "saturated":
        ps0 = rng.sample([1, 2, 3, 4, 5, 7, 10], rng.choice([1, 2, 3, 3]))
    cfg = [(p, new_chan()) for p in ps0]
    if style == "saturated":
        return gen_prio1_saturated(rng, tier, kind, cfg)
    chan_of = dict(cfg)              # what the generator believes is registered
    had = dict(cfg)
    all_chans = [ch for _, ch in cfg]
    open_chans = set(all_chans)
    union = set(ps0)
    H = 20
    ops = []
    removed = []
    nput = 0
    nops = rng.choice([10, 25, 40]) if tier == "quick" else rng.choice([30, 60, 100])
    for _ in range(nops):
        r = rng.random()
        if r < 0.30 and open_chans:
            ch = rng.choice(sorted(open_chans))
            for _ in range(rng.choice([1, 1, 2, 3])):
                ops.append((1, ch, 0, True))
                nput += 1
        elif r < 0.50:
            for _ in range(rng.choice([1, 2, 3])):
                ops.append((3, 0, 0, True))
        elif r < 0.70:
            for _ in range(rng.choice([1, 2, 3])):
                ops.append((4, rng.randrange(0, 8), 0, True))
        elif r < 0.85 and style != "plain":
            if rng.random() < 0.6 or not chan_of:
                p = rng.choice(pool)
                if removed and rng.random() < 0.4:
                    p = rng.choice(removed)      # the same priority value registered again (its items may still be unreleased)
                # a new channel, or the one this priority had before (never one channel under two priorities)
                ch = had.get(p) if (p in had and p not in chan_of and rng.random() < 0.4) else new_chan()
                had[p] = ch
                if ch not in all_chans:
                    all_chans.append(ch)
                    open_chans.add(ch)
                chan_of[p] = ch
                union.add(p)
                ops.append((8, ch, p, True))
            else:
                p = rng.choice(sorted(chan_of) + [rng.choice(pool)])
                chan_of.pop(p, None)
                removed.append(p)
                ops.append((9, p, 0, True))
        elif r < 0.92 and open_chans:
            ch = rng.choice(sorted(open_chans))
            open_chans.discard(ch)
            ops.append((2, ch, 0, True))
    # v1 has no constructor check: with a zero share a priority starves (known finding, see known_findings.json); keep H
    # large enough for every subset of the priorities that may be registered
    from .props.c18 import ref_nonfatal
    good = [h for h in [1, 2, 3, 4, 6, 8, 12, 20, 40, 80, 200] if not union or ref_nonfatal(sorted(union), kind, h)]
    H = rng.choice(good[:4]) if good else 200
    if few_handlers:
        # fewer handlers than the configuration needs (some share is zero): delivery is not guaranteed there (known finding), the
        # capacity bound and the agreement with the model are
        H = rng.choice([1, 2, 2, 3])
    ocap = rng.choice([1, 2, 4, max(H // 2, 1)])
    if fault:
        ops.insert(rng.randrange(0, len(ops) + 1), (rng.choice([5, 5, 7]), rng.choice([1, 2, -1, H]), 0, True))
    if stop and rng.random() < 0.35:
        # Stop()/cancel while a graceful stop is pending: inputs closed (and mostly drained), delivered items unreleased
        for ch in sorted(open_chans):
            ops.append((2, ch, 0, True))
        open_chans.clear()
        ops.append((10, 0, 0, True))
        for _ in range(rng.choice([0, 1, 2, nput + 1])):
            ops.append((3, 0, 0, True))
            if rng.random() < 0.5:
                ops.append((4, rng.randrange(0, 8), 0, True))
        ops.append((11 if stop == "stop" else 12, 0, 0, True))
        ops.append((3, 0, 0, True))
        ops.append((3, 0, 0, True))
    elif stop:
        ops.insert(rng.randrange(0, len(ops) + 1), (11 if stop == "stop" else 12, 0, 0, True))
        ops.append((1, all_chans[0], 0, True) if all_chans and all_chans[0] in open_chans else (3, 0, 0, True))
        ops.append((3, 0, 0, True))
    else:
        # finale: close every channel, graceful stop, take/release until everything is through
        early = style != "plain" and rng.random() < (0.6 if style == "unbuffered" else 0.35)
        if early:
            # graceful stop requested while inputs are still open (and possibly after a drained input was removed):
            # the discipline must go on serving the open inputs until they are closed
            if len(chan_of) >= 2 and rng.random() < 0.6:
                # first close one registered input, let it drain, and remove it
                p = rng.choice(sorted(chan_of))
                ch = chan_of.pop(p)
                if ch in open_chans:
                    open_chans.discard(ch)
                    ops.append((2, ch, 0, True))
                for _ in range(rng.choice([2, 4, 8])):
                    ops.append((3, 0, 0, True))
                    ops.append((4, 0, 0, True))
                ops.append((9, p, 0, True))
            ops.append((10, 0, 0, True))
            for _ in range(rng.choice([1, 2, 4])):
                ops.append((3, 0, 0, True))
                ops.append((4, 0, 0, True))
            if open_chans and rng.random() < 0.9:
                # with the graceful stop pending and nothing in flight: single writes at various phases of the idle cycle, each one
                # taken and released before the next (a writer that turns up between two looks at its input must not be lost)
                for _ in range(rng.choice([5, 8, 12])):
                    stl_ = rng.random() < 0.4
                    phase_sensitive = phase_sensitive or not stl_
                    ops.append((1, rng.choice(sorted(open_chans)), 0, stl_))
                    nput += 1
                    ops.append((3, 0, 0, True))
                    ops.append((4, 0, 0, True))
                    ops.append((3, 0, 0, True))
                    ops.append((4, 0, 0, True))
            for ch in sorted(open_chans):
                if rng.random() < 0.7:
                    for _ in range(rng.choice([1, 2])):
                        ops.append((1, ch, 0, True))
                        nput += 1
                    ops.append((3, 0, 0, True))
        for ch in sorted(open_chans):
            ops.append((2, ch, 0, True))
        if not early:
            ops.append((10, 0, 0, True))
        for _ in range(nput + 3):
            ops.append((3, 0, 0, True))
            ops.append((4, 0, 0, True))
        ops.append((3, 0, 0, True))
    enc = enc_prio1(kind, H, ocap, cfg, ops)
    meta = {"divider": ["Fair", "Rate"][kind], "H": H, "ocap": ocap, "cfg": cfg, "ops": ops, "style": style, "fault": fault,
            "stop": stop, "nput": nput, "phase_sensitive": phase_sensitive}
    return Scenario(enc, style + ("+fault" if fault else "") + ("+" + stop if stop else ""), meta, nontrivial=nput >= 2, version="v1")


def gen_prio1_saturated(rng, tier, kind, cfg):
    """every (buffered, capacity 3) input holds more items than can ever be taken, written before New by writers that block;
    then takes and releases in arbitrary order and grouping (C05 for v1)"""
    from .props.c18 import ref_nonfatal
    ps = sorted(p for p, _ in cfg)
    good = [h for h in [1, 2, 3, 4, 6, 8, 12, 20, 40] if ref_nonfatal(ps, kind, h)]
    H = rng.choice(good[:5])
    ocap = rng.choice([1, 2, 4, max(H // 2, 1), H])
    nsteps = rng.choice([10, 25, 40]) if tier == "quick" else rng.choice([25, 40, 60])
    ops = []
    ntake = 0
    for _ in range(nsteps):
        r = rng.random()
        if r < 0.5:
            for _ in range(rng.choice([1, 2, 3, H])):
                ops.append((3, 0, 0, True))
                ntake += 1
        else:
            for _ in range(rng.choice([1, 1, 2, 3, H])):
                ops.append((4, rng.randrange(0, 8), 0, True))
    per = ntake + H + 6
    prefill = []
    for k in range(per):
        for _, ch in cfg:
            prefill.append(ch)
    nput = len(prefill)
    # finale: close, graceful stop, drain
    for _, ch in cfg:
        ops.append((2, ch, 0, True))
    ops.append((10, 0, 0, True))
    for _ in range(nput + 3):
        ops.append((3, 0, 0, True))
        ops.append((4, 0, 0, True))
    ops.append((3, 0, 0, True))
    enc = enc_prio1(kind, H, ocap, cfg, ops, prefill=prefill)
    meta = {"divider": ["Fair", "Rate"][kind], "H": H, "ocap": ocap, "cfg": cfg, "ops": ops, "style": "saturated", "fault": False,
            "stop": None, "nput": nput, "prefill": prefill, "nscript": len(ops) - (2 * (nput + 3) + 2 + len(cfg))}
    return Scenario(enc, "saturated", meta, nontrivial=True, version="v1")


class Prio1Trace:
    def __init__(self, vals, nops):
        vals = list(vals)
        self.extra = None
        self.noterm = False
        if "no-termination" in vals:
            self.noterm = True
            vals.remove("no-termination")
        if "extra" in vals:
            k = vals.index("extra")
            self.extra = [int(x) for x in vals[k + 1:k + 7]]
            vals = vals[:k]
        v = [int(x) for x in vals]
        self.error = None
        self.ops = []
        if v[0] != 0:
            self.error = -v[0]
            self.done, self.err = None, None
            return
        pos = 1
        for _ in range(nops):
            tp, tx, olen, pend, done, k = v[pos:pos + 6]
            pos += 6
            calls = set()
            for _ in range(k):
                dividend, n = v[pos], v[pos + 1]
                calls.add((dividend, tuple(v[pos + 2:pos + 2 + n])))
                pos += 2 + n
            nch = v[pos]
            consumed = tuple((v[pos + 1 + 2 * j], v[pos + 2 + 2 * j]) for j in range(nch))
            pos += 1 + 2 * nch
            nrow = v[pos]
            snap = tuple(tuple(v[pos + 1 + 3 * j:pos + 4 + 3 * j]) for j in range(nrow))
            pos += 1 + 3 * nrow
            self.ops.append((tp, tx, olen, pend, done, consumed, snap, calls))
        self.done, self.err = v[pos], v[pos + 1]
        self.ambiguous = len(v) > pos + 2 and v[pos + 2] == 1


# ------------------------------------------------------------------------------------ v1 views and monitors
def replay_driver1(meta, tr):
    held, view = [], []
    put_chan = {}                 # item -> channel
    per_chan = {}                 # channel -> [items in put order]
    nxt = 1
    for ch in meta.get("prefill", ()):
        put_chan[nxt] = ch
        per_chan.setdefault(ch, []).append(nxt)
        nxt += 1
    closed = set()
    reg = dict((p, ch) for p, ch in meta["cfg"])      # priority -> channel, as far as the driver knows
    consumed_prev = {}
    read_at = {}                  # item -> op index at which the discipline took it from its channel
    queue = []
    uncertain = False
    done_prev = False
    for i, ((code, a, b, stl), o) in enumerate(zip(meta["ops"], tr.ops)):
        tp, tx, olen, pend, done, consumed, snap, calls = o
        taken = None
        reg_before = dict(reg)
        if code == 1 and a not in closed:
            put_chan[nxt] = a
            per_chan.setdefault(a, []).append(nxt)
            nxt += 1
        elif code == 2:
            closed.add(a)
        elif code == 3 and (tp, tx) != (0, 0):
            taken = (tp, tx)
            held.append(tp)
        elif code == 4 and held:
            held.pop(a % len(held))
        elif code == 8 and not done_prev:
            queue.append(("add", b, a))
        elif code == 9 and not done_prev:
            queue.append(("rmv", a, None))
        # commands the loop has taken during this operation (the API calls have returned): FIFO while at most one is pending
        ntaken = len(queue) - (0 if done else pend)
        if done:
            # calls still waiting when the discipline terminates panic; whether they were taken just before is unknown
            if queue:
                uncertain = True
            ntaken = 0
        if len(queue) >= 2 and ntaken > 0:
            uncertain = True     # Go's select chooses at random between the two command channels
        for _ in range(max(0, min(ntaken, len(queue)))):
            kindc, pp, chh = queue.pop(0)
            if kindc == "add":
                reg[pp] = chh
            else:
                reg.pop(pp, None)
        if done:
            queue = []
        for ch, cnt in consumed:
            for k in range(consumed_prev.get(ch, 0), cnt):
                items = per_chan.get(ch, [])
                if k < len(items):
                    read_at[items[k]] = i
            consumed_prev[ch] = cnt
        view.append({"held": list(held), "olen": olen, "taken": taken, "pend": pend, "done": done, "consumed": dict(consumed),
                     "snap": snap, "calls": calls, "reg_before": reg_before, "reg_after": dict(reg), "closed": set(closed),
                     "code": code, "a": a, "b": b, "uncertain": uncertain, "queued": len(queue),
                     "nput": dict((c, len(v2)) for c, v2 in per_chan.items())})
        done_prev = bool(done)
    return view, put_chan, per_chan, read_at


def prio1_project(kind):
    def project(sc, vals):
        tr = Prio1Trace(vals, len(sc.meta["ops"]))
        if tr.error is not None:
            return ["error", tr.error]
        if getattr(tr, "ambiguous", False) or any(o[3] >= 2 for o in tr.ops):
            return SKIP
        if sc.meta.get("phase_sensitive"):
            # writes to unbuffered inputs without settling afterwards: at which driver operation such an item comes out depends on
            # where in its idle cycle the scheduler was; these scripts are judged by the monitors only
            return SKIP
        allbuf = all(ch < 1000 for _, ch in sc.meta["cfg"]) and all(o[1] < 1000 for o in sc.meta["ops"] if o[0] == 8)
        if sc.meta.get("fault") and not allbuf:
            # with an unbuffered input the discipline goes on calling the divider at interrupter ticks while it waits: which of
            # those calls is "the next one" when the fault is armed depends on the phase of the ticker (monitors still apply)
            return SKIP
        ops = tr.ops
        if kind == "C01":
            return ["inflight", [(o[2], o[6]) for o in ops]]
        if kind == "C02":
            return ["delivered", [(o[0], o[1]) for o in ops if (o[0], o[1]) != (0, 0)], [o[5] for o in ops]]
        if kind == "C07":
            return ["termination", [o[4] for o in ops], tr.done, tr.err]
        if kind == "C15":
            return ["calls", [sorted(o[7]) for o in ops] if allbuf else None, tr.done, tr.err, [(o[0], o[1]) for o in ops if (o[0], o[1]) != (0, 0)]]
        if kind == "C05":
            return ["vector", [(o[0], o[1]) for o in ops if (o[0], o[1]) != (0, 0)], [o[2] for o in ops], [o[6] for o in ops]]
        if kind == "C16":
            return ["stop", [(o[0], o[1]) for o in ops if (o[0], o[1]) != (0, 0)], [o[4] for o in ops], [o[2] for o in ops], tr.done, tr.err]
        if kind == "C17":
            return ["inputs", [(o[0], o[1]) for o in ops if (o[0], o[1]) != (0, 0)], [o[3] for o in ops], [o[5] for o in ops], [o[6] for o in ops]]
        return ["full", [o[:7] for o in ops], tr.done, tr.err]
    return project


def monitor_prio1(kind):
    def monitor(sc, ir):
        if ir.verdict != "ok":
            what = "implementation verdict %s %s" % (ir.verdict, ir.raw[-300:].replace("\n", " "))
            if ir.verdict == "hang" and sc.meta.get("stop"):
                what = "Stop()/cancel did not complete: the harness hung (wall-clock watchdog) " + what
            return [(what, None)]
        m = sc.meta
        tr = Prio1Trace(ir.vals, len(m["ops"]))
        H = m["H"]
        key = "prio1:%s:%d:%s:%s" % (m["divider"], H, m["cfg"], m["style"])
        if tr.error is not None:
            return [] if (H == 0 and tr.error == 2) else [("constructor returned error code %s" % tr.error, key)]
        view, put_chan, per_chan, read_at = replay_driver1(m, tr)
        fails = []
        delivered = [v["taken"] for v in view if v["taken"]]
        extra = tr.extra or [0, 0, 0, 0, 0, 0]
        stopped_at = next((i for i, v in enumerate(view) if v["code"] in (11, 12)), None)
        if tr.noterm:
            fails.append("the discipline did not terminate even after its context was cancelled")
        if kind in ("C01", "C17", "C15"):
            worst = max([len(v["held"]) + v["olen"] for v in view] + [extra[0]])
            if worst > H:
                fails.append("%d items handed out and not released, HandlersQuantity is %d" % (worst, H))
        if kind in ("C02", "C17", "C16"):
            seen = set()
            last_of_chan = {}
            for (p, x) in delivered:
                if x in seen:
                    fails.append("item %d delivered twice" % x)
                seen.add(x)
                ch = put_chan.get(x)
                if ch is None:
                    fails.append("item %d delivered but never written" % x)
                    continue
                if last_of_chan.get(ch, 0) > x:
                    fails.append("items of channel %d delivered out of order" % ch)
                last_of_chan[ch] = max(last_of_chan.get(ch, 0), x)
                i = read_at.get(x)
                if i is not None and not view[i]["uncertain"]:
                    ok_tags = {q for q, c in view[i]["reg_after"].items() if c == ch}
                    if view[i]["queued"] or view[i]["code"] in (8, 9):
                        ok_tags |= {q for q, c in view[i]["reg_before"].items() if c == ch}
                    if ok_tags and p not in ok_tags:
                        fails.append("item %d of channel %d delivered tagged %d, the channel was registered under %s" % (x, ch, p, sorted(ok_tags)))
        if kind == "C17":
            # a channel that is not registered under any priority is never read
            for i in range(1, len(view)):
                if view[i - 1]["queued"] or view[i]["queued"] or view[i]["uncertain"] or view[i]["code"] in (8, 9):
                    continue
                registered = set(view[i - 1]["reg_after"].values()) | set(view[i]["reg_after"].values())
                for ch, cnt in view[i]["consumed"].items():
                    if ch not in registered and cnt > view[i - 1]["consumed"].get(ch, 0):
                        fails.append("op %d: channel %d is read although it is not registered (RemoveInput had returned)" % (i, ch))
            # AddInput / RemoveInput return once the loop has taken the command (unless the discipline is blocked)
            for i, v in enumerate(view):
                for row in v["snap"]:
                    if row[0] not in set(v["reg_after"]) | set(v["reg_before"]) and row[1] == 0 and not v["queued"] and not v["uncertain"] and not v["done"] and False:
                        fails.append("op %d: priority %d is still configured after RemoveInput returned" % (i, row[0]))
        if kind in ("C02", "C07", "C17") and not m["stop"] and not m["fault"]:
            if tr.done == 1:
                gi = next((i for i, v in enumerate(view) if v["done"]), len(view) - 1)
                v = view[gi]
                for p, ch in ([] if v["uncertain"] else v["reg_after"].items()):
                    if ch not in v["closed"]:
                        fails.append("GracefulStop completed while the input of priority %d is still open" % p)
                    elif v["consumed"].get(ch, 0) != v["nput"].get(ch, 0):
                        fails.append("GracefulStop completed with %d of %d items of channel %d read" % (v["consumed"].get(ch, 0), v["nput"].get(ch, 0), ch))
                if v["held"] and kind == "C07":
                    fails.append("GracefulStop completed while %d delivered items are unreleased" % len(v["held"]))
                nread = sum(v["consumed"].values())
                got = len([t for t in view[:gi + 1] if t["taken"]]) + v["olen"]
                if nread != got:
                    fails.append("%d items were read from the inputs but %d were delivered by graceful termination" % (nread, got))
                if tr.err != 0:
                    fails.append("Err() yielded error code %d in normal mode" % tr.err)
            elif kind == "C07":
                fails.append("GracefulStop did not complete although every input was closed and emptied and every item released")
                v = view[-1] if view else None
                if v is not None and not v["uncertain"] and v["reg_after"]:
                    psr = sorted(v["reg_after"], reverse=True)
                    shr = ref_shares(psr, 0 if m["divider"] == "Fair" else 1, H)
                    if any(shr.get(p, 0) == 0 for p in psr):
                        return [("GracefulStop never completes although every input is closed and empty and nothing is in flight: "
                                 "priorities %s have a zero share (shares %s) [%s H=%d inputs=%s]" % (
                                     sorted(p for p in psr if shr.get(p, 0) == 0), shr, m["divider"], H, m["cfg"]),
                                 "prio1-zero-share-graceful:%s:H=%d:%s" % (m["divider"], H, psr))]
        if kind == "C16" and m["stop"]:
            if tr.done != 1:
                fails.append("%s did not take effect: the discipline has not terminated" % m["stop"])
            if m["stop"] == "stop" and not extra[3]:
                fails.append("Stop() has not returned")
            if extra[5]:
                fails.append("%d writes to the output after the discipline had terminated" % extra[5])
            if stopped_at is not None:
                after = view[stopped_at]
                for v in view[stopped_at + 1:]:
                    if v["olen"] + len([t for t in view[:view.index(v) + 1] if t["taken"]]) > after["olen"] + len([t for t in view[:stopped_at + 1] if t["taken"]]):
                        fails.append("an item was written to the output after Stop()/cancel had completed")
                        break
        if kind == "C05" and m["style"] == "saturated":
            ps = sorted([p for p, _ in m["cfg"]], reverse=True)
            shares = ref_shares(ps, 0 if m["divider"] == "Fair" else 1, H)
            for i, v in enumerate(view[:m["nscript"]]):
                if any(v["nput"].get(ch, 0) - v["consumed"].get(ch, 0) < 1 for _, ch in m["cfg"]):
                    break        # cannot happen by construction of the scenario; the window ends if it does
                cnt = {p: v["held"].count(p) for p in ps}
                for p in ps:
                    if cnt[p] > shares.get(p, 0):
                        fails.append("op %d: %d items of priority %d in processing, its share is %d" % (i, cnt[p], p, shares.get(p, 0)))
                if v["olen"] == 0 and any(cnt[p] != shares.get(p, 0) for p in ps):
                    fails.append("op %d: quiet and output empty under saturation but in-flight %s differs from the shares %s" % (i, cnt, shares))
                if fails:
                    break
        if kind == "C15":
            if extra[1]:
                fails.append("divider called with arguments violating its contract (%d calls)" % extra[1])
            for v in view:
                for (d, cps) in v["calls"]:
                    if d > H:
                        fails.append("divider called with dividend %d > HandlersQuantity %d" % (d, H))
            if m["fault"]:
                delta = next((a for (c, a, b, s_) in m["ops"] if c in (5, 7)), 0)
                if extra[2] == 1 and delta > 0 and tr.done == 1 and tr.err not in (1, 2) and not m["stop"]:
                    fails.append("a division over-allocating by %d was made but no error was reported (err=%d)" % (delta, tr.err))
        return [("%s [%s H=%d inputs=%s style=%s ops=%d]" % (f, m["divider"], H, m["cfg"], m["style"], len(m["ops"])), key) for f in fails[:3]]
    return monitor


def prio1_generate(fault_share=0.0, stop_share=0.0, styles=None):
    def generate(rng, tier):
        n = (120 if styles == ["saturated"] else 300) if tier == "quick" else (800 if styles == ["saturated"] else 2500)
        out = []
        for _ in range(n):
            stop = rng.choice(["stop", "cancel"]) if rng.random() < stop_share else None
            out.append(gen_prio1_scenario(rng, tier, style=rng.choice(styles) if styles else None,
                                          fault=(rng.random() < fault_share and not stop), stop=stop))
        return out
    return generate


PRIO1_RULE = ("v1 driver scripts in a synctest bubble: 0..3 initial inputs (buffered / unbuffered channels with identities), H 1..20, user output "
              "capacity 1..H/2, Fair/Rate; operations put (also into removed channels), close, take, release, AddInput (new channel, new or "
              "already registered priority, re-add), RemoveInput, optional divider fault, optional Stop()/cancel at a random position, otherwise "
              "GracefulStop finale; every operation is followed by a settle; scenarios in which the model sees a select with several ready "
              "alternatives (or two pending commands) are monitored but not compared")


def d4_witness():
    """known finding D4: v1 has no constructor check; with a zero share the lowest priority starves although nothing is in flight"""
    cfg = [(3, 0), (2, 1), (1, 2)]
    ops = [(1, 2, 0, True), (3, 0, 0, True), (3, 0, 0, True), (1, 2, 0, True), (3, 0, 0, True)]
    enc = enc_prio1(1, 1, 1, cfg, ops)
    meta = {"divider": "Rate", "H": 1, "ocap": 1, "cfg": cfg, "ops": ops, "style": "d4-witness", "fault": False, "stop": "cancel-cleanup", "nput": 2}
    meta["stop"] = None
    return Scenario(enc, "known-finding-witness", meta, nontrivial=True, version="v1")


def d4_graceful_witness():
    """known finding (same root cause as D4): with a zero share GracefulStop never completes although every input is closed and empty"""
    cfg = [(3, 0), (2, 1), (1, 2)]
    ops = [(2, 0, 0, True), (2, 1, 0, True), (2, 2, 0, True), (10, 0, 0, True), (3, 0, 0, True), (3, 0, 0, True)]
    enc = enc_prio1(1, 1, 1, cfg, ops)
    meta = {"divider": "Rate", "H": 1, "ocap": 1, "cfg": cfg, "ops": ops, "style": "d4-graceful-witness", "fault": False, "stop": None, "nput": 0}
    return Scenario(enc, "known-finding-witness", meta, nontrivial=True, version="v1")


def prio1_few_handlers_generate():
    def generate(rng, tier):
        return [gen_prio1_scenario(rng, tier, style=rng.choice(["plain", "addremove", "addremove"]), few_handlers=True)
                for _ in range(120 if tier == "quick" else 1500)]
    return generate


def prio1_generate_with_witness(witness, fault_share=0.0, stop_share=0.0, styles=None):
    gen = prio1_generate(fault_share, stop_share, styles)

    def generate(rng, tier):
        return [witness()] + gen(rng, tier)
    return generate


def prio1_progress_generate():
    gen = prio1_generate(0.0, 0.0)

    def generate(rng, tier):
        return [d4_witness()] + gen(rng, tier)
    return generate


def monitor_prio1_progress(sc, ir):
    if sc.meta.get("phase_sensitive"):
        # writes to unbuffered inputs that are not followed by a settle: "delivered after settling" cannot be judged per operation
        return []
    if ir.verdict != "ok":
        return [("implementation verdict %s %s" % (ir.verdict, ir.raw[-300:].replace("\n", " ")), None)]
    m = sc.meta
    tr = Prio1Trace(ir.vals, len(m["ops"]))
    if tr.error is not None:
        return []
    view, put_chan, per_chan, read_at = replay_driver1(m, tr)
    H = m["H"]
    kindn = 0 if m["divider"] == "Fair" else 1
    fails = []
    for i, v in enumerate(view):
        if v["uncertain"] or v["queued"] or v["done"]:
            continue
        waiting = [(p, ch) for p, ch in v["reg_after"].items() if v["consumed"].get(ch, 0) < v["nput"].get(ch, 0)]
        if waiting and not v["held"] and v["olen"] == 0:
            ps = sorted(v["reg_after"], reverse=True)
            shares = ref_shares(ps, kindn, H)
            zero = sorted(p for p in ps if shares.get(p, 0) == 0)
            key = "prio1-zero-share:%s:H=%d:%s" % (m["divider"], H, ps) if zero else "prio1:%s:%d:%s" % (m["divider"], H, m["cfg"])
            fails.append(("op %d: items are waiting on priorities %s, nothing is in flight, yet nothing is delivered after settling "
                          "(shares %s) [%s H=%d inputs=%s]" % (i, sorted(p for p, _ in waiting), shares, m["divider"], H, m["cfg"]), key))
            break
    # a priority alone in having data, nothing of another priority in flight, itself within its share: the vacant handlers are its
    # own without any release (v1 analogue of the v2 clause; theorem C06_v2_alone_within_share states it for the v2 machine)
    if not fails:
        for i, v in enumerate(view):
            if v["uncertain"] or v["queued"] or v["done"] or v["olen"] != 0 or len(v["held"]) >= H or not v["reg_after"]:
                continue
            waiting = [(p, ch) for p, ch in v["reg_after"].items() if v["consumed"].get(ch, 0) < v["nput"].get(ch, 0)]
            if len(waiting) != 1:
                continue
            p0 = waiting[0][0]
            ps = sorted(v["reg_after"], reverse=True)
            shares = ref_shares(ps, kindn, H)
            if any(shares.get(q, 0) == 0 for q in ps):
                continue        # zero-share configurations: the known finding
            if all(h == p0 for h in v["held"]) and len(v["held"]) <= shares.get(p0, 0):
                fails.append(("op %d: priority %d alone has data, %d of %d handlers hold its items and nothing else is in flight, yet nothing "
                              "is offered after settling [%s H=%d inputs=%s]" % (i, p0, len(v["held"]), H, m["divider"], H, m["cfg"]),
                              "prio1:%s:%d:%s" % (m["divider"], H, m["cfg"])))
                break
    if tr.done == 1 and not m.get("fault"):
        gi = next((i for i, v in enumerate(view) if v["done"]), len(view) - 1)
        v = view[gi]
        if not v["uncertain"]:
            for p, ch in v["reg_after"].items():
                if v["consumed"].get(ch, 0) != v["nput"].get(ch, 0) and ch in v["closed"]:
                    fails.append(("terminated gracefully with items of channel %d unread" % ch, "prio1:%s:%d:%s" % (m["divider"], H, m["cfg"])))
    return fails[:3]


# --------------------------------------------------------------------------- simplified disciplines (family 9)
def gen_simple2_scenario(rng, tier):
    ps = list(rng.choice([x for x in PRIOSETS if max(x) < 2 ** 63 and len(x) <= 20]))
    kind = rng.randrange(2)
    if ps == [1000, 2, 1] and kind == 1:
        ps = [100, 2, 1]
    hmin = min_handlers(ps, kind) or 1
    H = rng.choice([hmin, hmin + 1, hmin + rng.randrange(0, 6), 2 * hmin])
    allbuf = rng.random() < 0.7
    cfg = [(p, True if allbuf else rng.random() < 0.5) for p in ps]
    ops = []
    nput = 0
    open_ = set(ps)
    for _ in range(rng.choice([10, 25, 40]) if tier == "quick" else rng.choice([30, 80])):
        r = rng.random()
        if r < 0.45 and open_:
            p = rng.choice(sorted(open_))
            for _ in range(rng.choice([1, 1, 2, H])):
                ops.append((1, p, True))
                nput += 1
        elif r < 0.9:
            for _ in range(rng.choice([1, 1, 2, 4])):
                ops.append((4, rng.randrange(0, 8), True))
        elif open_:
            p = rng.choice(sorted(open_))
            open_.discard(p)
            ops.append((2, p, True))
    for p in sorted(open_):
        ops.append((2, p, True))
    for _ in range(nput + 2):
        ops.append((4, 0, True))
    pb, os_ = [], []
    for p, b in cfg:
        pb += [p, 1 if b else 0]
    for code, arg, stl in ops:
        os_ += [code, arg, 1]
    enc = [9, kind, H, FUEL, len(pb)] + pb + [len(os_)] + os_
    meta = {"divider": ["Fair", "Rate"][kind], "H": H, "cfg": cfg, "ops": ops, "nput": nput}
    return Scenario(enc, "simple-v2", meta, nontrivial=nput >= 2, version="v2")


class SimpleTrace:
    def __init__(self, vals, nops):
        vals = list(vals)
        self.noterm = "no-termination" in vals
        if self.noterm:
            vals.remove("no-termination")
        self.extra = None
        if "extra" in vals:
            k = vals.index("extra")
            self.extra = [int(x) for x in vals[k + 1:k + 4]]
            vals = vals[:k]
        v = [int(x) for x in vals]
        self.error = None
        self.ops = []
        if v[0] != 0:
            self.error = -v[0]
            self.terminated = self.err = None
            return
        pos = 1
        for _ in range(nops):
            running, total, k = v[pos:pos + 3]
            self.ops.append((running, total, tuple(v[pos + 3:pos + 3 + k])))
            pos += 3 + k
        self.terminated, self.err = v[pos], v[pos + 1]


def simple2_generate():
    def generate(rng, tier):
        return [gen_simple2_scenario(rng, tier) for _ in range(250 if tier == "quick" else 2000)]
    return generate


def simple2_project(sc, vals):
    tr = SimpleTrace(vals, len(sc.meta["ops"]))
    if tr.error is not None:
        return ["error", tr.error]
    return ["handle", tr.ops, tr.terminated, tr.err]


def monitor_simple2(kind):
    def monitor(sc, ir):
        if ir.verdict != "ok":
            return [("implementation verdict %s %s" % (ir.verdict, ir.raw[-300:].replace("\n", " ")), None)]
        m = sc.meta
        tr = SimpleTrace(ir.vals, len(m["ops"]))
        if tr.error is not None:
            return []
        H = m["H"]
        key = "simple2:%s:%d:%s" % (m["divider"], H, m["cfg"])
        fails = []
        extra = tr.extra or [0, 0, 0]
        if kind == "C01" and (extra[0] > H or any(o[0] > H for o in tr.ops)):
            fails.append("%d concurrent Handle calls, HandlersQuantity is %d" % (max([extra[0]] + [o[0] for o in tr.ops]), H))
        if kind == "C02":
            if extra[1]:
                fails.append("Handle was invoked more than once for %d item(s)" % extra[1])
            handled = sorted(x for o in tr.ops for x in o[2])
            if tr.terminated == 1 and handled != list(range(1, m["nput"] + 1)):
                fails.append("Handle invoked for %d distinct items, %d were written" % (len(set(handled)), m["nput"]))
        if kind in ("C07", "C19"):
            if tr.terminated != 1 or tr.noterm:
                fails.append("the discipline did not terminate after every input was closed and every Handle call returned")
            if extra[2] > 0:
                fails.append("terminated while %d Handle calls were still running" % extra[2])
            if tr.err not in (0, -1):
                fails.append("error reported in normal mode")
        return [("%s [simple v2 %s H=%d inputs=%s ops=%d]" % (f, m["divider"], H, m["cfg"], len(m["ops"])), key) for f in fails[:3]]
    return monitor


SIMPLE2_RULE = ("v2 simplified discipline in a synctest bubble: Handle blocks until the driver lets the k-th running call return; operations put, "
                "close, let-go, each followed by a settle; finale closes the inputs and lets every call return; non-trivial = at least two items")


# ------------------------------------------------------------------ v1 simplified discipline (family 10, monitor only)
def gen_simple1_scenario(rng, tier, ending=None):
    from .props.c18 import ref_nonfatal
    ps = list(rng.choice([[1], [2, 1], [3, 2, 1], [5, 1], [7, 5, 3, 1], [70, 20, 10], [4, 3]]))
    kind = rng.randrange(2)
    good = [h for h in range(1, 60) if ref_nonfatal(ps, kind, h)]
    H = rng.choice(good[:6])
    linger = rng.choice([0, 0, 50, 1000])
    cfg = [(p, rng.random() < 0.8) for p in ps]
    ending = ending or rng.choice(["graceful", "graceful", "stop", "cancel", "double-stop", "stop-during-graceful", "double-graceful", "fault"])
    if len(ps) >= 2 and ending in ("stop", "cancel", "double-stop") and rng.random() < 0.3:
        # fewer handlers than inputs (a zero-share configuration: delivery is not guaranteed there -- the known finding -- but the bound
        # on concurrent Handle calls, the stop behaviour and the goroutine accounting are); ended by Stop / cancel only
        H = rng.randrange(1, len(ps))
    ops, nput = [], 0
    open_ = set(ps)
    for _ in range(rng.choice([6, 15, 30])):
        r = rng.random()
        if r < 0.5 and open_:
            p = rng.choice(sorted(open_))
            for _ in range(rng.choice([1, 1, 2, H])):
                ops.append((1, p, True))
                nput += 1
        elif r < 0.9:
            ops.append((4, rng.randrange(0, 8), True))
        elif open_ and ending.startswith("graceful"):
            p = rng.choice(sorted(open_))
            open_.discard(p)
            ops.append((2, p, True))
    if ending in ("graceful", "double-graceful"):
        for p in sorted(open_):
            ops.append((2, p, True))
        ops.append((10, 0, False if ending == "double-graceful" else True))
        if ending == "double-graceful":
            ops.append((10, 0, True))
        for _ in range(nput + 2):
            ops.append((4, 0, True))
    elif ending == "stop":
        ops.append((11, 0, True))
    elif ending == "cancel":
        ops.append((12, 0, True))
    elif ending == "double-stop":
        ops.append((11, 0, False))
        ops.append((11, 0, True))
    elif ending == "fault":
        # the divider breaks the sum rule from its k-th call on: the discipline ends by itself (Err() reports and closes) and
        # nobody calls Stop / GracefulStop or cancels the context: everything it started must be gone all the same
        for _ in range(nput + 4):
            ops.append((4, 0, True))
    else:
        # a Handle call is in progress (and honours its context only after `linger`) when the pending graceful stop is interrupted
        ops.append((1, ps[0], True))
        nput += 1
        linger = rng.choice([50, 1000, 1000])
        ops.append((10, 0, True))
        ops.append((11, 0, True))
    if not ending.startswith("graceful") and ending != "double-graceful":
        ops.append((1, ps[0], True))
        ops.append((4, 0, True))
    pb, os_ = [], []
    for p, b in cfg:
        pb += [p, 1 if b else 0]
    for code, arg, stl in ops:
        os_ += [code, arg, 1 if stl else 0]
    kind_enc = kind if ending != "fault" else kind + 2 + 2 * rng.choice([0, 1, 3])
    enc = [10, kind_enc, H, linger, len(pb)] + pb + [len(os_)] + os_
    meta = {"divider": ["Fair", "Rate"][kind], "H": H, "cfg": cfg, "ops": ops, "nput": nput, "ending": ending, "linger": linger}
    return Scenario(enc, "simple-v1-" + ending, meta, nontrivial=nput >= 1, version="v1")


def simple1_generate(endings=None):
    def generate(rng, tier):
        return [gen_simple1_scenario(rng, tier, ending=rng.choice(endings) if endings else None) for _ in range(250 if tier == "quick" else 2500)]
    return generate


def monitor_simple1(kind):
    def monitor(sc, ir):
        if ir.verdict != "ok":
            what = "implementation verdict %s %s" % (ir.verdict, ir.raw[-300:].replace("\n", " "))
            if ir.verdict == "hang":
                what = "Simple.Stop()/cancel did not complete (wall-clock watchdog) " + what
            if ir.verdict == "bubble-deadlock":
                what = "goroutines of the discipline remained blocked at the end of the scenario " + what
            return [(what, None)]
        m = sc.meta
        vals = list(ir.vals)
        final_g = None
        if "final-goroutines" in vals:
            k = vals.index("final-goroutines")
            final_g = int(vals[k + 1])
            vals = vals[:k]
        noterm = "no-termination" in vals
        if noterm:
            vals.remove("no-termination")
        extra = [0, 0, -1, 0]
        if "extra" in vals:
            k = vals.index("extra")
            extra = [int(x) for x in vals[k + 1:k + 5]]
            vals = vals[:k]
        v = [int(x) for x in vals]
        if v[0] != 0:
            return []
        pos, rows = 1, []
        for _ in m["ops"]:
            running, total, term, sret, gret, leaked, k = v[pos:pos + 7]
            rows.append((running, total, term, sret, gret, leaked, v[pos + 7:pos + 7 + k]))
            pos += 7 + k
        H = m["H"]
        key = "simple1:%s:%d:%s:%s" % (m["divider"], H, m["cfg"], m["ending"])
        fails = []
        nstop = sum(1 for o in m["ops"] if o[0] == 11)
        ngrace = sum(1 for o in m["ops"] if o[0] == 10)
        last = rows[-1]
        if kind == "C01" and (extra[0] > H or any(r[0] > H for r in rows)):
            fails.append("%d concurrent Handle calls, HandlersQuantity is %d" % (max([extra[0]] + [r[0] for r in rows]), H))
        if kind == "C02":
            if extra[1]:
                fails.append("Handle invoked more than once for %d item(s)" % extra[1])
            if m["ending"] in ("graceful", "double-graceful") and last[2] == 1 and last[1] != m["nput"]:
                fails.append("graceful termination with Handle invoked for %d of %d items" % (last[1], m["nput"]))
        if kind == "C07" and m["ending"] in ("graceful", "double-graceful"):
            gi = next((i for i, r in enumerate(rows) if r[4] > 0), None)
            if gi is None or last[4] != ngrace:
                fails.append("GracefulStop() has not returned although every input was closed and every Handle call returned")
            else:
                if rows[gi][0] != 0:
                    fails.append("GracefulStop() returned while %d Handle calls were running" % rows[gi][0])
                if rows[gi][1] != m["nput"]:
                    fails.append("GracefulStop() returned with %d of %d items handled" % (rows[gi][1], m["nput"]))
        if kind == "C07" and m["ending"] == "stop-during-graceful":
            # a pending GracefulStop() interrupted by Stop(): when GracefulStop() returns the discipline has terminated, i.e. no Handle
            # call is running any more
            gi = next((i for i, r in enumerate(rows) if r[4] > 0), None)
            if gi is not None and rows[gi][0] != 0:
                fails.append("GracefulStop() returned while %d Handle calls were running (after Stop() during the pending graceful stop)" % rows[gi][0])
            if extra[2] > 0:
                fails.append("%d Handle calls were running at the moment GracefulStop() / Stop() returned" % extra[2])
        if kind == "C16" and m["ending"] in ("stop", "cancel", "double-stop", "stop-during-graceful"):
            if last[2] != 1 or noterm:
                fails.append("%s did not terminate the discipline" % m["ending"])
            if last[3] != nstop:
                fails.append("%d of %d Stop() calls have returned" % (last[3], nstop))
            if extra[2] > 0:
                fails.append("%d Handle calls were running when Stop() returned" % extra[2])
            if extra[3] > 0:
                fails.append("Handle was invoked %d times after Stop() had returned" % extra[3])
        if kind == "C19":
            if any(r[5] > 0 for r in rows):
                fails.append("%d goroutine(s) started by the discipline remained after it had terminated (Stop()/GracefulStop() returned or Err() closed)" % max(r[5] for r in rows))
            if final_g:
                fails.append("%d goroutine(s) started by the discipline remained at the end" % final_g)
            if noterm:
                fails.append("the discipline never terminated")
        return [("%s [simple v1 %s H=%d inputs=%s ending=%s linger=%d]" % (f, m["divider"], H, m["cfg"], m["ending"], m["linger"]), key) for f in fails[:3]]
    return monitor


SIMPLE1_RULE = ("v1 simplified discipline in a synctest bubble (graceful endings compared with the composed model Prio1 + handlers, family 11; the others monitor only): Handle honours its context (returns `linger` fake ns after it is done) "
                "or returns when the driver lets it go; endings: graceful finale, Stop, cancel, two overlapping Stop calls, Stop during a pending "
                "GracefulStop, two overlapping GracefulStop calls; goroutines created by the library are counted after every stop call has returned")


def simple1_variants(sc):
    """the model side of a family-10 scenario: family 11 (Prio1 + handlers), same script without the linger parameter"""
    e = sc.enc
    return [[11, e[1], e[2], FUEL] + list(e[4:])]


def simple1_project(sc, vals):
    """graceful endings only (after Stop()/cancel the Handle calls are interrupted through their context: monitors decide those).
    Compared at every settled operation: running Handle calls, items for which Handle has been started so far, and the final
    termination."""
    m = sc.meta
    if m["ending"] not in ("graceful", "double-graceful"):
        return SKIP
    rows = []
    if vals and all(isinstance(x, int) for x in vals):          # model: [0; per op: running total k items..; terminated; err]
        v = list(vals)
        if v[0] != 0:
            return ["error", v[0]]
        pos = 1
        for _ in m["ops"]:
            running, total, k = v[pos:pos + 3]
            rows.append((running, total, sorted(v[pos + 3:pos + 3 + k])))
            pos += 3 + k
        term = v[pos]
    else:
        v = list(vals)
        for mark in ("final-goroutines", "extra"):
            if mark in v:
                v = v[:v.index(mark)]
        v = [x for x in v if x != "no-termination"]
        v = [int(x) for x in v]
        if v[0] != 0:
            return ["error", v[0]]
        pos = 1
        for _ in m["ops"]:
            running, total, t_, sret, gret, leaked, k = v[pos:pos + 7]
            rows.append((running, total, sorted(v[pos + 7:pos + 7 + k]), t_))
            pos += 7 + k
        term = rows[-1][3] if rows else 0
    out, acc = [], []
    for (code, arg, stl), r in zip(m["ops"], rows):
        acc += r[2]
        if stl:
            out.append((r[0], r[1], sorted(acc)))
            acc = []
    return ["simple1", out, term]


# ------------------------------------------------------------------------------------------------ shrinking
def _chunks_removed(ops, keep_tail=0):
    """candidate op lists with one chunk removed: halves, quarters, eighths, then single operations"""
    n = len(ops) - keep_tail
    out = []
    size = max(n // 2, 1)
    while size >= 1:
        for start in range(0, n, size):
            cand = ops[:start] + ops[start + size:]
            if len(cand) < len(ops):
                out.append(cand)
        if size == 1:
            break
        size //= 2
    return out


def shrink_prio2(sc):
    m = sc.meta
    for ops in _chunks_removed(list(m["ops"])):
        meta = dict(m, ops=ops, nput=sum(1 for o in ops if o[0] in (1, 6)))
        kind = 0 if m["divider"] == "Fair" else 1
        yield Scenario(enc_prio2(kind, m["H"], m["cfg"], ops), sc.label, meta, nontrivial=True, version="v2")


def shrink_prio1(sc):
    m = sc.meta
    for ops in _chunks_removed(list(m["ops"])):
        meta = dict(m, ops=ops, nput=sum(1 for o in ops if o[0] == 1))
        kind = 0 if m["divider"] == "Fair" else 1
        if "nscript" in m:
            meta["nscript"] = min(m["nscript"], len(ops))
        yield Scenario(enc_prio1(kind, m["H"], m["ocap"], m["cfg"], ops, prefill=m.get("prefill", ())), sc.label, meta, nontrivial=True, version="v1")


# ---------------------------------------------------------------- systematic injection at every position (thorough tier)
def inject_everywhere_prio1(rng, tier, what):
    """what: 'stop' | 'cancel' | 'fault': for a few base scripts, one scenario per position of the script"""
    out = []
    for _ in range(4 if tier == "quick" else 40):
        base = gen_prio1_scenario(rng, "quick")
        m = base.meta
        body = [o for o in m["ops"]]
        cut = next((i for i, o in enumerate(body) if o[0] == 10), len(body))
        body = body[:cut]          # without the graceful finale
        kind = 0 if m["divider"] == "Fair" else 1
        step = 1 if tier != "quick" else max(len(body) // 6, 1)
        for k in range(0, len(body) + 1, step):
            if what == "fault":
                ops = body[:k] + [(rng.choice([5, 7]), rng.choice([1, 2, m["H"]]), 0, True)] + body[k:]
                for ch in sorted({o[1] for o in body if o[0] in (1, 8)} | {c for _, c in m["cfg"]}):
                    ops.append((2, ch, 0, True))
                ops.append((10, 0, 0, True))
                for _ in range(m["nput"] + 3):
                    ops += [(3, 0, 0, True), (4, 0, 0, True)]
                meta = dict(m, ops=ops, fault=True, stop=None, style=m["style"])
            else:
                ops = body[:k] + [(11 if what == "stop" else 12, 0, 0, True), (3, 0, 0, True), (3, 0, 0, True)]
                meta = dict(m, ops=ops, fault=False, stop=what)
            out.append(Scenario(enc_prio1(kind, m["H"], m["ocap"], m["cfg"], ops), "inject-%s-at-%d" % (what, k), meta, nontrivial=True, version="v1"))
    return out


def prio1_generate_with_injection(fault_share, stop_share, what):
    gen = prio1_generate(fault_share, stop_share)

    def generate(rng, tier):
        out = gen(rng, tier)
        if what == "stop":
            return out + inject_everywhere_prio1(rng, tier, "stop") + inject_everywhere_prio1(rng, tier, "cancel")
        return out + inject_everywhere_prio1(rng, tier, what)
    return generate
