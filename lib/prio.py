"""v2 / v1 priority driver scripts (families 7, 8): generation, decoding, projections and monitors shared by
C01 C02 C05 C06 C07 C15 (C16 C17 for v1)."""
import itertools

from .core import SKIP, Scenario

FUEL = 200000
CLOSED_MARK = 4294967296
PRIOSETS = [[1], [2, 1], [3, 2, 1], [5, 1], [7, 5, 3, 1], [70, 20, 10], [4, 3], [1000, 2, 1], [6, 5, 4, 3, 2, 1]]


def ref_shares(ps, kind, H):
    from .props.c18 import ref_fair, ref_rate
    ps = sorted(ps, reverse=True)
    return (ref_fair if kind == 0 else ref_rate)(ps, H)


def min_handlers(ps, kind):
    for h in range(1, 400):
        d = ref_shares(ps, kind, h)
        if all(d.get(p, 0) > 0 for p in ps):
            return h
    return None


def enc_prio2(kind, H, cfg, ops):
    pb, os_ = [], []
    for p, b in cfg:
        pb += [p, 1 if b else 0]
    for code, arg, stl in ops:
        os_ += [code, arg, 1 if stl else 0]
    return [7, kind, H, FUEL, len(pb)] + pb + [len(os_)] + os_


def gen_prio2_scenario(rng, tier, style=None, fault=False):
    ps = list(rng.choice(PRIOSETS))
    kind = rng.randrange(2)
    hmin = min_handlers(ps, kind) or 1
    H = rng.choice([hmin, hmin, hmin + 1, hmin + rng.randrange(0, 6), 2 * hmin, rng.randrange(hmin, hmin + 30)])
    if rng.random() < 0.04:
        H = max(hmin - 1, 0)      # rejected by the constructor
    style = style or rng.choice(["mixed", "mixed", "saturated", "sparse", "single", "unbuffered", "closing"])
    allbuf = style != "unbuffered" and rng.random() < 0.8
    cfg = [(p, True if allbuf else rng.random() < 0.5) for p in ps]
    if style == "unbuffered":
        cfg = [(p, rng.random() < 0.3) for p in ps]
    every_settle = not all(b for _, b in cfg)
    ops = []
    nops = rng.choice([10, 25, 40]) if tier == "quick" else rng.choice([25, 60, 120])
    active = ps if style != "single" else [rng.choice(ps)]
    open_ = set(ps)
    nput = 0

    def stl():
        return True if every_settle else rng.random() < 0.6

    if style == "saturated":
        for p in ps:
            for _ in range(H + 2):
                ops.append((1, p, False if not every_settle else True))
                nput += 1
        ops.append((3, 0, True))
    for _ in range(nops):
        r = rng.random()
        if style == "saturated" and r < 0.25:
            p = rng.choice(ps)
            ops.append((1, p, stl()))
            nput += 1
        elif r < 0.35 and open_:
            cand = [p for p in active if p in open_]
            if cand:
                p = rng.choice(cand)
                burst = rng.choice([1, 1, 2, H])
                for _ in range(burst):
                    ops.append((1, p, stl()))
                    nput += 1
        elif r < 0.65:
            for _ in range(rng.choice([1, 1, 2, 3])):
                ops.append((3, 0, stl()))
        elif r < 0.92:
            for _ in range(rng.choice([1, 1, 2, 4])):
                ops.append((4, rng.randrange(0, 8), stl()))
        elif style in ("closing", "mixed", "sparse") and open_ and rng.random() < 0.5:
            p = rng.choice(sorted(open_))
            open_.discard(p)
            ops.append((2, p, stl()))
    if fault:
        k = rng.randrange(0, len(ops) + 1)
        ops.insert(k, (5, rng.choice([1, 2, -1, -2, H, 1]), True))
    # finale: close everything, then take / release until everything must have been delivered
    for p in sorted(open_):
        ops.append((2, p, True))
    for _ in range(nput + 3):
        ops.append((3, 0, True))
        ops.append((4, 0, True))
    ops.append((3, 0, True))
    ops.append((3, 0, True))
    enc = enc_prio2(kind, H, cfg, ops)
    meta = {"divider": ["Fair", "Rate"][kind], "H": H, "cfg": cfg, "ops": ops, "style": style, "fault": fault, "hmin": hmin,
            "nput": nput}
    return Scenario(enc, style + ("+fault" if fault else ""), meta, nontrivial=nput >= 2 and H >= hmin, version="v2")


class PrioTrace:
    def __init__(self, vals, nops):
        vals = list(vals)
        self.extra = None
        self.noterm = False
        if "no-termination" in vals:
            self.noterm = True
            vals.remove("no-termination")
        if "extra" in vals:
            k = vals.index("extra")
            self.extra = [int(x) for x in vals[k + 1:k + 3]]
            vals = vals[:k]
        v = [int(x) for x in vals]
        self.error = None
        self.ops = []
        if v[0] != 0:
            self.error = -v[0]
            self.closed, self.err = None, None
            return
        pos = 1
        for _ in range(nops):
            tp, tx, olen, k = v[pos], v[pos + 1], v[pos + 2], v[pos + 3]
            pos += 4
            calls = set()
            for _ in range(k):
                dividend, n = v[pos], v[pos + 1]
                calls.add((dividend, tuple(v[pos + 2:pos + 2 + n])))
                pos += 2 + n
            self.ops.append((tp, tx, olen, calls))
        self.closed, self.err = v[pos], v[pos + 1]
