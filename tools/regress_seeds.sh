#!/bin/bash
# Applies every seeded change (seeded/<id>/patch.diff) to /repo in turn, runs the quick check of its property and records the verdict.
# usage: tools/regress_seeds.sh [id...]   -> seeded/DETECTION.md   (nothing else may run checks meanwhile: they rebuild from /repo)
cd "$(dirname "$0")/.." || exit 2
V="$(pwd)"
ids="$@"; [ -z "$ids" ] && ids=$(ls seeded | grep -E '^C[0-9]{2}[a-z]?$')
out=seeded/DETECTION.md
{ echo "# Seeded changes against the quick checks ($(git rev-parse --short HEAD))"; echo; echo "| mutant | property | verdict of ./check <property> --tier quick |"; echo "|---|---|---|"; } > $out
for id in $ids; do
  p=${id:0:3}
  r=$(tools/try_seed.sh "$V"/seeded/$id/patch.diff $p 2>&1 | grep -v "^exit\|KNOWN-FINDING")
  v=$(echo "$r" | grep VIOLATION | head -1)
  s=$(echo "$r" | grep "$p quick:" | tail -1 | sed 's/.*obligations/obligations/')
  if [ -z "$v" ]; then verdict="**not reported** ($s)"; elif echo "$v" | grep -q no-failing-input-found; then verdict="VIOLATION no-failing-input-found ($s)"; else verdict="VIOLATION with a failing input ($s)"; fi
  echo "| $id | $p | $verdict |" >> $out
done
git -C "${VERIF_REPO:-/repo}" status --short 2>/dev/null | head -3
