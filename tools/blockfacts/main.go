// blockfacts: a small Go-AST translator that regenerates, from the current source of the discipline packages, the facts the
// stop-alternative checker (coq/StopAlts.v) is about:
//   - per function / method ("Recv.method" or "func") the list of its potentially blocking operations in source order:
//     BSelect (comm clauses with direction and channel expression as source text, has default?), BRecv / BSend (receive expression
//     / send statement that is not a comm clause of a select, `for range ch`), BRange (range over something whose type cannot be
//     told), BCall (time.Sleep, .Wait, .Lock, .RLock, .Break, .Stop, .GracefulStop, .Release on other objects; callee text and
//     argument text), BGo (a go statement)
//   - per function the functions of the package it calls (methods on the receiver type, package functions; a mere reference to
//     one of them -- method value, function value -- counts as a call) and the resolved targets of its go statements
//   - per package its constants and the `make(chan ...)` expressions with what they are assigned to
//
// The body of `go func() {...}()` becomes a pseudo function "Enclosing.funcN" (a goroutine entry of its own); every other function
// literal is attributed to the enclosing function.
// Only go/parser + go/ast + go/printer; no type checker: the type of a ranged-over expression is read off the declared types of
// struct fields, parameters and simple local assignments.
// Output: a Coq file defining `facts : list package` (see coq/BlockTypes.v).
package main

import (
	"bytes"
	"fmt"
	"go/ast"
	"go/parser"
	"go/printer"
	"go/token"
	"os"
	"path/filepath"
	"sort"
	"strings"
)

type fn struct {
	name     string
	exported bool
	ops      []string // already rendered as Coq terms
	calls    []string
	gos      []string
	seenCall map[string]bool
}

type pkgFacts struct {
	path    string
	consts  [][2]string
	makes   [][3]string
	funcs   []*fn
	structs map[string]map[string]ast.Expr // struct type -> field -> declared type
	named   map[string]ast.Expr            // every declared type -> its type expression
	methods map[string]*ast.FuncDecl       // "Type.method"
	pfuncs  map[string]*ast.FuncDecl       // package functions
	fset    *token.FileSet
}

var blockingMethods = map[string]bool{
	"Wait": true, "Lock": true, "RLock": true, "Break": true, "Stop": true, "GracefulStop": true, "Release": true,
}

var basicTypes = map[string]bool{
	"bool": true, "string": true, "int": true, "int8": true, "int16": true, "int32": true, "int64": true, "uint": true,
	"uint8": true, "uint16": true, "uint32": true, "uint64": true, "uintptr": true, "byte": true, "rune": true,
	"float32": true, "float64": true, "complex64": true, "complex128": true,
}

func (pf *pkgFacts) text(n ast.Node) string {
	// (x) and x are the same channel / callee
	for {
		p, ok := n.(*ast.ParenExpr)
		if !ok {
			break
		}
		n = p.X
	}
	var b bytes.Buffer
	if err := printer.Fprint(&b, pf.fset, n); err != nil {
		return "?"
	}
	return strings.Join(strings.Fields(b.String()), " ")
}

// q renders a Coq string literal
func q(s string) string { return "\"" + strings.ReplaceAll(s, "\"", "\"\"") + "\"" }

func recvOf(fd *ast.FuncDecl) (string, string) {
	if fd.Recv == nil || len(fd.Recv.List) == 0 {
		return "", ""
	}
	f := fd.Recv.List[0]
	name := ""
	if len(f.Names) > 0 {
		name = f.Names[0].Name
	}
	return baseTypeName(f.Type), name
}

// baseTypeName: *T, T[X], *T[X,Y] -> "T"; anything else -> ""
func baseTypeName(t ast.Expr) string {
	for {
		switch x := t.(type) {
		case *ast.StarExpr:
			t = x.X
		case *ast.ParenExpr:
			t = x.X
		case *ast.IndexExpr:
			t = x.X
		case *ast.IndexListExpr:
			t = x.X
		case *ast.Ident:
			return x.Name
		default:
			return ""
		}
	}
}

type walker struct {
	pf       *pkgFacts
	f        *fn
	outer    string // name of the declared function (for the names of pseudo functions)
	recvType string
	recvName string
	env      map[string]ast.Expr // local name -> type expression (nil: unknown)
	conflict map[string]bool
	lits     *int
}

func (w *walker) emit(op string) { w.f.ops = append(w.f.ops, op) }

func (w *walker) addCall(target string) {
	if w.f.seenCall == nil {
		w.f.seenCall = map[string]bool{}
	}
	if !w.f.seenCall[target] {
		w.f.seenCall[target] = true
		w.f.calls = append(w.f.calls, target)
	}
}

func (w *walker) bind(name string, t ast.Expr) {
	if name == "_" || name == "" {
		return
	}
	if w.conflict[name] {
		return
	}
	if old, ok := w.env[name]; ok {
		if old == nil || t == nil || w.pf.text(old) != w.pf.text(t) {
			// the same name with two different (or unknown) types, e.g. shadowing in an inner scope: unknown from now on
			w.conflict[name] = true
			w.env[name] = nil
			return
		}
	}
	w.env[name] = t
}

func (w *walker) bindFields(fl *ast.FieldList) {
	if fl == nil {
		return
	}
	for _, f := range fl.List {
		for _, n := range f.Names {
			w.bind(n.Name, f.Type)
		}
	}
}

// typeOf: the declared type expression of e as far as the syntax tells, nil when unknown
func (w *walker) typeOf(e ast.Expr) ast.Expr {
	switch t := e.(type) {
	case *ast.Ident:
		if v, ok := w.env[t.Name]; ok {
			return v
		}
		return nil
	case *ast.ParenExpr:
		return w.typeOf(t.X)
	case *ast.StarExpr:
		if x := w.typeOf(t.X); x != nil {
			if s, ok := x.(*ast.StarExpr); ok {
				return s.X
			}
		}
		return nil
	case *ast.UnaryExpr:
		if t.Op == token.AND {
			if x := w.typeOf(t.X); x != nil {
				return &ast.StarExpr{X: x}
			}
		}
		if t.Op == token.ARROW {
			if x := w.typeOf(t.X); x != nil {
				if c, ok := x.(*ast.ChanType); ok {
					return c.Value
				}
			}
		}
		return nil
	case *ast.CompositeLit:
		return t.Type
	case *ast.BasicLit:
		switch t.Kind {
		case token.INT:
			return ast.NewIdent("int")
		case token.FLOAT:
			return ast.NewIdent("float64")
		case token.STRING:
			return ast.NewIdent("string")
		case token.CHAR:
			return ast.NewIdent("rune")
		}
		return nil
	case *ast.SelectorExpr:
		x := w.typeOf(t.X)
		if x == nil {
			return nil
		}
		if fields, ok := w.pf.structs[baseTypeName(x)]; ok {
			return fields[t.Sel.Name] // nil when it is not a field (a method value, an embedded field's field)
		}
		return nil
	case *ast.IndexExpr:
		switch x := w.typeOf(t.X).(type) {
		case *ast.MapType:
			return x.Value
		case *ast.ArrayType:
			return x.Elt
		}
		return nil
	case *ast.SliceExpr:
		return w.typeOf(t.X)
	case *ast.CallExpr:
		switch fun := t.Fun.(type) {
		case *ast.Ident:
			if _, shadowed := w.env[fun.Name]; shadowed {
				return nil
			}
			switch fun.Name {
			case "make", "new":
				if len(t.Args) > 0 {
					if fun.Name == "new" {
						return &ast.StarExpr{X: t.Args[0]}
					}
					return t.Args[0]
				}
				return nil
			case "len", "cap":
				return ast.NewIdent("int")
			}
			if basicTypes[fun.Name] {
				return fun
			}
			if fd, ok := w.pf.pfuncs[fun.Name]; ok {
				return singleResult(fd)
			}
		case *ast.SelectorExpr:
			if x := w.typeOf(fun.X); x != nil {
				if fd, ok := w.pf.methods[baseTypeName(x)+"."+fun.Sel.Name]; ok {
					return singleResult(fd)
				}
			}
		}
		return nil
	}
	return nil
}

func singleResult(fd *ast.FuncDecl) ast.Expr {
	if fd.Type.Results == nil || len(fd.Type.Results.List) != 1 || len(fd.Type.Results.List[0].Names) > 1 {
		return nil
	}
	return fd.Type.Results.List[0].Type
}

// classify a type expression: "chan", "no" (certainly not a channel) or "?" (cannot tell)
func (w *walker) classify(t ast.Expr, depth int) string {
	if t == nil || depth > 8 {
		return "?"
	}
	switch x := t.(type) {
	case *ast.ChanType:
		return "chan"
	case *ast.MapType, *ast.ArrayType, *ast.StructType:
		return "no"
	case *ast.ParenExpr:
		return w.classify(x.X, depth+1)
	case *ast.StarExpr:
		return w.classify(x.X, depth+1)
	case *ast.IndexExpr:
		return w.classify(x.X, depth+1)
	case *ast.IndexListExpr:
		return w.classify(x.X, depth+1)
	case *ast.Ident:
		if basicTypes[x.Name] {
			return "no"
		}
		if u, ok := w.pf.named[x.Name]; ok {
			return w.classify(u, depth+1)
		}
		return "?" // a type parameter or something not declared in this package
	}
	return "?" // pkg.Type, func types (range over func), interfaces
}

func (w *walker) commCase(cc *ast.CommClause) string {
	recvOfExpr := func(e ast.Expr) (ast.Expr, bool) {
		for {
			if p, ok := e.(*ast.ParenExpr); ok {
				e = p.X
				continue
			}
			break
		}
		if u, ok := e.(*ast.UnaryExpr); ok && u.Op == token.ARROW {
			return u.X, true
		}
		return nil, false
	}
	switch c := cc.Comm.(type) {
	case *ast.SendStmt:
		// the channel and value operands are evaluated (once) on entering the select: receives nested in them are not guarded
		w.walk(c.Chan)
		w.walk(c.Value)
		return "(CSend, " + q(w.pf.text(c.Chan)) + ")"
	case *ast.ExprStmt:
		if x, ok := recvOfExpr(c.X); ok {
			w.walk(x)
			return "(CRecv, " + q(w.pf.text(x)) + ")"
		}
	case *ast.AssignStmt:
		if len(c.Rhs) == 1 {
			if x, ok := recvOfExpr(c.Rhs[0]); ok {
				w.walk(x)
				for _, l := range c.Lhs {
					if id, isID := l.(*ast.Ident); isID && c.Tok == token.DEFINE {
						w.bind(id.Name, nil)
					} else {
						w.walk(l)
					}
				}
				return "(CRecv, " + q(w.pf.text(x)) + ")"
			}
		}
	}
	return "(CRecv, " + q("?"+w.pf.text(cc.Comm)) + ")"
}

func (w *walker) selectStmt(s *ast.SelectStmt) {
	cases := []string{}
	hasDefault := false
	for _, st := range s.Body.List {
		cc := st.(*ast.CommClause)
		if cc.Comm == nil {
			hasDefault = true
			continue
		}
		cases = append(cases, w.commCase(cc))
	}
	w.emit("BSelect [" + strings.Join(cases, "; ") + "] " + fmt.Sprint(hasDefault))
	for _, st := range s.Body.List {
		for _, b := range st.(*ast.CommClause).Body {
			w.walk(b)
		}
	}
}

func (w *walker) isRecv(e ast.Expr) bool {
	id, ok := e.(*ast.Ident)
	return ok && w.recvName != "" && id.Name == w.recvName
}

// resolveCallee: the function of the package that a call / go statement targets ("" if none), walking what has to be walked
func (w *walker) resolveCallee(fun ast.Expr) (target string, blocking string) {
	switch f := fun.(type) {
	case *ast.ParenExpr:
		return w.resolveCallee(f.X)
	case *ast.SelectorExpr:
		if w.isRecv(f.X) && w.pf.methods[w.recvType+"."+f.Sel.Name] != nil {
			return w.recvType + "." + f.Sel.Name, ""
		}
		// a local variable of a type of this package (the value a constructor builds: dsc := &Discipline{...}; go dsc.main())
		if id, ok := f.X.(*ast.Ident); ok {
			if t := w.typeOf(id); t != nil {
				if name := baseTypeName(t) + "." + f.Sel.Name; w.pf.methods[name] != nil {
					return name, ""
				}
			}
		}
		w.walk(f.X)
		if id, ok := f.X.(*ast.Ident); ok && id.Name == "time" && f.Sel.Name == "Sleep" {
			return "", w.pf.text(f)
		}
		if blockingMethods[f.Sel.Name] {
			return "", w.pf.text(f)
		}
		return "", ""
	case *ast.Ident:
		if _, local := w.env[f.Name]; !local && w.pf.pfuncs[f.Name] != nil {
			return f.Name, ""
		}
		return "", ""
	case *ast.IndexExpr: // explicit instantiation f[T](...)
		if id, ok := f.X.(*ast.Ident); ok && w.pf.pfuncs[id.Name] != nil {
			return id.Name, ""
		}
		w.walk(f)
		return "", ""
	case *ast.IndexListExpr:
		if id, ok := f.X.(*ast.Ident); ok && w.pf.pfuncs[id.Name] != nil {
			return id.Name, ""
		}
		w.walk(f)
		return "", ""
	case *ast.FuncLit:
		return "", "" // handled by the callers
	default:
		w.walk(fun)
		return "", ""
	}
}

func (w *walker) args(list []ast.Expr) string {
	parts := []string{}
	for _, a := range list {
		w.walk(a)
		parts = append(parts, w.pf.text(a))
	}
	return strings.Join(parts, ", ")
}

func (w *walker) goStmt(g *ast.GoStmt) {
	if lit, ok := g.Call.Fun.(*ast.FuncLit); ok {
		*w.lits++
		name := fmt.Sprintf("%s.func%d", w.outer, *w.lits)
		pseudo := &fn{name: name}
		w.pf.funcs = append(w.pf.funcs, pseudo)
		// the closure sees the variables of the enclosing function
		env := map[string]ast.Expr{}
		for k, v := range w.env {
			env[k] = v
		}
		conflict := map[string]bool{}
		for k, v := range w.conflict {
			conflict[k] = v
		}
		sub := &walker{pf: w.pf, f: pseudo, outer: name, recvType: w.recvType, recvName: w.recvName, env: env, conflict: conflict, lits: new(int)}
		sub.bindFields(lit.Type.Params)
		sub.bindFields(lit.Type.Results)
		sub.walk(lit.Body)
		w.args(g.Call.Args)
		w.emit("BGo " + q(name))
		w.f.gos = append(w.f.gos, name)
		return
	}
	target, _ := w.resolveCallee(g.Call.Fun)
	w.args(g.Call.Args)
	w.emit("BGo " + q(w.pf.text(g.Call.Fun)))
	if target != "" {
		w.f.gos = append(w.f.gos, target)
	} else {
		w.f.gos = append(w.f.gos, "?"+w.pf.text(g.Call.Fun))
	}
}

func (w *walker) callExpr(c *ast.CallExpr) {
	if lit, ok := c.Fun.(*ast.FuncLit); ok {
		// func() {...}() and defer func() {...}(): part of the enclosing function
		w.walk(lit)
		w.args(c.Args)
		return
	}
	target, blocking := w.resolveCallee(c.Fun)
	argText := w.args(c.Args)
	if target != "" {
		w.addCall(target)
	}
	if blocking != "" {
		w.emit("BCall " + q(blocking) + " " + q(argText))
	}
}

func isMakeChan(e ast.Expr) bool {
	c, ok := e.(*ast.CallExpr)
	if !ok || len(c.Args) == 0 {
		return false
	}
	id, ok := c.Fun.(*ast.Ident)
	if !ok || id.Name != "make" {
		return false
	}
	_, isChan := c.Args[0].(*ast.ChanType)
	return isChan
}

func (w *walker) recordMake(target string, e ast.Expr) {
	if isMakeChan(e) {
		w.pf.makes = append(w.pf.makes, [3]string{w.f.name, target, w.pf.text(e)})
	}
}

func (w *walker) rangeStmt(r *ast.RangeStmt) {
	w.walk(r.X)
	xt := w.typeOf(r.X)
	kind := "?"
	if r.Value != nil {
		// two iteration variables: a map, slice, array, string (or an iterator function, which is a call of a function value and
		// is treated like every other callback: not a blocking operation of this function) -- never a channel
		kind = "no"
	} else {
		kind = w.classify(xt, 0)
	}
	switch kind {
	case "chan":
		w.emit("BRecv " + q(w.pf.text(r.X)))
	case "?":
		w.emit("BRange " + q(w.pf.text(r.X)))
	}
	// iteration variables
	var kt, vt ast.Expr
	switch x := xt.(type) {
	case *ast.MapType:
		kt, vt = x.Key, x.Value
	case *ast.ArrayType:
		kt, vt = ast.NewIdent("int"), x.Elt
	case *ast.ChanType:
		kt = x.Value
	case *ast.Ident:
		if basicTypes[x.Name] {
			kt = x
		}
	}
	if r.Tok == token.DEFINE {
		if id, ok := r.Key.(*ast.Ident); ok {
			w.bind(id.Name, kt)
		}
		if id, ok := r.Value.(*ast.Ident); ok {
			w.bind(id.Name, vt)
		}
	} else {
		if r.Key != nil {
			w.walk(r.Key)
		}
		if r.Value != nil {
			w.walk(r.Value)
		}
	}
	w.walk(r.Body)
}

func (w *walker) assignStmt(a *ast.AssignStmt) {
	for _, r := range a.Rhs {
		w.walk(r)
	}
	for i, l := range a.Lhs {
		id, isID := l.(*ast.Ident)
		if !isID {
			w.walk(l)
		}
		if len(a.Lhs) == len(a.Rhs) {
			w.recordMake(w.pf.text(l), a.Rhs[i])
		}
		if isID && a.Tok == token.DEFINE {
			if len(a.Lhs) == len(a.Rhs) {
				w.bind(id.Name, w.typeOf(a.Rhs[i]))
			} else {
				w.bind(id.Name, nil)
			}
		}
	}
}

func (w *walker) walk(n ast.Node) {
	if n == nil {
		return
	}
	ast.Inspect(n, func(n ast.Node) bool {
		switch t := n.(type) {
		case *ast.SelectStmt:
			w.selectStmt(t)
			return false
		case *ast.UnaryExpr:
			if t.Op == token.ARROW {
				w.walk(t.X)
				w.emit("BRecv " + q(w.pf.text(t.X)))
				return false
			}
		case *ast.SendStmt:
			w.walk(t.Chan)
			w.walk(t.Value)
			w.emit("BSend " + q(w.pf.text(t.Chan)))
			return false
		case *ast.RangeStmt:
			w.rangeStmt(t)
			return false
		case *ast.GoStmt:
			w.goStmt(t)
			return false
		case *ast.CallExpr:
			w.callExpr(t)
			return false
		case *ast.AssignStmt:
			w.assignStmt(t)
			return false
		case *ast.KeyValueExpr:
			if id, ok := t.Key.(*ast.Ident); ok {
				// a struct literal's `field: value` (or a map literal keyed by a variable): the key is not a function reference
				w.recordMake(id.Name, t.Value)
				w.walk(t.Value)
				return false
			}
		case *ast.DeclStmt:
			if gd, ok := t.Decl.(*ast.GenDecl); ok {
				for _, sp := range gd.Specs {
					vs, ok := sp.(*ast.ValueSpec)
					if !ok {
						continue
					}
					for _, v := range vs.Values {
						w.walk(v)
					}
					for i, nm := range vs.Names {
						switch {
						case vs.Type != nil:
							w.bind(nm.Name, vs.Type)
						case len(vs.Values) == len(vs.Names):
							w.bind(nm.Name, w.typeOf(vs.Values[i]))
							w.recordMake(nm.Name, vs.Values[i])
						default:
							w.bind(nm.Name, nil)
						}
					}
				}
			}
			return false
		case *ast.FuncLit:
			w.bindFields(t.Type.Params)
			w.bindFields(t.Type.Results)
			w.walk(t.Body)
			return false
		case *ast.SelectorExpr:
			// a method of the receiver type used as a value: counts as a call
			if w.isRecv(t.X) && w.pf.methods[w.recvType+"."+t.Sel.Name] != nil {
				w.addCall(w.recvType + "." + t.Sel.Name)
				return false
			}
			w.walk(t.X)
			return false
		case *ast.Ident:
			// a package function used as a value: counts as a call
			if _, local := w.env[t.Name]; !local && w.pf.pfuncs[t.Name] != nil {
				w.addCall(t.Name)
			}
		}
		return true
	})
}

// buildTagged: the file carries a build constraint (//go:build or // +build before the package clause)
func buildTagged(f *ast.File) bool {
	for _, cg := range f.Comments {
		if cg.Pos() >= f.Package {
			break
		}
		for _, c := range cg.List {
			txt := strings.TrimSpace(c.Text)
			if strings.HasPrefix(txt, "//go:build") || strings.HasPrefix(txt, "// +build") || strings.HasPrefix(txt, "//+build") {
				return true
			}
		}
	}
	return false
}

func analyse(dir, rel string) (*pkgFacts, error) {
	entries, err := os.ReadDir(dir)
	if err != nil {
		return nil, err
	}
	names := []string{}
	for _, e := range entries {
		n := e.Name()
		if e.IsDir() || !strings.HasSuffix(n, ".go") || strings.HasSuffix(n, "_test.go") {
			continue
		}
		names = append(names, n)
	}
	sort.Strings(names)
	pf := &pkgFacts{path: rel, fset: token.NewFileSet(), structs: map[string]map[string]ast.Expr{}, named: map[string]ast.Expr{},
		methods: map[string]*ast.FuncDecl{}, pfuncs: map[string]*ast.FuncDecl{}}
	var decls []*ast.FuncDecl
	parsed := 0
	for _, n := range names {
		file, err := parser.ParseFile(pf.fset, filepath.Join(dir, n), nil, parser.ParseComments)
		if err != nil {
			return nil, fmt.Errorf("package %s does not parse: %v", rel, err)
		}
		if buildTagged(file) {
			continue
		}
		parsed++
		for _, d := range file.Decls {
			switch t := d.(type) {
			case *ast.GenDecl:
				for _, sp := range t.Specs {
					switch s := sp.(type) {
					case *ast.TypeSpec:
						pf.named[s.Name.Name] = s.Type
						if st, ok := s.Type.(*ast.StructType); ok {
							fields := map[string]ast.Expr{}
							for _, f := range st.Fields.List {
								for _, nm := range f.Names {
									fields[nm.Name] = f.Type
								}
							}
							pf.structs[s.Name.Name] = fields
						}
					case *ast.ValueSpec:
						if t.Tok == token.CONST {
							for i, nm := range s.Names {
								val := ""
								if i < len(s.Values) {
									val = pf.text(s.Values[i])
								}
								pf.consts = append(pf.consts, [2]string{nm.Name, val})
							}
						}
					}
				}
			case *ast.FuncDecl:
				decls = append(decls, t)
			}
		}
	}
	if parsed == 0 {
		return nil, fmt.Errorf("package %s: no Go source files in %s", rel, dir)
	}
	for _, d := range decls {
		if rt, _ := recvOf(d); rt != "" {
			pf.methods[rt+"."+d.Name.Name] = d
		} else if d.Recv == nil {
			pf.pfuncs[d.Name.Name] = d
		}
	}
	for _, d := range decls {
		rt, rn := recvOf(d)
		f := &fn{name: d.Name.Name, exported: ast.IsExported(d.Name.Name)}
		if rt != "" {
			f.name = rt + "." + d.Name.Name
		}
		pf.funcs = append(pf.funcs, f)
		if d.Body == nil {
			continue
		}
		w := &walker{pf: pf, f: f, outer: f.name, recvType: rt, recvName: rn, env: map[string]ast.Expr{}, conflict: map[string]bool{}, lits: new(int)}
		if rn != "" && d.Recv != nil {
			w.bind(rn, d.Recv.List[0].Type)
		}
		w.bindFields(d.Type.Params)
		w.bindFields(d.Type.Results)
		w.walk(d.Body)
	}
	// several `init` (or `_`) functions may share a name: keep the names of the table distinct
	seen := map[string]int{}
	for _, f := range pf.funcs {
		seen[f.name]++
		if k := seen[f.name]; k > 1 {
			f.name = fmt.Sprintf("%s#%d", f.name, k)
		}
	}
	sort.SliceStable(pf.funcs, func(i, j int) bool { return pf.funcs[i].name < pf.funcs[j].name })
	sort.SliceStable(pf.consts, func(i, j int) bool { return pf.consts[i][0] < pf.consts[j][0] })
	sort.SliceStable(pf.makes, func(i, j int) bool {
		if pf.makes[i][0] != pf.makes[j][0] {
			return pf.makes[i][0] < pf.makes[j][0]
		}
		return pf.makes[i][1] < pf.makes[j][1]
	})
	return pf, nil
}

func qlist(items []string) string {
	out := make([]string, len(items))
	for i, s := range items {
		out[i] = q(s)
	}
	return "[" + strings.Join(out, "; ") + "]"
}

func main() {
	if len(os.Args) < 4 {
		fmt.Fprintln(os.Stderr, "usage: blockfacts <repo> <out.v> <pkgdir>...")
		os.Exit(2)
	}
	repo, out := os.Args[1], os.Args[2]
	rels := append([]string(nil), os.Args[3:]...)
	sort.Strings(rels)
	var b strings.Builder
	b.WriteString("(* GENERATED by blockfacts (tool/main.go) from the current Go source -- do not edit *)\n")
	b.WriteString("From Coq Require Import List String.\nFrom Cqos Require Import BlockTypes.\nImport ListNotations.\nOpen Scope string_scope.\n\n")
	b.WriteString("Definition facts : list package :=\n  [\n")
	for pi, rel := range rels {
		if pi > 0 && rels[pi-1] == rel {
			continue
		}
		pf, err := analyse(filepath.Join(repo, rel), rel)
		if err != nil {
			fmt.Fprintln(os.Stderr, "blockfacts:", err)
			os.Exit(1)
		}
		if pi > 0 {
			b.WriteString(";\n")
		}
		b.WriteString("   {| pkg_path := " + q(rel) + ";\n      pkg_consts := [")
		for i, c := range pf.consts {
			if i > 0 {
				b.WriteString("; ")
			}
			b.WriteString("(" + q(c[0]) + ", " + q(c[1]) + ")")
		}
		b.WriteString("];\n      pkg_makes := [")
		for i, m := range pf.makes {
			if i > 0 {
				b.WriteString("; ")
			}
			b.WriteString("(" + q(m[0]) + ", " + q(m[1]) + ", " + q(m[2]) + ")")
		}
		b.WriteString("];\n      pkg_funcs := [\n")
		for fi, f := range pf.funcs {
			b.WriteString("        {| fn_name := " + q(f.name) + "; fn_exported := " + fmt.Sprint(f.exported) + ";\n           fn_ops := [")
			for i, o := range f.ops {
				if i > 0 {
					b.WriteString(";\n                      ")
				}
				b.WriteString(o)
			}
			b.WriteString("];\n           fn_calls := " + qlist(f.calls) + ";\n           fn_gos := " + qlist(f.gos) + " |}")
			if fi < len(pf.funcs)-1 {
				b.WriteString(";")
			}
			b.WriteString("\n")
		}
		b.WriteString("      ] |}")
	}
	b.WriteString("\n  ].\n")
	if err := os.WriteFile(out, []byte(b.String()), 0o644); err != nil {
		fmt.Fprintln(os.Stderr, "blockfacts:", err)
		os.Exit(1)
	}
}
