module verif/blockfacts

go 1.22
