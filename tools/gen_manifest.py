#!/usr/bin/env python3
"""Regenerates MANIFEST.json from the table below (run from /verif): python3 tools/gen_manifest.py"""
import json
import os

ROOT = os.path.dirname(os.path.dirname(os.path.abspath(__file__)))
BASELINE = json.load(open("/root/.vp/BASELINE.json"))["cmd"] if os.path.exists("/root/.vp/BASELINE.json") else ""

STD = "Trusted: Coq 8.16.1 kernel (vm_compute, no native_compute), the hand-written Gallina model, extraction (ExtrOcamlBasic only), the OCaml/Go/Python glue of the correspondence check. "
FLOCQ = ("Axioms (standard library, via Flocq's Reals): ClassicalDedekindReals.sig_forall_dec, sig_not_dec, "
         "FunctionalExtensionality.functional_extensionality_dep, Classical_Prop.classic - only under theorems that mention float64. ")

CLAIMED = {
    "C13": dict(
        text="Full, unbounded: C13_recalculate/optimize/flatten proved in Coq for all of int64 x uint64 x int64 about a Z model of Recalculate (both branches, big-integer path, representability check); the model is tied to the code by comparing the whole result on boundary-structured and random 64-bit triples on every run; the property clauses are also monitored directly on the implementation.",
        ref="5.C13, 6 (D1)", note=STD + "No axioms (Closed under the global context).",
        technique="Coq theorem over Z model + extracted-model differential correspondence"),
    "C14": dict(
        text="Full for conservation, 'nothing else changes', Fair's shape, v1=v2 and Rate's ordering: proved in Coq for every priority list, dividend and pre-filled distribution, conservation for ANY rounding function (so independent of float64), ordering for any rounding monotone in the priority (discharged for the exact rational rounding). Rate's closeness to the proportional share is monitored on the implementation and not yet a theorem (partial). The float64 model (Flocq binary64) is compared bit-exactly with Go on an exhaustive small sub-space and random large magnitudes on every run, for both module versions.",
        ref="5.C14", note=STD + "The C14 theorems are closed under the global context; the float64 instance used only in the correspondence depends on the Flocq axioms. " + FLOCQ,
        technique="Coq theorems over assoc-list model (parametric in the rounding) + Flocq-based executable model compared with Go"),
    "C18": dict(
        text="Full for the combinatorial part: genCombinations enumerates exactly the non-empty order-preserving sub-lists (2^n-1), IsNonFatalConfig iff every member of every such sub-list gets >=1, PickUpMin/Max return the least/greatest q in [1,max] satisfying the predicate or 0, IsSuitableConfig => IsNonFatalConfig, monotone in the limit (given monotonicity of float64 '>' in its right argument, stated as a hypothesis), non-fatal => accepted by the v2 constructor for any dividend-conserving divider. Proved for all inputs. Model tied to both module versions by exact comparison of every helper, including composite scenarios that return the predicate for every q in [1,max]; clauses also monitored against an independent Python definition.",
        ref="5.C18, 6 (D2)", note=STD + FLOCQ,
        technique="Coq theorems over list model + extracted-model differential correspondence (v1 and v2)"),
}

PLANNED = ["C01", "C02", "C03", "C04", "C05", "C06", "C07", "C08", "C09", "C10", "C11", "C12", "C15", "C16", "C17", "C19", "C20"]


def main():
    checks = []
    for pid in sorted(CLAIMED):
        c = CLAIMED[pid]
        checks.append({
            "property_id": pid,
            "quick_cmd": "./check %s --tier quick" % pid,
            "thorough_cmd": "./check %s --tier thorough" % pid,
            "evidence_file": "evidence/%s.json" % pid,
            "replay_cmd_template": "./check %s --replay {path}" % pid,
            "engine": "coq-proofs",
            "level_claimed": {"category": "proof", "text": c["text"], "design_ref": c["ref"]},
            "level_note": c["note"],
            "technique": c["technique"],
        })
    served = sorted(CLAIMED)
    hooks_commits = [l.strip() for l in open(os.path.join(ROOT, "MANIFEST.hooks"))] if os.path.exists(os.path.join(ROOT, "MANIFEST.hooks")) else []
    hooks_commits = [l.split()[0] for l in hooks_commits if l and not l.startswith("#")]
    man = {
        "version": 1,
        "setup_cmd": "./setup.sh",
        "hooks": {"guard": "verif", "enable": "-tags verif (go1.26 test -c -tags verif in the harness modules)",
                  "baseline_off_cmd": BASELINE, "source_commits": hooks_commits, "add_only": True},
        "engines": [
            {"name": "coq-proofs", "path": "coq/", "serves_properties": served,
             "kind_free_text": "Coq 8.16.1 development: hand-written Gallina models + theorems (Properties.v), assumption audit per run"},
            {"name": "extracted-model", "path": "extract/", "serves_properties": served,
             "kind_free_text": "OCaml extraction of Run.run + driver; the model side of the correspondence check"},
            {"name": "go-harness", "path": "harness/", "serves_properties": served,
             "kind_free_text": "Go 1.26 test binaries running the real library code on the same scenarios (synctest bubble for timed/concurrent ones)"},
        ],
        "checks": checks,
        "not_applicable": [{"property_id": p, "reason": "not yet built in this revision (planned, DESIGN.md section 5)"}
                           for p in PLANNED if p not in CLAIMED],
        "notes": "See DESIGN.md. Checks are built incrementally; properties listed under not_applicable with reason 'not yet built' are planned (DESIGN.md section 5).",
    }
    json.dump(man, open(os.path.join(ROOT, "MANIFEST.json"), "w"), indent=1)
    print("MANIFEST.json: %d checks, %d not_applicable" % (len(checks), len(man["not_applicable"])))


if __name__ == "__main__":
    main()
