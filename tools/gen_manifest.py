#!/usr/bin/env python3
"""Regenerates MANIFEST.json from the table below (run from /verif): python3 tools/gen_manifest.py"""
import json
import os

ROOT = os.path.dirname(os.path.dirname(os.path.abspath(__file__)))
BASELINE = json.load(open("/root/.vp/BASELINE.json"))["cmd"] if os.path.exists("/root/.vp/BASELINE.json") else ""

STD = "Trusted: Coq 8.16.1 kernel (vm_compute, no native_compute), the hand-written Gallina model, extraction (ExtrOcamlBasic only), the OCaml/Go/Python glue of the correspondence check. "
FLOCQ = ("Axioms (standard library, via Flocq's Reals): ClassicalDedekindReals.sig_forall_dec, sig_not_dec, "
         "FunctionalExtensionality.functional_extensionality_dep, Classical_Prop.classic - only under theorems that mention float64. ")

CLAIMED = {
    "C01": dict(
        text="Full (safety, unbounded) on the v2 model: for every divider (stateful and faulty ones included, only assumed to return a map), every mix of buffered and unbuffered inputs and every interleaving of producers, consumers, releases and clock ticks, each priority's in-flight counter equals the items of that priority in the output buffer, held by handlers and waiting in the feedback channel, the total never exceeds HandlersQuantity, and inside a round actual+tactic stays within it (C01_v2_accounting/capacity/round_budget). The model is tied to v2 and v1 by exact comparison, after every driver operation, of deliveries, output length, the scheduling state (actual/strategic per priority, read through a build-tagged snapshot hook) and the divider-call arguments; the capacity is monitored on the implementation, in v1 also across AddInput/RemoveInput. The same invariant is proved over the v1 machine, whose reachable relation includes AddInput/RemoveInput/Stop steps and in which removed priorities keep their in-flight count (C01_v1_*; the ErrQuantityExceeded branch is unreachable). Simplified disciplines: v2 Simple is the v2 model plus auto-taking handlers and is compared exactly (concurrent Handle calls = held items); v1 Simple is the v1 model plus auto-taking handlers with the discipline's own channel capacities (Run.run_simple1) and is compared exactly on graceful endings; Stop/cancel endings are monitored (concurrent Handle calls <= H).",
        ref="5.C01", note=STD + "No axioms. Environment assumption: handlers release only items they received (otherwise the unsigned counter wraps: API misuse).",
        technique="Coq inductive invariant over a pc-machine/environment LTS + fake-time differential correspondence with state snapshots"),
    "C02": dict(
        text="Full on the v2 model: for every reachable state and configured priority, delivered-of-p ++ item in flight inside send ++ input queue = everything written to p (C02_v2_split), every delivered tag is a configured priority, and at normal termination delivered-of-p = written-of-p: exactly once, in order, nothing invented (C02_v2_exactly_once); v1: per channel, items read ++ input queue = written, reads = delivered + dropped + the item inside send, and nothing is dropped without a stop (C02_v1_*). Tied to v2 and v1 by exact comparison of the delivered (priority,item) sequence and per-channel consumption; exactly-once/FIFO/tagging monitored on the implementation (v1: tags against the registration in force when the item was read).",
        ref="5.C02", note=STD + "No axioms. Put on a closed input is not enabled (Go panics).",
        technique="Coq inductive invariant (per-priority split) + fake-time differential correspondence"),
    "C05": dict(
        text="Full on the v2 model for saturated executions (no Close; whenever the scheduler looks at an input, or the clock ticks while it waits on one, the input has data): every priority's in-flight count stays within its strategic share and whenever the scheduler waits for a release every handler is occupied, i.e. every priority holds exactly its share -- for ANY divider (C05_v2_share_bound, C05_v2_full_when_quiet); the weaker reading of saturation that ignores clock ticks is refuted by a kernel-checked counterexample with an unbuffered input (C05_v2_literal_saturation_refuted), which is why the property speaks of buffered inputs. Tied to v2 by exact comparison of the in-flight vector with inputs pre-filled before New(); share bound and 'quiet => exactly the shares' monitored against independently computed shares, including priorities >= 2^63. v1: the same saturated scripts (inputs filled before New by writers that block behind small buffers) are compared exactly with the v1 model and monitored against the shares; the saturation theorems themselves are stated for the v2 machine.",
        ref="5.C05", note=STD + "No axioms.",
        technique="Coq invariant over saturated executions + fake-time differential correspondence"),
    "C06": dict(
        text="Partial (bounded-progress lemmas, no theorem about infinite runs): on the v2 model the scheduler waits for a release only when one is owed (C06_v2_no_wait_when_idle); from the top of a round with nothing in flight and some undrained input holding data an item is written to the output within 3n+1 own steps with no release (C06_v2_round_delivers(_auto)); a priority alone in having data reaches HandlersQuantity in flight with no release, from a clean state (C06_v2_alone_gets_all) and from every state in which nothing else is in flight and it holds no more than its share (C06_v2_alone_within_share); above its share it may have to wait for one more release (kernel-checked witness C06_v2_alone_above_share_waits), which is why the clause is stated and monitored 'within its share'. Global 'eventually delivered' under weak fairness is argued from these in DESIGN.md, not mechanised. Correspondence on progress per operation; monitors: never 'quiet, nothing in flight, data waiting'; everything delivered by the end of a releasing finale; the alone clause from a clean state and, at every settled operation, 'alone in having data, within its share, nothing else in flight, vacant handlers => something is offered'. v1 accepts configurations with a zero share, for which the property fails: recorded known finding (v1 has no constructor check).",
        ref="5.C06, 6 (D4)", note=STD + "No axioms. Fairness of Go's select (unbuffered inputs, v1 selects) is an assumption, not modelled probabilistically.",
        technique="Coq bounded-reachability lemmas (variant + no-blocking) + fake-time differential correspondence"),
    "C07": dict(
        text="Safety full, promptness partial, on the v2 model: the discipline is Done only with nothing in the output, held or in the feedback channel and, without an error, every configured input closed and empty (C07_v2_done_only_when); no error is ever reported for a divider that obeys the sum rule or adds nothing (C07_v2_no_error); once every input is closed and empty and nothing is in the output or held, the scheduler alone reaches Done within an explicit bound provided no item sits inside send (C07_v2_prompt_partial; the general statement is refuted for that pc by a kernel-checked counterexample: a consumer must still take the item). Tied to v2/v1 by exact comparison of the operation at which termination is observed and of Err(); closure never early / always by the end of the finale / nil error monitored (v1: GracefulStop; v1 theorem C07_v1_done_without_stop: Done without a stop implies GracefulStop was called, every configured input is drained (closed and empty) and nothing is in flight; for the simplified disciplines termination implies every handler goroutine has exited, C16_simple_stop_returned_all_exited).",
        ref="5.C07", note=STD + "No axioms.",
        technique="Coq invariant + bounded-reachability proof + fake-time differential correspondence"),
    "C15": dict(
        text="Full on the v2 model: every divider call made by the discipline has an order-preserving sub-list of the configured priorities (hence distinct and, the configuration being sorted, sorted) and a dividend <= HandlersQuantity (C15_v2_contract(_sorted)); a division whose non-zero total differs from the dividend is detected (C15_v2_bad_sum_detected), after which nothing more is delivered and only Drain/Done follow (C15_v2_fault_stops), capacity still holds (C01 is proved for arbitrary dividers) and the discipline terminates with the error once the outstanding releases have arrived (C15_v2_drain_terminates); the constructor rejects a bad division and any configuration with a zero share (C15_new_rejects_*; regression theorem about the pinned code). Tied to v2 and v1 by exact comparison of divider-call arguments, error value and deliveries under fault injection at a random call (surplus inside or OUTSIDE the sub-list the divider was called with); contract and fail-safe clauses monitored.",
        ref="5.C15, 6 (D2)", note=STD + "No axioms. A divider that returns an all-zero distribution is accepted by design (the Go code's `after == 0` escape).",
        technique="Coq invariant over a call-indexed arbitrary divider + fault-injection differential correspondence"),
    "C03": dict(
        text="Full, unbounded on the model: for every accepted event trace of the join/unite program-counter machine (all three variants; ticks at arbitrary instants, arbitrary consumer delays, copy and no-copy) the concatenation of the emitted slices plus what the machine still holds equals the concatenation of the received items (C03_join_concat_prefix), hence equality at termination; no slice is empty, join slices have at most JoinSize elements, a unite slice exceeds JoinSize only if it is one forwarded input slice of at least JoinSize. The machine is tied to v2 join, v2 unite and v1 join by exact comparison of fake-time traces (testing/synctest) on random timed scenarios, and the clauses are monitored on the implementation.",
        ref="5.C03", note=STD + "No axioms. Modelled, not verified: Go channel/select/ticker semantics as in DESIGN.md section 4; v1 Stop events are excluded from C03 (covered by C16).",
        technique="Coq invariant proof over a pc-machine + fake-time differential correspondence"),
    "C04": dict(
        text="Full, unbounded on the model: for every accepted timed trace of the limit machine (arbitrary arrival times, arbitrary consumer delays, arbitrary wake latencies >= 0) the number of writes by time tau is at most Quantity*(floor((tau-t0)/Interval)+1) and every window [a,a+W] holds at most Quantity*(floor(W/Interval)+2) writes (C04_cumulative, C04_window; the +2 is tight). Output events are the discipline's writes; the cumulative bound therefore also holds for any consumer's receive times. Tied to v2/limit by exact fake-time trace comparison; both bounds monitored on the implementation (the window bound for consumers that do not pause).",
        ref="5.C04", note=STD + "No axioms. Assumes time.Sleep never returns early and a monotone clock.",
        technique="Coq invariant proof over a timed pc-machine + fake-time differential correspondence"),
    "C08": dict(
        text="Partial (memory is abstracted to the model's buffer field): proved for every state/trace that while the consumer owns a no-copy slice (from the write until the release) the only enabled steps are the release, the recording of a Stop call and (v1) giving up the wait, none of which writes the buffer or emits; that in v1 after a Stop before the release the buffer is never written and nothing is emitted in any continuation (C08_unreleased_forever); that copy mode never waits for a release. That copy-mode outputs are freshly allocated and never touched is decided by the correspondence on the aliasing pattern of base pointers and by monitors: retained slices are overwritten by the consumer and re-read after further traffic, timeouts and (v1) Stop.",
        ref="5.C08", note=STD + "No axioms. Trusted: slices.Clone allocates fresh memory, append within capacity does not reallocate (both observed through the pointer projection).",
        technique="Coq structural lemmas over the pc-machine + pointer-alias correspondence + retained-slice monitors"),
    "C09": dict(
        text="Full on the model: without a timeout the output of join is exactly the chunking of the input into JoinSize pieces and the output of unite is exactly the independent greedy specification (C09_*_greedy_untimed, with uniqueness of the chunking); with ticks every emission carries its cause and Full/Overflow/Forwarded emissions are maximal (C09_cause_sound); a slice cut short by the timeout is written no earlier than Timeout after every earlier write and after creation (C09_short_not_early), for all traces. Tied to the three implementations by exact fake-time comparison of slice lengths and inter-delivery gaps; monitored with a sound lower bound of the previous write time.",
        ref="5.C09", note=STD + "No axioms. 'Delivered' is the discipline's write to the output (in no-copy mode the timeout is counted from the release, which is later).",
        technique="Coq refinement to a greedy specification + timed invariant + fake-time differential correspondence"),
    "C10": dict(
        text="Full on the timed model under the stated environment hypotheses: with an ideal ticker (every grid tick taken in time order) and a consumer/releaser that never makes the discipline wait, every element is written at most Timeout + interval after it was accepted, for every arrival pattern (C10_residence_bound), and interval*floor(100/inaccuracy) <= Timeout, i.e. Timeout+interval <= Timeout*(1+1/floor(100/inaccuracy)) (C10_interval_bound_sum); constructor error cases characterised. Tied to the implementations by exact fake-time comparison of per-element residence times; bound monitored in exact nanoseconds (no scheduling latency exists in the bubble).",
        ref="5.C10", note=STD + "No axioms. Real-world scheduling latency is outside the model (the property's '+ scheduling latency').",
        technique="Coq timed invariant proof + fake-time differential correspondence"),
    "C11": dict(
        text="Full on the model: for every accepted trace of the unite machine the outputs are the concatenations of consecutive groups of whole input slices covering the input in order, groups consisting only of empty slices produce nothing, and every input slice of at least JoinSize elements is an output by itself (C11_unite_grouping, C11_unite_oversize_alone), with ticks anywhere, both modes. Tied to v2 unite by exact fake-time trace comparison on slice boundaries (including producer slices with spare capacity); boundaries monitored on the implementation.",
        ref="5.C11", note=STD + "No axioms.",
        technique="Coq grouping invariant over the pc-machine + fake-time differential correspondence"),
    "C12": dict(
        text="Full on the model: what was written is always the received sequence minus at most the element being sent, and exactly the received sequence once closed; the machine closes only on seeing the input closed with nothing pending; output times are sorted; it sleeps only after exactly Quantity writes of a batch and never beyond one Interval after the batch started (no sleep at all if the batch took an Interval or more); in an eager environment element j is written at exactly t0+floor(j/Quantity)*Interval (C12_upfront_timing). Tied to v2/limit by exact fake-time trace comparison; pass-through, closure, 'no extra throttling' (element j leaves by max(arrival, predecessor, element j-Q + Interval)) and up-front timing monitored.",
        ref="5.C12", note=STD + "No axioms. Assumes time.Sleep never returns early.",
        technique="Coq invariant proofs over a timed pc-machine + fake-time differential correspondence"),
    "C13": dict(
        text="Full, unbounded: C13_recalculate/optimize/flatten proved in Coq for all of int64 x uint64 x int64 about a Z model of Recalculate (both branches, big-integer path, representability check); the model is tied to the code by comparing the whole result on boundary-structured and random 64-bit triples on every run; the property clauses are also monitored directly on the implementation.",
        ref="5.C13, 6 (D1)", note=STD + "No axioms (Closed under the global context).",
        technique="Coq theorem over Z model + extracted-model differential correspondence"),
    "C14": dict(
        text="Full except one lifting: proved in Coq for every priority list, dividend and pre-filled distribution: Fair and Rate add exactly the dividend (Rate for ANY rounding function, so independent of float64) and change nothing outside the listed priorities; Fair's increments are base+1 on a prefix and base after it; v1 = v2; Rate's increments are non-increasing for any rounding monotone in the priority (discharged for the exact rational rounding) and each is within n/2 of the exact proportional share for any rounding within 1/2 (C14_rate_close, literal bound) -- discharged for the exact rounding and for the float64 computation itself on d,S,p < 2^53, d*p <= 2^50 (C14_part_f_close, C14_rate_f_close, via Flocq). float64 and exact rounding differ only at exact halves, by one downwards (C14_part_f_near_part_q; kernel-checked witness part_f 1 98 49 = 0). Missing: the order theorem instantiated for float64 (monotonicity of part_f is proved only on the bounded domain). The float64 model is compared bit-exactly with Go on an exhaustive small sub-space and random large magnitudes on every run, for both versions.",
        ref="5.C14, 11.2", note=STD + "The conservation/shape/order theorems are closed under the global context; theorems that mention float64 depend on the four standard-library axioms Flocq's Reals bring in. " + FLOCQ,
        technique="Coq theorems over assoc-list model (parametric in the rounding) + Flocq error analysis + executable model compared with Go"),
    "C18": dict(
        text="Full for the combinatorial part: genCombinations enumerates exactly the non-empty order-preserving sub-lists (2^n-1), IsNonFatalConfig iff every member of every such sub-list gets >=1, PickUpMin/Max return the least/greatest q in [1,max] satisfying the predicate or 0, IsSuitableConfig => IsNonFatalConfig, monotone in the limit (given monotonicity of float64 '>' in its right argument, stated as a hypothesis), non-fatal => accepted by the v2 constructor for any dividend-conserving divider. Proved for all inputs. Model tied to both module versions by exact comparison of every helper, including composite scenarios that return the predicate for every q in [1,max]; clauses also monitored against an independent Python definition.",
        ref="5.C18, 6 (D2)", note=STD + FLOCQ,
        technique="Coq theorems over list model + extracted-model differential correspondence (v1 and v2)"),
    "C16": dict(
        text="Safety and stop-preferring liveness on the models: v1 priority: what was delivered is an in-order subsequence of what was read, the gaps being exactly the items dropped by a stop-interrupted send (C16_delivered_subsequence, C02_v1_read_accounting); Done enables nothing; once stopped the scheduler is never blocked and, resolving every select in favour of the stop alternative, the REPAIRED loop reaches Done within 4n+10 own steps from every state, while the PINNED loop provably spins for ever between Calc and WaitFb with all handlers busy (C16_stop_terminates, C16_stop_spins_old); v1 join: once stopped the stop alternative is enabled at every blocking point and, taking it, the goroutine closes its output within six of its own steps from ANY state, emitting nothing (C16_join_stop_*); a slice left unreleased by a stop is never written again (C08_unreleased_forever). v1 Simple: process structure of main with its deferred calls and the handlers: when Stop()/GracefulStop() has returned every handler goroutine has exited (no Handle running, none will start), the repaired main is blocked under a stop only while it waits for the inner discipline or for handlers to leave, and the pinned main was deaf to Stop during a pending GracefulStop (kernel-checked witness) (C16_simple_*). The v1 priority model is compared exactly with the code for Stop/cancel injected at random settled points of add/remove/traffic scripts; monitors: Stop/cancel complete (a hang of the harness is the verdict), Stop returns at the instant it is called (join), output closed on return (join), nothing written after, delivered is an in-order duplicate-free subsequence, no Handle running after Stop (Simple, incl. overlapping Stop calls and Stop during GracefulStop). Two genuine defects found and repaired (D3, D5). Probability-1 termination under Go's random select is not expressed.",
        ref="5.C16, 11.3", note=STD + "No axioms. Go's random choice among ready select cases is an oracle (all resolutions for join Stop; stop-preferring resolution for liveness).",
        technique="Coq pc-machine proofs (stop alternatives, bounded stop run, process-structure invariant) + fake-time differential correspondence with trace inclusion + hang watchdog"),
    "C17": dict(
        text="Full (safety) on the v1 model, for every divider, every select resolution and every interleaving of traffic, releases, AddInput/RemoveInput and Stop: after the loop has taken AddInput(ch,p) -- the moment the API call returns -- ch is registered under p with Drained reset, p is configured exactly once, the list stays sorted and the strategic distribution is recomputed (C17_add_effect/_sorted); after RemoveInput(p) nothing is registered under p while its in-flight count is kept (C17_remove_effect); every item read was read from the channel registered under the priority it is tagged with at that moment, and a channel that is not registered is never read (C17_read_registered, C17_unregistered_not_read, C17_tagged); capacity, per-channel consumed-prefix/exactly-once-of-everything-read and graceful termination hold across any sequence of additions and removals (C01_v1_*, C02_v1_*, C07_v1_done_without_stop). Tied to the code by exact comparison of deliveries, per-channel consumption, pending API calls and the scheduling state after every operation of add/replace/remove/re-add scripts; monitors: tags against the registration in force when the item was read, no read of an unregistered channel, capacity, graceful completion.",
        ref="5.C17", note=STD + "No axioms. One channel is never registered under two priorities at once; AddInput/RemoveInput after termination panic (documented misuse) and are excluded.",
        technique="Coq inductive invariants over the v1 pc-machine with channel identities + fake-time differential correspondence"),
    "C19": dict(
        text="Partial: proved on the models that the terminal program counter of every discipline enables no further step (C19_*_final) and that at termination of the v2 simplified discipline no handler holds an item and the output is empty, so every handler goroutine leaves its loop (C19_simple2_handlers_exit); the set of `go` statements of the seven discipline packages, regenerated from the source on every run, equals the models' goroutines (C19_goroutines, by computation in the kernel). That no goroutine is left over is observed, not proved: after every scenario -- normal, graceful, Stop, cancel, divider-fault termination, and after each of two overlapping Stop/GracefulStop calls of the v1 simplified discipline returned -- the harness waits for quiescence and counts goroutines created by library code; the synctest bubble refuses to end while one is blocked.",
        ref="5.C19", note=STD + "No axioms. Trusted: tools/racefacts (Go AST -> Facts.v), the runtime's goroutine dump.",
        technique="Coq structural lemmas + generated goroutine table checked by computation + goroutine accounting in a synctest bubble"),
    "C20": dict(
        text="Partial: data-race freedom of Go code is not expressible without a mechanised Go memory model; what is proved is confinement, over a model regenerated from the source on every run: tools/racefacts translates the seven discipline packages into a table (fields with kinds, per-function reads/writes, call graph, go statements, exported entry points) and the kernel re-checks C20_table: every plain field written after construction is accessed from exactly one single-instance goroutine (C20_no_conflicting_access states what that means; C20_checker_sound is the checker's soundness for any table). The dynamic tie and the search for a concrete failing input: free-running stress of the documented concurrent use of every discipline of both versions under the race detector (handlers receiving/releasing, control methods from other goroutines, consumers keeping and modifying copy-mode slices, a unite producer that keeps reading what it sent).",
        ref="5.C20", note=STD + "No axioms. Trusted: tools/racefacts, the Go memory-model facts (channel send happens-before receive, `go` happens-before the goroutine's start, sync objects are race-free), the race detector. User-visible slice memory is C08's subject.",
        technique="source-to-Coq translator + kernel-checked confinement + race-detector stress"),
}

PLANNED = ["C01", "C02", "C03", "C04", "C05", "C06", "C07", "C08", "C09", "C10", "C11", "C12", "C15", "C16", "C17", "C19", "C20"]


def main():
    checks = []
    for pid in sorted(CLAIMED):
        c = CLAIMED[pid]
        checks.append({
            "property_id": pid,
            "quick_cmd": "./check %s --tier quick" % pid,
            "thorough_cmd": "./check %s --tier thorough" % pid,
            "evidence_file": "evidence/%s.json" % pid,
            "replay_cmd_template": "./check %s --replay {path}" % pid,
            "engine": "coq-proofs",
            "level_claimed": {"category": "proof", "text": c["text"], "design_ref": c["ref"]},
            "level_note": c["note"],
            "technique": c["technique"],
        })
    served = sorted(CLAIMED)
    hooks_commits = [l.strip() for l in open(os.path.join(ROOT, "MANIFEST.hooks"))] if os.path.exists(os.path.join(ROOT, "MANIFEST.hooks")) else []
    hooks_commits = [l.split()[0] for l in hooks_commits if l and not l.startswith("#")]
    man = {
        "version": 1,
        "setup_cmd": "./setup.sh",
        "hooks": {"guard": "verif", "enable": "-tags verif (go1.26 test -c -tags verif in the harness modules)",
                  "baseline_off_cmd": BASELINE, "source_commits": hooks_commits, "add_only": True},
        "engines": [
            {"name": "coq-proofs", "path": "coq/", "serves_properties": served,
             "kind_free_text": "Coq 8.16.1 development: hand-written Gallina models + theorems (Properties.v), assumption audit per run"},
            {"name": "extracted-model", "path": "extract/", "serves_properties": served,
             "kind_free_text": "OCaml extraction of Run.run + driver; the model side of the correspondence check"},
            {"name": "go-harness", "path": "harness/", "serves_properties": served,
             "kind_free_text": "Go 1.26 test binaries running the real library code on the same scenarios (synctest bubble for timed/concurrent ones)"},
        ],
        "checks": checks,
        "not_applicable": [{"property_id": p, "reason": "not yet built in this revision (planned, DESIGN.md section 5)"}
                           for p in PLANNED if p not in CLAIMED],
        "notes": "See DESIGN.md. Checks are built incrementally; properties listed under not_applicable with reason 'not yet built' are planned (DESIGN.md section 5).",
    }
    json.dump(man, open(os.path.join(ROOT, "MANIFEST.json"), "w"), indent=1)
    print("MANIFEST.json: %d checks, %d not_applicable" % (len(checks), len(man["not_applicable"])))


if __name__ == "__main__":
    main()
