#!/usr/bin/env python3
import random, sys, os
sys.path.insert(0, os.path.dirname(os.path.dirname(os.path.abspath(__file__))))
from lib import core, prio
n = int(sys.argv[1]); seed = int(sys.argv[2]) if len(sys.argv) > 2 else 1
fault = len(sys.argv) > 3
rng = random.Random(seed)
print(core.coq_make()[0], core.build_model_driver())
b, out = core.build_harness("v2")
if b is None: print(out); sys.exit(1)
scs = [prio.gen_prio2_scenario(rng, "quick", fault=fault and rng.random() < 0.5) for _ in range(n)]
impl = core.run_impl(b, [s.enc for s in scs], tag="devp")
model = core.run_model([s.enc for s in scs])
bad = 0
from collections import Counter
verd = Counter()
for s, ir, mr in zip(scs, impl, model):
    verd[ir.verdict] += 1
    nops = len([o for o in s.meta["ops"] if o[0] != 6])
    if ir.verdict != "ok":
        bad += 1
        if bad <= 3: print("VERDICT", ir.verdict, {k: v for k, v in s.meta.items() if k != "ops"}, ir.raw[-400:])
        continue
    it, mt = prio.PrioTrace(ir.vals, nops), prio.PrioTrace(mr, nops)
    allbuf = all(b for _, b in s.meta['cfg'])
    if not allbuf:
        it.ops = [o[:3] + o[4:] for o in it.ops]; mt.ops = [o[:3] + o[4:] for o in mt.ops]
    same = it.error == mt.error and it.ops == mt.ops and it.closed == mt.closed and it.err == mt.err and not it.noterm
    if not same:
        bad += 1
        open('/tmp/badprio.txt','a').write(' '.join(map(str,s.enc))+'\n')
        if bad <= 3:
            print("DIFF", {k: v for k, v in s.meta.items() if k != "ops"}, it.error, mt.error, (it.closed, it.err), (mt.closed, mt.err), it.noterm)
            for i, (a, b2, op) in enumerate(zip(it.ops, mt.ops, s.meta["ops"])):
                if a != b2:
                    print("  first difference at op", i, op, "impl", a, "model", b2)
                    print("  ops so far", s.meta["ops"][:i + 1])
                    break
print("scenarios", n, "bad", bad, dict(verd))
