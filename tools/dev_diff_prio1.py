#!/usr/bin/env python3
import random, sys, os
sys.path.insert(0, os.path.dirname(os.path.dirname(os.path.abspath(__file__))))
from lib import core, prio
n = int(sys.argv[1]); seed = int(sys.argv[2]) if len(sys.argv) > 2 else 1
mode = sys.argv[3] if len(sys.argv) > 3 else ""
rng = random.Random(seed)
print(core.coq_make()[0], core.build_model_driver())
b, out = core.build_harness("v1")
if b is None: print(out); sys.exit(1)
scs = [prio.gen_prio1_scenario(rng, "quick", fault=(mode == "fault" and rng.random() < 0.5), stop=(rng.choice(["stop", "cancel"]) if mode == "stop" else None)) for _ in range(n)]
impl = core.run_impl(b, [s.enc for s in scs], tag="devp1", batch_timeout=120)
model = core.run_model([s.enc for s in scs])
bad = 0
amb = 0
from collections import Counter
verd = Counter()
open('/tmp/badprio1.txt', 'w').close()
for s, ir, mr in zip(scs, impl, model):
    verd[ir.verdict] += 1
    nops = len(s.meta["ops"])
    if ir.verdict != "ok":
        bad += 1
        if bad <= 3: print("VERDICT", ir.verdict, {k: v for k, v in s.meta.items() if k != "ops"}, ir.raw[-400:])
        continue
    it, mt = prio.Prio1Trace(ir.vals, nops), prio.Prio1Trace(mr, nops)
    allbuf = all(ch < 1000 for _, ch in s.meta['cfg']) and all(o[1] < 1000 for o in s.meta['ops'] if o[0] == 8)
    if not allbuf:
        it.ops = [o[:7] for o in it.ops]; mt.ops = [o[:7] for o in mt.ops]
    if mt.error is None and (mt.ambiguous or any(o[3] >= 2 for o in it.ops + mt.ops)):
        amb += 1
        continue
    same = it.error == mt.error and it.ops == mt.ops and it.done == mt.done and it.err == mt.err and not it.noterm
    if not same:
        bad += 1
        open('/tmp/badprio1.txt', 'a').write(' '.join(map(str, s.enc)) + '\n')
        if bad <= 3:
            print("DIFF", {k: v for k, v in s.meta.items() if k != "ops"}, it.error, mt.error, (it.done, it.err), (mt.done, mt.err), it.noterm)
            for i, (a, b2, op) in enumerate(zip(it.ops, mt.ops, s.meta["ops"])):
                if a != b2:
                    print("  first difference at op", i, op, "impl", a, "model", b2)
                    print("  ops so far", s.meta["ops"][:i + 1])
                    break
print("scenarios", n, "bad", bad, "ambiguous", amb, dict(verd))
