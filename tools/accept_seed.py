#!/usr/bin/env python3
"""usage: accept_seed.py <id> <wave> <change> <needs> <detected_by>   -- files a confirmed seeded change under seeded/<id>/"""
import json, os, shutil, sys, glob
mid, wave, change, needs, det = sys.argv[1:6]
src = "/tmp/seedout/" + mid
dst = "/verif/seeded/" + mid
os.makedirs(dst, exist_ok=True)
for f in glob.glob(src + "/*"):
    if os.path.basename(f) == "BRIEF.md" or os.path.isdir(f):
        continue
    shutil.copy(f, dst)
json.dump({"property": mid[:3], "wave": int(wave), "change": change, "needs_to_manifest": needs,
           "confirmed": "tools/confirm_seed.sh in a scratch worktree: demonstration fails with the patch, both full pinned suites pass with the patch, demonstration passes without it (see confirm.log)",
           "author": "independent sub-agent given only the property text (and the earlier changes for the same property, to pick a different mechanism)",
           "detected_by": det}, open(dst + "/meta.json", "w"), indent=1)
print(sorted(os.listdir(dst)))
