#!/usr/bin/env python3
"""development aid: full-trace differential of a timed family.  usage: dev_diff.py <variant> <n> [seed]"""
import random, sys, os
sys.path.insert(0, os.path.dirname(os.path.dirname(os.path.abspath(__file__))))
from lib import core, timed
variant, n = int(sys.argv[1]), int(sys.argv[2])
seed = int(sys.argv[3]) if len(sys.argv) > 3 else 1
rng = random.Random(seed)
ok, msg = core.build_model_driver()
print("driver:", ok, msg[-500:])
ver = "v1" if variant == 2 else "v2"
b, out = core.build_harness(ver)
if b is None:
    print(out); sys.exit(1)
scs = [timed.gen_join_scenario(rng, variant, "quick") for _ in range(n)]
impl = core.run_impl(b, [s.enc for s in scs], tag="dev")
model = core.run_model([s.enc for s in scs])
bad = amb = 0
from collections import Counter
verd = Counter()
for s, ir, mr in zip(scs, impl, model):
    verd[ir.verdict] += 1
    mt = timed.JoinTrace(mr)
    if ir.verdict != "ok":
        bad += 1
        if bad <= 3: print("VERDICT", ir.verdict, s.meta, ir.raw[-300:])
        continue
    it = timed.JoinTrace(ir.vals)
    if mt.ambiguous:
        amb += 1
        continue
    same = (it.error == mt.error and it.puts == mt.puts and it.outs == mt.outs and it.tclose == mt.tclose and not it.flags and mt.finished)
    if not same:
        bad += 1
        if bad <= 4:
            print("DIFF", s.meta); print(" impl ", it.error, it.puts, it.outs, it.tclose, it.flags); print(" model", mt.error, mt.puts, mt.outs, mt.tclose, mt.finished)
print("scenarios", n, "bad", bad, "ambiguous", amb, dict(verd))
