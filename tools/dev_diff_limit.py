#!/usr/bin/env python3
import random, sys, os
sys.path.insert(0, os.path.dirname(os.path.dirname(os.path.abspath(__file__))))
from lib import core, timed
n = int(sys.argv[1]); seed = int(sys.argv[2]) if len(sys.argv) > 2 else 1
rng = random.Random(seed)
print(core.coq_make()[0], core.build_model_driver())
b, out = core.build_harness("v2")
if b is None: print(out); sys.exit(1)
scs = [timed.gen_limit_scenario(rng, "quick") for _ in range(n)]
impl = core.run_impl(b, [s.enc for s in scs], tag="devl")
model = core.run_model([s.enc for s in scs])
bad = 0
for s, ir, mr in zip(scs, impl, model):
    if ir.verdict != "ok":
        bad += 1; print("VERDICT", ir.verdict, s.meta, ir.raw[-300:]); continue
    it, mt = timed.LimitTrace(ir.vals), timed.LimitTrace(mr)
    if not (it.error == mt.error and it.puts == mt.puts and it.outs == mt.outs and it.tclose == mt.tclose and mt.finished):
        bad += 1
        if bad <= 4: print("DIFF", s.meta); print(" impl ", it.puts, it.outs, it.tclose); print(" model", mt.puts, mt.outs, mt.tclose, mt.finished)
print("scenarios", n, "bad", bad)
