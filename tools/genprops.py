import subprocess,re,sys,json
items = json.load(open(sys.argv[1]))
imports = sys.argv[2]
src = imports + "\nSet Printing Width 110.\n" + "\n".join('Goal True. idtac "@@%s". exact I. Qed.\nCheck @%s.' % (n, l) for n, l in items) + '\nGoal True. idtac "@@END". exact I. Qed.\n'
open('/tmp/GenProps.v','w').write(src)
p = subprocess.run(['coqc','-Q','/verif/coq/theories','Cqos','/tmp/GenProps.v'],capture_output=True,text=True)
out = p.stdout + p.stderr
if p.returncode != 0:
    print(out[-3000:]); sys.exit(1)
blocks = re.split(r"@@(\S+)", out)
res = []
for i in range(1, len(blocks)-1, 2):
    name, text = blocks[i], blocks[i+1]
    if name == "END": break
    lemma = dict(items)[name]
    # text: "\n@lemma\n     : type\n"
    m = re.search(r"\n\s+: ", text)
    ty = text[m.end():].strip()
    res.append("Theorem %s :\n  %s.\nProof. exact @%s. Qed.\nPrint Assumptions %s.\n" % (name, ty.replace("\n", "\n  "), lemma, name))
print("\n".join(res))
