#!/bin/sh
# usage: tools/try_seed.sh <patch.diff> <Cnn> [<Cnn>...]  -- apply a seeded change to the repository under test (VERIF_REPO, default
# /repo), run the quick checks, undo it
patch="$1"; shift
V="$(cd "$(dirname "$0")/.." && pwd)"
R="${VERIF_REPO:-/repo}"
cd "$R" || exit 2
if git rev-parse --git-dir >/dev/null 2>&1 && ! git diff --quiet; then echo "$R has local changes"; exit 2; fi
git apply "$patch" || { echo "patch does not apply"; exit 2; }
cd "$V"
for p in "$@"; do
  timeout 1800 ./check "$p" --tier "${TIER:-quick}" 2>&1 | tail -4
  echo "exit=$?"
done
(cd "$R" && git apply -R "$patch") || echo "COULD NOT REVERT $patch in $R"
# the runs above rewrote generated files and evidence from the patched tree: restore the committed ones
git -C "$V" checkout -- coq/theories/Facts.v coq/theories/SrcConsts.v coq/theories/BlockFacts.v coq/gotrans_index.json evidence 2>/dev/null
for f in "$V"/coq/theories/Gen[A-Z]*.v; do case "$f" in *GenTie*) ;; *) git -C "$V" checkout -- "$f" 2>/dev/null;; esac; done
