#!/bin/sh
# usage: tools/try_seed.sh <patch.diff> <Cnn> [<Cnn>...]  -- apply a seeded change to /repo, run the quick checks, undo it
patch="$1"; shift
cd /repo || exit 2
if ! git diff --quiet; then echo "/repo has local changes"; exit 2; fi
git apply --3way "$patch" 2>/dev/null || git apply "$patch" || { echo "patch does not apply"; exit 2; }
git reset -q
cd /verif
for p in "$@"; do
  timeout 1800 ./check "$p" --tier "${TIER:-quick}" 2>&1 | tail -4
  echo "exit=$?"
done
git -C /repo checkout -- . && git -C /repo clean -fdq
# the runs above rewrote generated files and evidence from the patched tree: restore the committed ones
git -C /verif checkout -- coq/theories/Facts.v coq/theories/SrcConsts.v coq/theories/BlockFacts.v evidence 2>/dev/null
for f in /verif/coq/theories/Gen[A-Z]*.v /verif/coq/gotrans_index.json; do case "$f" in *GenTie*) ;; *) git -C /verif checkout -- "$f" 2>/dev/null;; esac; done
