#!/bin/bash
# usage: confirm_seed.sh <id> <worktree> <pattern> "<module-relative dir>:<pkgs>" ...
# Confirms a seeded change independently of the state the agent left its worktree in: the tracked files are reset, the delivered
# patch.diff is applied explicitly (no `git stash`: refs/stash is shared by all worktrees of a repository), the untracked
# demonstration files stay where the agent put them.
export GOFLAGS=-mod=mod GOPROXY=off GOSUMDB=off GOTOOLCHAIN=local
id="$1"; wt="$2"; pat="$3"; shift 3
patch=/tmp/seedout/$id/patch.diff
log=/tmp/seedout/$id/confirm.log; : > $log
(cd "$wt" && git checkout -q -- . && git apply "$patch") >> $log 2>&1 || { echo "RESULT patch_applies=NO" | tee -a $log; exit 1; }
echo "RESULT patch_applies=YES ($(cd $wt && git diff --stat | tail -1))" >> $log
demo() { rc=0; for spec in "$@"; do dir="${spec%%:*}"; pk="${spec#*:}"; (cd "$wt/$dir" && go test -vet=off -count=1 -timeout 10m -run "$pat" $pk) >> $log 2>&1 || rc=1; done; return $rc; }
echo "== demo with patch (expect FAIL)" >> $log
if demo "$@"; then echo "RESULT demo_with_patch=PASS(unexpected)" >> $log; else echo "RESULT demo_with_patch=FAIL(expected)" >> $log; fi
echo "== full suites with patch, demo skipped (expect PASS)" >> $log
s=0
(cd $wt && go test -vet=off -count=1 -timeout 25m -skip "$pat" ./...) >> $log 2>&1 || s=1
(cd $wt/v2 && go test -vet=off -count=1 -timeout 25m -skip "$pat" ./...) >> $log 2>&1 || s=1
echo "RESULT suites_with_patch=$([ $s = 0 ] && echo PASS || echo FAIL)" >> $log
(cd "$wt" && git apply -R "$patch") || exit 1
echo "== demo without patch (expect PASS)" >> $log
if demo "$@"; then echo "RESULT demo_without_patch=PASS(expected)" >> $log; else echo "RESULT demo_without_patch=FAIL(unexpected)" >> $log; fi
(cd "$wt" && git apply "$patch")
grep RESULT $log
