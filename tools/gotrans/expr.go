package main

import (
	"bytes"
	"fmt"
	"go/ast"
	"go/constant"
	"go/printer"
	"go/token"
	"go/types"
	"math/big"
	"strings"
)

// exprAs translates e where a value of type want is expected (nil and untyped constants take that type)
func (t *ftr) exprAs(e ast.Expr, want *ctype) (string, *ctype, error) {
	if want != nil {
		if id, ok := ast.Unparen(e).(*ast.Ident); ok && id.Name == "nil" {
			if _, isNil := t.info.Uses[id].(*types.Nil); isNil {
				return want.zero(t.u), want, nil
			}
		}
	}
	return t.expr(e)
}

func (t *ftr) typeOf(e ast.Expr) (*ctype, error) {
	tv, ok := t.info.Types[e]
	if !ok || tv.Type == nil {
		return nil, t.posErr(e, "no type information")
	}
	ty, err := t.u.ctype(tv.Type)
	if err != nil {
		return nil, t.posErr(e, "%v", err)
	}
	return ty, nil
}

func nLit(v constant.Value) (string, bool) {
	i, ok := constant.Val(constant.ToInt(v)).(*big.Int)
	if !ok {
		if x, ok := constant.Val(constant.ToInt(v)).(int64); ok {
			i = big.NewInt(x)
		} else {
			return "", false
		}
	}
	return i.String(), true
}

func (t *ftr) constLit(e ast.Expr, v constant.Value, ty *ctype) (string, error) {
	switch ty.k {
	case kN:
		s, ok := nLit(v)
		if !ok || strings.HasPrefix(s, "-") {
			return "", t.posErr(e, "unsupported constant %s", v)
		}
		return s + "%N", nil
	case kZ, kBig:
		s, ok := nLit(v)
		if !ok {
			return "", t.posErr(e, "unsupported constant %s", v)
		}
		if strings.HasPrefix(s, "-") {
			return "(" + s + ")%Z", nil
		}
		return s + "%Z", nil
	case kBool:
		if constant.BoolVal(v) {
			return "true", nil
		}
		return "false", nil
	case kFloat:
		t.u.needFloat = true
		iv := constant.ToInt(v)
		if iv.Kind() != constant.Int {
			return "", t.posErr(e, "unsupported float64 constant %s (only integral values)", v)
		}
		s, _ := nLit(iv)
		if strings.HasPrefix(s, "-") {
			return "of_Z (" + s + ")%Z", nil
		}
		return "of_Z " + s + "%Z", nil
	}
	return "", t.posErr(e, "unsupported constant of this type")
}

// expr translates an expression; calls inside it are moved to the prelude of the statement
func (t *ftr) expr(e ast.Expr) (string, *ctype, error) {
	if sv, ok := t.subst[e]; ok {
		if len(sv.texts) != 1 {
			return "", nil, t.posErr(e, "call with %d results in an expression", len(sv.texts))
		}
		return sv.texts[0], sv.tys[0], nil
	}
	if tv, ok := t.info.Types[e]; ok && tv.Value != nil {
		ty, err := t.typeOf(e)
		if err != nil {
			return "", nil, err
		}
		s, err := t.constLit(e, tv.Value, ty)
		return s, ty, err
	}
	switch x := e.(type) {
	case *ast.ParenExpr:
		return t.expr(x.X)
	case *ast.Ident:
		return t.ident(x)
	case *ast.SelectorExpr:
		if sel, ok := t.info.Selections[x]; ok {
			if sel.Kind() != types.FieldVal {
				return "", nil, t.posErr(e, "method values are not supported")
			}
			base, bt, err := t.expr(x.X)
			if err != nil {
				return "", nil, err
			}
			if bt.k != kRecord || len(sel.Index()) != 1 {
				return "", nil, t.posErr(e, "unsupported field selection")
			}
			fd := bt.rec.field(x.Sel.Name)
			if fd == nil {
				return "", nil, t.posErr(e, "unknown field %s", x.Sel.Name)
			}
			return app(fd.coq, base), fd.t, nil
		}
		return t.ident(x.Sel)
	case *ast.StarExpr:
		return t.expr(x.X)
	case *ast.IndexExpr:
		base, bt, err := t.expr(x.X)
		if err != nil {
			return "", nil, err
		}
		idx, it, err := t.expr(x.Index)
		if err != nil {
			return "", nil, err
		}
		switch bt.k {
		case kMap:
			return app("mget", bt.elem.zero(t.u), base, idx), bt.elem, nil
		case kList:
			return app("lnth", bt.elem.zero(t.u), base, toNat(idx, it)), bt.elem, nil
		}
		return "", nil, t.posErr(e, "unsupported index expression")
	case *ast.SliceExpr:
		base, bt, err := t.expr(x.X)
		if err != nil {
			return "", nil, err
		}
		if bt.k != kList || x.Slice3 {
			return "", nil, t.posErr(e, "unsupported slice expression")
		}
		lo, hi := "0", app("length", base)
		if x.Low != nil {
			l, lt, err := t.expr(x.Low)
			if err != nil {
				return "", nil, err
			}
			lo = toNat(l, lt)
		}
		if x.High != nil {
			if tv, ok := t.info.Types[x.High]; ok && tv.Value != nil && constant.Sign(tv.Value) == 0 && x.Low == nil {
				return "[]", bt, nil // x[:0]
			}
			h, ht, err := t.expr(x.High)
			if err != nil {
				return "", nil, err
			}
			hi = toNat(h, ht)
		}
		return app("lslice", base, lo, hi), bt, nil
	case *ast.UnaryExpr:
		switch x.Op {
		case token.NOT:
			a, _, err := t.expr(x.X)
			if err != nil {
				return "", nil, err
			}
			return app("negb", a), tBool, nil
		case token.SUB:
			a, ty, err := t.expr(x.X)
			if err != nil {
				return "", nil, err
			}
			switch ty.k {
			case kZ:
				return app("i_neg", a), ty, nil
			case kFloat:
				return app("fneg", a), ty, nil
			case kN:
				return app("u_sub", "0%N", a), ty, nil
			}
		case token.ADD:
			return t.expr(x.X)
		case token.AND:
			// &T{...} or &x: the value itself (pointers to structs of the modules are passed by value and written back)
			a, ty, err := t.expr(x.X)
			if err != nil {
				return "", nil, err
			}
			if ty.k == kRecord {
				return a, &ctype{k: kRecord, rec: ty.rec, ptr: true}, nil
			}
		}
		return "", nil, t.posErr(e, "unsupported unary operator %s", x.Op)
	case *ast.BinaryExpr:
		return t.binary(x)
	case *ast.CallExpr:
		rs, tys, err := t.call(x)
		if err != nil {
			return "", nil, err
		}
		if len(rs) != 1 {
			return "", nil, t.posErr(e, "call with %d results in an expression", len(rs))
		}
		return rs[0], tys[0], nil
	case *ast.CompositeLit:
		return t.composite(x)
	}
	return "", nil, t.posErr(e, "unsupported expression %T", e)
}

func (t *ftr) ident(id *ast.Ident) (string, *ctype, error) {
	obj := t.info.Uses[id]
	if obj == nil {
		obj = t.info.Defs[id]
	}
	switch o := obj.(type) {
	case *types.Nil:
		ty, err := t.typeOf(id)
		if err != nil {
			return "", nil, err
		}
		if tv := t.info.Types[id]; types.Unalias(tv.Type) == types.Typ[types.UntypedNil] {
			return "", nil, t.posErr(id, "nil of unknown type")
		}
		return ty.zero(t.u), ty, nil
	case *types.Var:
		if lv, ok := t.vars[o]; ok {
			return lv.proj + " v", lv.t, nil
		}
		if o.Parent() == o.Pkg().Scope() {
			ty, err := t.u.ctype(o.Type())
			if err != nil {
				return "", nil, t.posErr(id, "%v", err)
			}
			if ty.k == kErr {
				return "Some " + t.u.errCtor(o), ty, nil
			}
			return "", nil, t.posErr(id, "package-level variable %s", o.Name())
		}
		return "", nil, t.posErr(id, "unknown variable %s", o.Name())
	case *types.Func:
		return "", nil, t.posErr(id, "function %s used as a value", o.Name())
	}
	return "", nil, t.posErr(id, "unsupported identifier %s", id.Name)
}

// errCtor registers a package-level error variable as a constructor of the unit's error type
func (u *unit) errCtor(o *types.Var) string {
	key := o.Pkg().Path() + "." + o.Name()
	if c, ok := u.errOf[key]; ok {
		return c
	}
	name := o.Name()
	if u.names[name] {
		name = o.Pkg().Name() + "_" + name
	}
	c := u.fresh(name)
	u.errOf[key] = c
	u.errs = append(u.errs, c)
	u.needErr = true
	return c
}

func isLenCall(info *types.Info, e ast.Expr) (*ast.CallExpr, bool) {
	call, ok := ast.Unparen(e).(*ast.CallExpr)
	if !ok || len(call.Args) != 1 {
		return nil, false
	}
	id, ok := ast.Unparen(call.Fun).(*ast.Ident)
	if !ok {
		return nil, false
	}
	b, ok := info.Uses[id].(*types.Builtin)
	return call, ok && b.Name() == "len"
}

// lenN translates len(x) as a number of type N
func (t *ftr) lenN(call *ast.CallExpr) (string, error) {
	x, xt, err := t.expr(call.Args[0])
	if err != nil {
		return "", err
	}
	switch xt.k {
	case kList:
		return app("len", x), nil
	case kMap:
		return app("mlen", x), nil
	}
	return "", t.posErr(call, "len of this type is not supported")
}

func (t *ftr) binary(x *ast.BinaryExpr) (string, *ctype, error) {
	// comparisons of len(...) with a non-negative constant are done in N
	switch x.Op {
	case token.EQL, token.NEQ, token.LSS, token.LEQ, token.GTR, token.GEQ:
		for _, sw := range []bool{false, true} {
			l, r := x.X, x.Y
			if sw {
				l, r = r, l
			}
			if call, ok := isLenCall(t.info, l); ok {
				if tv := t.info.Types[r]; tv.Value != nil && constant.Sign(constant.ToInt(tv.Value)) >= 0 {
					ls, err := t.lenN(call)
					if err != nil {
						return "", nil, err
					}
					c, _ := nLit(tv.Value)
					a, b := ls, c+"%N"
					if sw {
						a, b = b, a
					}
					s, err := t.compare(x, x.Op, a, b, tN)
					return s, tBool, err
				}
			}
		}
	}
	// comparison with nil
	if x.Op == token.EQL || x.Op == token.NEQ {
		for _, pair := range [][2]ast.Expr{{x.X, x.Y}, {x.Y, x.X}} {
			if id, ok := ast.Unparen(pair[1]).(*ast.Ident); ok && id.Name == "nil" {
				if _, isNil := t.info.Uses[id].(*types.Nil); isNil {
					a, ty, err := t.expr(pair[0])
					if err != nil {
						return "", nil, err
					}
					switch ty.k {
					case kMap, kErr, kOpaque, kDiv1, kDiv2:
					default:
						return "", nil, t.posErr(x, "comparison of this type with nil is not supported")
					}
					s := app("is_nil", a)
					if x.Op == token.NEQ {
						s = app("negb", s)
					}
					return s, tBool, nil
				}
			}
		}
	}
	if x.Op == token.LAND || x.Op == token.LOR {
		a, _, err := t.expr(x.X)
		if err != nil {
			return "", nil, err
		}
		// calls of the right operand happen only if the left operand does not decide
		saved := t.pre
		t.pre = nil
		b, _, err := t.expr(x.Y)
		rpre := t.pre
		t.pre = saved
		if err != nil {
			return "", nil, err
		}
		if len(rpre) == 0 {
			if x.Op == token.LAND {
				return app("andb", a, b), tBool, nil
			}
			return app("orb", a, b), tBool, nil
		}
		for _, p := range rpre {
			if p.close != "" {
				return "", nil, t.posErr(x, "a call that needs fuel in the right operand of %s", x.Op)
			}
		}
		t.tmp++
		name := fmt.Sprintf("t%d", t.tmp)
		inner := wrapPre(rpre, "(v, "+b+")")
		var open string
		if x.Op == token.LAND {
			open = fmt.Sprintf("let '(v, %s) := (if %s then\n%s\n  else (v, false)) in", name, a, indent(inner, 4))
		} else {
			open = fmt.Sprintf("let '(v, %s) := (if %s then (v, true) else\n%s) in", name, a, indent(inner, 4))
		}
		t.pre = append(t.pre, preItem{open: open})
		return name, tBool, nil
	}
	a, at, err := t.expr(x.X)
	if err != nil {
		return "", nil, err
	}
	b, bt, err := t.exprAs(x.Y, at)
	if err != nil {
		return "", nil, err
	}
	if at.k != bt.k {
		return "", nil, t.posErr(x, "operands of different kinds")
	}
	switch x.Op {
	case token.EQL, token.NEQ, token.LSS, token.LEQ, token.GTR, token.GEQ:
		s, err := t.compare(x, x.Op, a, b, at)
		return s, tBool, err
	}
	s, err := t.arith(x, x.Op, a, b, at)
	return s, at, err
}

func (t *ftr) compare(n ast.Node, op token.Token, a, b string, ty *ctype) (string, error) {
	var eq, lt, le string
	switch ty.k {
	case kN:
		eq, lt, le = "N.eqb", "N.ltb", "N.leb"
	case kZ, kBig:
		eq, lt, le = "Z.eqb", "Z.ltb", "Z.leb"
	case kFloat:
		t.u.needFloat = true
		switch op {
		case token.EQL:
			return app("feq", a, b), nil
		case token.NEQ:
			return app("negb", app("feq", a, b)), nil
		case token.LSS:
			return app("flt", a, b), nil
		case token.LEQ:
			return app("fle", a, b), nil
		case token.GTR:
			return app("fgt", a, b), nil
		case token.GEQ:
			return app("fge", a, b), nil
		}
	case kBool:
		switch op {
		case token.EQL:
			return app("Bool.eqb", a, b), nil
		case token.NEQ:
			return app("xorb", a, b), nil
		}
	case kErr:
		f := t.u.errType() + "_eqb"
		switch op {
		case token.EQL:
			return app(f, a, b), nil
		case token.NEQ:
			return app("negb", app(f, a, b)), nil
		}
	}
	if eq == "" {
		return "", t.posErr(n, "unsupported comparison")
	}
	switch op {
	case token.EQL:
		return app(eq, a, b), nil
	case token.NEQ:
		return app("negb", app(eq, a, b)), nil
	case token.LSS:
		return app(lt, a, b), nil
	case token.LEQ:
		return app(le, a, b), nil
	case token.GTR:
		return app(lt, b, a), nil
	case token.GEQ:
		return app(le, b, a), nil
	}
	return "", t.posErr(n, "unsupported comparison")
}

func (t *ftr) arith(n ast.Node, op token.Token, a, b string, ty *ctype) (string, error) {
	var fn string
	switch ty.k {
	case kN:
		fn = map[token.Token]string{token.ADD: "u_add", token.SUB: "u_sub", token.MUL: "u_mul", token.QUO: "N.div", token.REM: "N.modulo"}[op]
	case kZ:
		fn = map[token.Token]string{token.ADD: "i_add", token.SUB: "i_sub", token.MUL: "i_mul", token.QUO: "i_div", token.REM: "Z.rem"}[op]
	case kFloat:
		t.u.needFloat = true
		fn = map[token.Token]string{token.ADD: "fadd", token.SUB: "fsub", token.MUL: "fmul", token.QUO: "fdiv"}[op]
	}
	if fn == "" {
		return "", t.posErr(n, "unsupported operator %s at this type", op)
	}
	return app(fn, a, b), nil
}

func (t *ftr) composite(x *ast.CompositeLit) (string, *ctype, error) {
	ty, err := t.typeOf(x)
	if err != nil {
		return "", nil, err
	}
	switch ty.k {
	case kRecord:
		vals := make([]string, len(ty.rec.fields))
		for i, f := range ty.rec.fields {
			vals[i] = atom(f.t.zero(t.u))
		}
		for i, el := range x.Elts {
			var fd *field
			var ve ast.Expr
			idx := i
			if kv, ok := el.(*ast.KeyValueExpr); ok {
				name := kv.Key.(*ast.Ident).Name
				fd = ty.rec.field(name)
				for j, f := range ty.rec.fields {
					if f == fd {
						idx = j
					}
				}
				ve = kv.Value
			} else {
				fd, ve = ty.rec.fields[i], el
			}
			if fd == nil {
				return "", nil, t.posErr(x, "unknown field")
			}
			if err := t.aliasCheck(ve); err != nil {
				return "", nil, err
			}
			v, _, err := t.exprAs(ve, fd.t)
			if err != nil {
				return "", nil, err
			}
			vals[idx] = atom(v)
		}
		if len(x.Elts) == 0 {
			return ty.rec.zero, ty, nil
		}
		return ty.rec.mk + " " + strings.Join(vals, " "), ty, nil
	case kList:
		parts := make([]string, len(x.Elts))
		for i, el := range x.Elts {
			if _, ok := el.(*ast.KeyValueExpr); ok {
				return "", nil, t.posErr(x, "keyed slice literal")
			}
			v, _, err := t.exprAs(el, ty.elem)
			if err != nil {
				return "", nil, err
			}
			parts[i] = v
		}
		return "[" + strings.Join(parts, "; ") + "]", ty, nil
	case kMap:
		// later entries must not repeat a key (Go rejects duplicate constant keys)
		s := "mmake"
		for _, el := range x.Elts {
			kv := el.(*ast.KeyValueExpr)
			k, _, err := t.expr(kv.Key)
			if err != nil {
				return "", nil, err
			}
			v, _, err := t.exprAs(kv.Value, ty.elem)
			if err != nil {
				return "", nil, err
			}
			s = app("mset", s, k, v)
		}
		return s, ty, nil
	}
	return "", nil, t.posErr(x, "unsupported composite literal")
}

// ---- calls

// staticCallee returns the function or method a call refers to statically (nil for function values, conversions, builtins)
func (t *ftr) staticCallee(call *ast.CallExpr) *types.Func {
	fun := ast.Unparen(call.Fun)
	switch f := fun.(type) {
	case *ast.IndexExpr:
		fun = ast.Unparen(f.X)
	case *ast.IndexListExpr:
		fun = ast.Unparen(f.X)
	}
	switch f := fun.(type) {
	case *ast.Ident:
		if o, ok := t.info.Uses[f].(*types.Func); ok {
			return o
		}
	case *ast.SelectorExpr:
		if sel, ok := t.info.Selections[f]; ok {
			if sel.Kind() == types.MethodVal {
				if o, ok := sel.Obj().(*types.Func); ok {
					return o
				}
			}
			return nil
		}
		if o, ok := t.info.Uses[f.Sel].(*types.Func); ok {
			return o
		}
	}
	return nil
}

// call translates a call; the results are names bound in the prelude (or pure terms for intrinsics)
func (t *ftr) call(call *ast.CallExpr) ([]string, []*ctype, error) {
	one := func(s string, ty *ctype, err error) ([]string, []*ctype, error) {
		if err != nil {
			return nil, nil, err
		}
		return []string{s}, []*ctype{ty}, nil
	}
	if sv, ok := t.subst[call]; ok {
		return sv.texts, sv.tys, nil
	}
	fun := ast.Unparen(call.Fun)
	// conversion
	if tv, ok := t.info.Types[fun]; ok && tv.IsType() {
		return one(t.conversion(call, tv.Type))
	}
	// builtin
	if id, ok := fun.(*ast.Ident); ok {
		if b, ok := t.info.Uses[id].(*types.Builtin); ok {
			return one(t.builtin(call, b.Name()))
		}
	}
	callee := t.staticCallee(call)
	if callee == nil {
		return t.funcValueCall(call)
	}
	if callee.Pkg() == nil {
		return nil, nil, t.posErr(call, "call of %s", callee.Name())
	}
	if !inModules(callee.Pkg().Path()) {
		return t.foreignCall(call, callee)
	}
	return t.staticCall(call, callee)
}

func (t *ftr) conversion(call *ast.CallExpr, to types.Type) (string, *ctype, error) {
	toT, err := t.u.ctype(to)
	if err != nil {
		return "", nil, t.posErr(call, "%v", err)
	}
	if len(call.Args) != 1 {
		return "", nil, t.posErr(call, "bad conversion")
	}
	if lc, ok := isLenCall(t.info, call.Args[0]); ok && toT.k == kN {
		s, err := t.lenN(lc) // uint(len(x)): a length is below 2^63
		return s, toT, err
	}
	a, from, err := t.exprAs(call.Args[0], toT)
	if err != nil {
		return "", nil, err
	}
	switch {
	case from.k == toT.k:
		return a, toT, nil
	case from.k == kZ && toT.k == kN:
		return app("u_of_i", a), toT, nil
	case from.k == kN && toT.k == kZ:
		return app("i_of_u", a), toT, nil
	case from.k == kN && toT.k == kFloat:
		t.u.needFloat = true
		return app("f_of_u", a), toT, nil
	case from.k == kZ && toT.k == kFloat:
		t.u.needFloat = true
		return app("f_of_i", a), toT, nil
	case from.k == kFloat && toT.k == kN:
		t.u.needFloat = true
		return app("u_of_f", a), toT, nil
	case from.k == kFloat && toT.k == kZ:
		t.u.needFloat = true
		return app("i_of_f", a), toT, nil
	}
	return "", nil, t.posErr(call, "unsupported conversion")
}

func (t *ftr) builtin(call *ast.CallExpr, name string) (string, *ctype, error) {
	switch name {
	case "len":
		x, xt, err := t.expr(call.Args[0])
		if err != nil {
			return "", nil, err
		}
		switch xt.k {
		case kList:
			return app("len_i", x), tZ, nil
		case kMap:
			return app("mlen_i", x), tZ, nil
		}
		return "", nil, t.posErr(call, "len of this type is not supported")
	case "append":
		x, xt, err := t.expr(call.Args[0])
		if err != nil {
			return "", nil, err
		}
		if xt.k != kList {
			return "", nil, t.posErr(call, "append to a non-slice")
		}
		if call.Ellipsis.IsValid() {
			y, _, err := t.expr(call.Args[1])
			if err != nil {
				return "", nil, err
			}
			return atom(x) + " ++ " + atom(y), xt, nil
		}
		parts := []string{}
		for _, a := range call.Args[1:] {
			v, _, err := t.exprAs(a, xt.elem)
			if err != nil {
				return "", nil, err
			}
			parts = append(parts, v)
		}
		if len(parts) == 0 {
			return x, xt, nil
		}
		return atom(x) + " ++ [" + strings.Join(parts, "; ") + "]", xt, nil
	case "make":
		ty, err := t.typeOf(call)
		if err != nil {
			return "", nil, err
		}
		switch ty.k {
		case kMap:
			return "mmake", ty, nil // the size hint is irrelevant
		case kList:
			if len(call.Args) < 2 {
				return "", nil, t.posErr(call, "make without a length")
			}
			if tv := t.info.Types[call.Args[1]]; tv.Value != nil && constant.Sign(constant.ToInt(tv.Value)) == 0 {
				return "[]", ty, nil // the capacity is irrelevant
			}
			n, nt, err := t.expr(call.Args[1])
			if err != nil {
				return "", nil, err
			}
			return app("lmake", ty.elem.zero(t.u), toNat(n, nt)), ty, nil
		}
		return "", nil, t.posErr(call, "make of a channel")
	case "min", "max":
		x, xt, err := t.expr(call.Args[0])
		if err != nil {
			return "", nil, err
		}
		for _, a := range call.Args[1:] {
			y, _, err := t.exprAs(a, xt)
			if err != nil {
				return "", nil, err
			}
			switch xt.k {
			case kN:
				x = app("N."+name, x, y)
			case kZ:
				x = app("Z."+name, x, y)
			default:
				return "", nil, t.posErr(call, "%s at this type", name)
			}
		}
		return x, xt, nil
	case "cap":
		if t.chanCap != nil {
			if tv, ok := t.info.Types[call.Args[0]]; ok {
				if _, isChan := types.Unalias(tv.Type).Underlying().(*types.Chan); isChan {
					s, err := t.chanCap(call.Args[0])
					return s, tZ, err
				}
			}
		}
		return "", nil, t.posErr(call, "cap is not modelled")
	}
	return "", nil, t.posErr(call, "builtin %s is not supported", name)
}

// calls of functions outside the two modules: the intrinsics
func (t *ftr) foreignCall(call *ast.CallExpr, callee *types.Func) ([]string, []*ctype, error) {
	one := func(s string, ty *ctype) ([]string, []*ctype, error) { return []string{s}, []*ctype{ty}, nil }
	args := func(n int) ([]string, []*ctype, error) {
		if len(call.Args) != n {
			return nil, nil, t.posErr(call, "wrong number of arguments")
		}
		var as []string
		var ts []*ctype
		for _, a := range call.Args {
			s, ty, err := t.expr(a)
			if err != nil {
				return nil, nil, err
			}
			as, ts = append(as, s), append(ts, ty)
		}
		return as, ts, nil
	}
	full := callee.Pkg().Path() + "." + callee.Name()
	sig := callee.Type().(*types.Signature)
	if sig.Recv() != nil {
		if rn := recvName(callee); callee.Pkg().Path() == "math/big" && rn == "Int" {
			return t.bigCall(call, callee.Name())
		}
		return nil, nil, t.posErr(call, "call of the foreign method %s", callee.FullName())
	}
	switch full {
	case "github.com/akramarenkov/safe.SumInt":
		as, ts, err := args(2)
		if err != nil {
			return nil, nil, err
		}
		if ts[0].k != kN {
			return nil, nil, t.posErr(call, "safe.SumInt at a signed type")
		}
		ov := callee.Pkg().Scope().Lookup("ErrValueOverflow")
		if ov == nil {
			return nil, nil, t.posErr(call, "safe.ErrValueOverflow not found")
		}
		ctor := t.u.errCtor(ov.(*types.Var))
		t.tmp++
		a, b := fmt.Sprintf("c%d_r0", t.tmp), fmt.Sprintf("c%d_r1", t.tmp)
		t.pre = append(t.pre, preItem{open: fmt.Sprintf("let '(%s, %s) := %s in", a, b, app("safe_SumInt", ctor, as[0], as[1]))})
		return []string{a, b}, []*ctype{tN, {k: kErr}}, nil
	case "math.Round":
		as, _, err := args(1)
		if err != nil {
			return nil, nil, err
		}
		t.u.needFloat = true
		return one(app("round_away", as[0]), tFloat)
	case "math.Abs":
		as, _, err := args(1)
		if err != nil {
			return nil, nil, err
		}
		t.u.needFloat = true
		return one(app("fabs", as[0]), tFloat)
	case "errors.Is":
		as, _, err := args(2)
		if err != nil {
			return nil, nil, err
		}
		t.u.needErr = true
		return one(app(t.u.errType()+"_eqb", as[0], as[1]), tBool)
	case "slices.Clone", "maps.Clone":
		as, ts, err := args(1)
		if err != nil {
			return nil, nil, err
		}
		return one(as[0], ts[0])
	case "context.Background", "context.TODO":
		return one("opaque_some", tOpaque)
	}
	return nil, nil, t.posErr(call, "call of %s", full)
}

// *big.Int: exact integers; the receiver of the arithmetic methods must be a fresh new(big.Int)
func (t *ftr) bigCall(call *ast.CallExpr, name string) ([]string, []*ctype, error) {
	one := func(s string, ty *ctype) ([]string, []*ctype, error) { return []string{s}, []*ctype{ty}, nil }
	sel := ast.Unparen(call.Fun).(*ast.SelectorExpr)
	fresh := false
	if rc, ok := ast.Unparen(sel.X).(*ast.CallExpr); ok {
		if id, ok := ast.Unparen(rc.Fun).(*ast.Ident); ok && id.Name == "new" {
			_, fresh = t.info.Uses[id].(*types.Builtin)
		}
	}
	var as []string
	for _, a := range call.Args {
		s, _, err := t.expr(a)
		if err != nil {
			return nil, nil, err
		}
		as = append(as, s)
	}
	needFresh := func() error {
		if !fresh {
			return t.posErr(call, "big.Int.%s on a receiver other than new(big.Int)", name)
		}
		return nil
	}
	switch name {
	case "SetUint64":
		if err := needFresh(); err != nil {
			return nil, nil, err
		}
		return one(app("Z.of_N", as[0]), tBig)
	case "SetInt64":
		if err := needFresh(); err != nil {
			return nil, nil, err
		}
		return one(as[0], tBig)
	case "Mul", "Add", "Sub", "Quo":
		if err := needFresh(); err != nil {
			return nil, nil, err
		}
		fn := map[string]string{"Mul": "Z.mul", "Add": "Z.add", "Sub": "Z.sub", "Quo": "Z.quot"}[name]
		return one(app(fn, as[0], as[1]), tBig)
	}
	recv, _, err := t.expr(sel.X)
	if err != nil {
		return nil, nil, err
	}
	switch name {
	case "IsUint64":
		return one(app("big_is_uint64", recv), tBool)
	case "Uint64":
		return one(app("Z.to_N", recv), tN)
	case "Sign":
		return one(app("Z.sgn", recv), tZ)
	}
	return nil, nil, t.posErr(call, "big.Int.%s is not supported", name)
}

// a call through a function value with one of the Divider signatures
func (t *ftr) funcValueCall(call *ast.CallExpr) ([]string, []*ctype, error) {
	f, ft, err := t.expr(call.Fun)
	if err != nil {
		return nil, nil, err
	}
	if ft.k != kDiv1 && ft.k != kDiv2 {
		return nil, nil, t.posErr(call, "call through a function value that is not a Divider")
	}
	var as []string
	for _, a := range call.Args {
		s, _, err := t.exprAs(a, &ctype{k: kMap, elem: tN})
		if err != nil {
			return nil, nil, err
		}
		as = append(as, s)
	}
	t.tmp++
	w := t.wvar
	name := fmt.Sprintf("c%d_m", t.tmp)
	fnName := "call_div2"
	if ft.k == kDiv1 {
		fnName = "call_div1"
	}
	t.pre = append(t.pre, preItem{open: fmt.Sprintf("let %s := %s in", name, app(fnName, f, w.proj+" v", as[0], as[1], as[2]))})
	t.pre = append(t.pre, preItem{open: fmt.Sprintf("let v := %s in", app(w.setter, app("S", w.proj+" v"), "v"))})
	after := name
	if ft.k == kDiv1 {
		after = app("div1_arg_after", as[2], name)
	}
	if isAddressable(call.Args[2]) {
		st, err := t.assignTo(call.Args[2], after)
		if err != nil {
			return nil, nil, err
		}
		t.pre = append(t.pre, preItem{open: "let v := " + st + " in"})
	}
	if ft.k == kDiv1 {
		return []string{name}, []*ctype{{k: kMap, elem: tN}}, nil
	}
	return nil, nil, nil
}

func sameType(a, b *ctype) bool {
	if a.k != b.k {
		return false
	}
	switch a.k {
	case kList, kMap:
		return sameType(a.elem, b.elem)
	case kRecord:
		return a.rec == b.rec
	case kTuple:
		if len(a.items) != len(b.items) {
			return false
		}
		for i := range a.items {
			if !sameType(a.items[i], b.items[i]) {
				return false
			}
		}
	}
	return true
}

func isAddressable(e ast.Expr) bool {
	switch x := ast.Unparen(e).(type) {
	case *ast.Ident:
		return x.Name != "nil" && x.Name != "_"
	case *ast.SelectorExpr:
		return isAddressable(x.X)
	case *ast.IndexExpr:
		return isAddressable(x.X)
	case *ast.StarExpr:
		return isAddressable(x.X)
	case *ast.UnaryExpr:
		return x.Op == token.AND && isAddressable(x.X)
	}
	return false
}

// a call of a function or method of the two modules: the callee is translated too
func (t *ftr) staticCall(call *ast.CallExpr, callee *types.Func) ([]string, []*ctype, error) {
	g := t.u.need(callee)
	if g.err != nil {
		return nil, nil, fmt.Errorf("calls %s: %v", g.goName, g.err)
	}
	var argExprs []ast.Expr
	if callee.Type().(*types.Signature).Recv() != nil {
		sel := ast.Unparen(call.Fun).(*ast.SelectorExpr)
		argExprs = append(argExprs, sel.X)
	}
	argExprs = append(argExprs, call.Args...)
	if len(argExprs) != len(g.params) {
		return nil, nil, t.posErr(call, "wrong number of arguments for %s", g.goName)
	}
	var as []string
	for i, a := range argExprs {
		s, at, err := t.exprAs(a, g.params[i].t)
		if err != nil {
			return nil, nil, err
		}
		if !sameType(at, g.params[i].t) {
			return nil, nil, t.posErr(a, "argument %d of %s: a value that is only kept opaquely (a stored pointer, channel, ...) is used", i, g.goName)
		}
		as = append(as, s)
	}
	t.tmp++
	id := t.tmp
	pat := []string{fmt.Sprintf("c%d_w", id)}
	for _, i := range g.refs {
		pat = append(pat, fmt.Sprintf("c%d_%s", id, g.params[i].goName))
	}
	var rs []string
	switch len(g.resIt) {
	case 0:
		pat = append(pat, "_")
	case 1:
		rs = []string{fmt.Sprintf("c%d_r", id)}
		pat = append(pat, rs[0])
	default:
		for i := range g.resIt {
			rs = append(rs, fmt.Sprintf("c%d_r%d", id, i))
		}
		pat = append(pat, "("+strings.Join(rs, ", ")+")")
	}
	w := t.wvar
	callText := g.coq
	if g.fuel {
		t.usesFuel = true
		callText += " fuel"
	}
	callText = app(callText, append([]string{w.proj + " v"}, as...)...)
	p := "(" + strings.Join(pat, ", ") + ")"
	if g.fuel {
		t.pre = append(t.pre, preItem{open: "match " + callText + " with\n| None => Fuel v\n| Some " + p + " =>", close: "\nend"})
	} else {
		t.pre = append(t.pre, preItem{open: "let '" + p + " := " + callText + " in"})
	}
	t.pre = append(t.pre, preItem{open: fmt.Sprintf("let v := %s in", app(w.setter, pat[0], "v"))})
	for k, i := range g.refs {
		if !isAddressable(argExprs[i]) {
			continue
		}
		target := argExprs[i]
		if ue, ok := ast.Unparen(target).(*ast.UnaryExpr); ok && ue.Op == token.AND {
			target = ue.X
		}
		st, err := t.assignTo(target, pat[1+k])
		if err != nil {
			return nil, nil, err
		}
		t.pre = append(t.pre, preItem{open: "let v := " + st + " in"})
	}
	return rs, g.resIt, nil
}

// ---- common.SortPriorities: the one supported closure, recognised by its exact text

const sortPrioritiesBody = "{less:=func(iint,jint)bool{returnpriorities[j]<priorities[i]}sort.SliceStable(priorities,less)}"

func isSortPriorities(f *fn) string {
	if f.obj.Name() == "SortPriorities" && strings.HasSuffix(f.obj.Pkg().Path(), "priority/internal/common") {
		return "modelled by the intrinsic GoSem.sort_desc"
	}
	return ""
}

func checkSortPriorities(di *declInfo) string {
	var buf bytes.Buffer
	if err := printer.Fprint(&buf, di.pkg.Fset, di.decl.Body); err != nil {
		return err.Error()
	}
	got := strings.Join(strings.Fields(buf.String()), "")
	if got != sortPrioritiesBody {
		return "common.SortPriorities no longer has the body that the intrinsic GoSem.sort_desc models"
	}
	if len(di.decl.Type.Params.List) != 1 || len(di.decl.Type.Params.List[0].Names) != 1 || di.decl.Type.Params.List[0].Names[0].Name != "priorities" {
		return "common.SortPriorities no longer has the signature that the intrinsic GoSem.sort_desc models"
	}
	return ""
}
