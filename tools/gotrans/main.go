// gotrans translates the sequential fragment of the cqos Go sources to Gallina (see SPEC.md and README.md).
//
// usage: gotrans <repo> <outdir>
//
// It writes <outdir>/Gen*.v and <outdir>/gotrans_index.json and prints one line per function:
//
//	<file> <pkgdir>.<Recv>.<Name> generated <coq name>
//	<file> <pkgdir>.<Recv>.<Name> skipped: <reason>
//
// Exit status 2 if a listed root cannot be translated.
package main

import (
	"bytes"
	"encoding/json"
	"fmt"
	"go/ast"
	"go/types"
	"os"
	"path/filepath"
	"sort"
	"strings"

	"golang.org/x/tools/go/packages"
)

// ---- the program: all packages of the two modules

type declInfo struct {
	decl *ast.FuncDecl
	pkg  *packages.Package
	file string // base name of the source file
}

type program struct {
	repo  string
	pkgs  map[string]*packages.Package // by directory relative to the repo ("v2/priority")
	decls map[*types.Func]*declInfo
	dirOf map[string]string // package path -> relative directory
}

func loadModule(prog *program, dir string) error {
	env := os.Environ()
	if os.Getenv("GOFLAGS") == "" {
		env = append(env, "GOFLAGS=-mod=mod")
	}
	env = append(env, "GOPROXY=off", "GOSUMDB=off", "GOTOOLCHAIN=local")
	cfg := &packages.Config{
		Mode: packages.NeedName | packages.NeedFiles | packages.NeedCompiledGoFiles | packages.NeedSyntax |
			packages.NeedTypes | packages.NeedTypesInfo | packages.NeedImports | packages.NeedDeps,
		Dir: dir,
		Env: env,
	}
	pkgs, err := packages.Load(cfg, "./...")
	if err != nil {
		return err
	}
	for _, p := range pkgs {
		if len(p.Errors) != 0 {
			return fmt.Errorf("package %s: %v", p.PkgPath, p.Errors[0])
		}
		if len(p.GoFiles) == 0 {
			continue
		}
		rel, err := filepath.Rel(prog.repo, filepath.Dir(p.GoFiles[0]))
		if err != nil {
			return err
		}
		rel = filepath.ToSlash(rel)
		prog.pkgs[rel] = p
		prog.dirOf[p.PkgPath] = rel
		for i, f := range p.Syntax {
			name := filepath.Base(p.CompiledGoFiles[i])
			for _, d := range f.Decls {
				fd, ok := d.(*ast.FuncDecl)
				if !ok {
					continue
				}
				if obj, ok := p.TypesInfo.Defs[fd.Name].(*types.Func); ok {
					prog.decls[obj] = &declInfo{decl: fd, pkg: p, file: name}
				}
			}
		}
	}
	return nil
}

// ---- units (output files)

type rootSpec struct {
	dir  string
	name string // "Fair" or "Rate.IsValid"
}

type autoSpec struct {
	dir   string
	files []string // nil = every file of the package
}

type unitSpec struct {
	file  string
	name  string
	roots []rootSpec
	auto  []autoSpec
}

func roots(dir string, names ...string) []rootSpec {
	var r []rootSpec
	for _, n := range names {
		r = append(r, rootSpec{dir, n})
	}
	return r
}

var unitSpecs = []unitSpec{
	{file: "GenV2Divider.v", name: "V2Divider", roots: append(append(
		roots("v2/priority/divider", "Fair", "Rate"),
		roots("v2/priority/internal/common", "SumPriorities", "IsDistributionFilled", "IsDistributionFilledFor")...),
		roots("v2/internal/general", "DivideWithMin")...)},
	{file: "GenV1Divider.v", name: "V1Divider", roots: append(append(
		roots("priority", "FairDivider", "RateDivider"),
		roots("priority/internal/common", "SumPriorities", "IsDistributionFilled", "IsDistributionFilledFor")...),
		roots("internal/general", "DivideWithMin")...)},
	{file: "GenRate.v", name: "Rate", roots: roots("v2/limit", "Rate.IsValid", "Rate.Recalculate", "Rate.Optimize", "Rate.Flatten")},
	// the functions SPEC.md expects at least are roots (exit status 2 when one of them is lost), the rest is decided by the tool
	{file: "GenV2Prio.v", name: "V2Prio",
		roots: roots("v2/priority", "calcDistributionQuantity", "safeCalcDistributionQuantity", "safeDivide", "Opts.isValid", "prepare",
			"Discipline.isZeroActual", "Discipline.isDrainedInputs", "Discipline.markInputAsDrained",
			"Discipline.increaseActual", "Discipline.decreaseActual", "Discipline.decreaseTactic",
			"Discipline.calcVacants", "Discipline.resetTactic", "Discipline.calcTacticByAddUpToStrategic", "Discipline.updateUncrowded",
			"Discipline.isTacticFilled", "Discipline.calcTacticBase", "Discipline.calcTactic",
			"Discipline.updateUseful", "Discipline.updateUsefulLikeUncrowded", "Discipline.recalcTactic"),
		auto: []autoSpec{{"v2/priority", []string{"priority.go", "assist.go"}}}},
	{file: "GenV1Prio.v", name: "V1Prio", auto: []autoSpec{{"priority", []string{"priority.go", "assist.go"}}}},
	{file: "GenV1Simple.v", name: "V1Simple", auto: []autoSpec{{"priority", []string{"simple.go"}}}},
	{file: "GenV2Simple.v", name: "V2Simple", auto: []autoSpec{{"v2/priority/simple", nil}}},
	{file: "GenJoinV1.v", name: "JoinV1", auto: []autoSpec{{"join", nil}}},
	{file: "GenJoinV2.v", name: "JoinV2", auto: []autoSpec{{"v2/join", nil}}},
	{file: "GenJoinUniteV2.v", name: "JoinUniteV2", auto: []autoSpec{{"v2/join/unite", nil}}},
	{file: "GenLimit.v", name: "Limit", auto: []autoSpec{{"v2/limit", []string{"limit.go"}}}},
	{file: "GenV1Utils.v", name: "V1Utils", auto: []autoSpec{{"priority", []string{"utils.go"}}}},
	{file: "GenV2Utils.v", name: "V2Utils", auto: []autoSpec{{"v2/priority/utils", nil}}},
}

type unit struct {
	spec     unitSpec
	prog     *program
	names    map[string]bool
	records  map[string]*record
	recOrder []*record
	errs     []string
	errOf    map[string]string // package path + "." + var name -> constructor
	funcs    map[*types.Func]*fn
	order    []*fn
	files    map[string]bool // source files used

	needFloat, needErr bool
}

func (u *unit) errType() string { return "err_" + u.spec.name }

var coqReserved = map[string]bool{}

func init() {
	for _, w := range strings.Fields(`as at cofix else end exists exists2 fix for forall fun if IF in let match mod Prop return Set then
		Type using where with by v w fuel tt nat bool list option unit N Z Some None true false b64 gmap opaque divfn ctl x r`) {
		coqReserved[w] = true
	}
}

// fresh reserves a global name of the output file
func (u *unit) fresh(name string) string {
	n := name
	for i := 1; u.names[n] || coqReserved[n]; i++ {
		n = fmt.Sprintf("%s_%d", name, i)
	}
	u.names[n] = true
	return n
}

type indexEntry struct {
	Go  string `json:"go"`
	Coq string `json:"coq"`
	Sig string `json:"sig"`
}

func fail(code int, format string, args ...any) {
	fmt.Fprintf(os.Stderr, "gotrans: "+format+"\n", args...)
	os.Exit(code)
}

func main() {
	if len(os.Args) != 3 {
		fail(1, "usage: gotrans <repo> <outdir>")
	}
	repo, err := filepath.Abs(os.Args[1])
	if err != nil {
		fail(1, "%v", err)
	}
	outdir := os.Args[2]
	if err := os.MkdirAll(outdir, 0o755); err != nil {
		fail(1, "%v", err)
	}
	prog := &program{repo: repo, pkgs: map[string]*packages.Package{}, decls: map[*types.Func]*declInfo{}, dirOf: map[string]string{}}
	if err := loadModule(prog, repo); err != nil {
		fail(1, "loading %s: %v", repo, err)
	}
	if err := loadModule(prog, filepath.Join(repo, "v2")); err != nil {
		fail(1, "loading %s/v2: %v", repo, err)
	}

	only := os.Getenv("GOTRANS_ONLY") // comma-separated list of output files (debugging aid)
	specs := unitSpecs
	if extra := os.Getenv("GOTRANS_EXTRA"); extra != "" {
		// debugging aid: one more unit GenExtra.v with everything translatable of the package in this directory
		specs = append(append([]unitSpec{}, specs...), unitSpec{file: "GenExtra.v", name: "Extra", auto: []autoSpec{{extra, nil}}})
	}
	index := map[string][]indexEntry{}
	status := 0
	for _, spec := range specs {
		if only != "" && !strings.Contains(","+only+",", ","+spec.file+",") {
			continue
		}
		u := &unit{spec: spec, prog: prog, names: map[string]bool{}, records: map[string]*record{}, errOf: map[string]string{},
			funcs: map[*types.Func]*fn{}, files: map[string]bool{}}
		u.names[u.errType()] = true
		var lines []string
		for _, r := range spec.roots {
			obj, err := prog.lookup(r.dir, r.name)
			if err != nil {
				fmt.Fprintf(os.Stderr, "gotrans: %s: root %s.%s: %v\n", spec.file, r.dir, r.name, err)
				status = 2
				continue
			}
			f := u.need(obj)
			if f.err != nil {
				fmt.Fprintf(os.Stderr, "gotrans: %s: root %s.%s cannot be translated: %v\n", spec.file, r.dir, r.name, f.err)
				status = 2
			}
		}
		for _, a := range spec.auto {
			p := prog.pkgs[a.dir]
			if p == nil {
				fmt.Fprintf(os.Stderr, "gotrans: %s: no package in %s\n", spec.file, a.dir)
				status = 2
				continue
			}
			for _, obj := range prog.funcsOf(p, a.files) {
				u.need(obj)
			}
		}
		// report: every function that was considered, in a stable order
		var all []*fn
		for _, f := range u.funcs {
			all = append(all, f)
		}
		sort.Slice(all, func(i, j int) bool { return all[i].goName < all[j].goName })
		for _, f := range all {
			if f.err != nil {
				lines = append(lines, fmt.Sprintf("%s %s skipped: %v", spec.file, f.goName, f.err))
			} else {
				lines = append(lines, fmt.Sprintf("%s %s generated %s", spec.file, f.goName, f.coq))
			}
		}
		text := u.render()
		if err := os.WriteFile(filepath.Join(outdir, spec.file), []byte(text), 0o644); err != nil {
			fail(1, "%v", err)
		}
		entries := []indexEntry{}
		for _, f := range u.order {
			entries = append(entries, indexEntry{Go: f.goName, Coq: f.coq, Sig: f.sig})
		}
		sort.Slice(entries, func(i, j int) bool { return entries[i].Go < entries[j].Go })
		index[spec.file] = entries
		for _, l := range lines {
			fmt.Println(l)
		}
		// part 2: the goroutine bodies that build on this unit
		for _, cs := range concSpecs {
			if cs.part1 != spec.file {
				continue
			}
			ctext, centries, err := u.translateConc(cs)
			if err != nil {
				fmt.Fprintf(os.Stderr, "gotrans: %s: %v\n", cs.file, err)
				status = 2
				continue
			}
			if err := os.WriteFile(filepath.Join(outdir, cs.file), []byte(ctext), 0o644); err != nil {
				fail(1, "%v", err)
			}
			for _, e := range centries {
				fmt.Printf("%s %s generated %s\n", cs.file, e.Go, e.Coq)
			}
			sort.Slice(centries, func(i, j int) bool { return centries[i].Go < centries[j].Go })
			index[cs.file] = centries
		}
	}
	if only == "" {
		var buf bytes.Buffer
		enc := json.NewEncoder(&buf)
		enc.SetEscapeHTML(false)
		enc.SetIndent("", "  ")
		if err := enc.Encode(index); err != nil {
			fail(1, "%v", err)
		}
		if err := os.WriteFile(filepath.Join(outdir, "gotrans_index.json"), buf.Bytes(), 0o644); err != nil {
			fail(1, "%v", err)
		}
	}
	os.Exit(status)
}

// lookup finds "Name" or "Recv.Name" in the package of a directory
func (prog *program) lookup(dir, name string) (*types.Func, error) {
	p := prog.pkgs[dir]
	if p == nil {
		return nil, fmt.Errorf("no package in %s", dir)
	}
	recv, fname := "", name
	if i := strings.Index(name, "."); i >= 0 {
		recv, fname = name[:i], name[i+1:]
	}
	for obj, d := range prog.decls {
		if d.pkg != p || obj.Name() != fname {
			continue
		}
		if recvName(obj) == recv {
			return obj, nil
		}
	}
	return nil, fmt.Errorf("not found")
}

func recvName(obj *types.Func) string {
	sig := obj.Type().(*types.Signature)
	if sig.Recv() == nil {
		return ""
	}
	t := types.Unalias(sig.Recv().Type())
	if p, ok := t.(*types.Pointer); ok {
		t = types.Unalias(p.Elem())
	}
	if n, ok := t.(*types.Named); ok {
		return n.Obj().Name()
	}
	return "?"
}

// funcsOf lists the functions declared in the given files of a package, in file and source order
func (prog *program) funcsOf(p *packages.Package, files []string) []*types.Func {
	type item struct {
		obj  *types.Func
		file string
		pos  int
	}
	var items []item
	for obj, d := range prog.decls {
		if d.pkg != p {
			continue
		}
		if files != nil {
			ok := false
			for _, f := range files {
				ok = ok || f == d.file
			}
			if !ok {
				continue
			}
		}
		items = append(items, item{obj, d.file, int(d.decl.Pos())})
	}
	sort.Slice(items, func(i, j int) bool {
		if items[i].file != items[j].file {
			return items[i].file < items[j].file
		}
		return items[i].pos < items[j].pos
	})
	var r []*types.Func
	for _, it := range items {
		r = append(r, it.obj)
	}
	return r
}

func (prog *program) goName(obj *types.Func) string {
	dir := prog.dirOf[obj.Pkg().Path()]
	if r := recvName(obj); r != "" {
		return dir + "." + r + "." + obj.Name()
	}
	return dir + "." + obj.Name()
}

// ---- rendering of an output file

func (u *unit) render() string {
	var b strings.Builder
	var files []string
	for f := range u.files {
		files = append(files, f)
	}
	sort.Strings(files)
	fmt.Fprintf(&b, "(* GENERATED by tools/gotrans from %s; do not edit *)\n", strings.Join(files, " "))
	b.WriteString("From Coq Require Import List NArith ZArith Bool.\n")
	// the body is rendered first: it decides which imports are needed
	var body strings.Builder
	for _, r := range u.recOrder {
		body.WriteString(u.renderRecord(r))
	}
	for _, f := range u.order {
		body.WriteString(f.text)
	}
	var errs string
	if len(u.errs) > 0 || u.needErr {
		errs = u.renderErrs()
	}
	if u.needFloat {
		b.WriteString("From Cqos Require Import Float64 GoSem.\n")
	} else {
		b.WriteString("From Cqos Require Import GoSem.\n")
	}
	b.WriteString("Import ListNotations.\n\n")
	b.WriteString(errs)
	b.WriteString(body.String())
	return b.String()
}

func (u *unit) renderErrs() string {
	var b strings.Builder
	t := u.errType()
	b.WriteString("(* the package-level error values *)\n")
	if len(u.errs) == 0 {
		// the type is mentioned (a result of type error) but no value is ever produced
		fmt.Fprintf(&b, "Inductive %s : Type := %s_none.\n", t, t)
	} else {
		fmt.Fprintf(&b, "Inductive %s : Type :=", t)
		for _, e := range u.errs {
			fmt.Fprintf(&b, " | %s", e)
		}
		b.WriteString(".\n")
	}
	fmt.Fprintf(&b, "Definition %s_eqb (a b : option %s) : bool :=\n  match a, b with\n  | None, None => true\n", t, t)
	for _, e := range u.errs {
		fmt.Fprintf(&b, "  | Some %s, Some %s => true\n", e, e)
	}
	b.WriteString("  | _, _ => false\n  end.\n\n")
	return b.String()
}

func (u *unit) renderRecord(r *record) string {
	var b strings.Builder
	fmt.Fprintf(&b, "(* struct %s *)\n", r.key)
	fmt.Fprintf(&b, "Record %s : Type := %s {", r.name, r.mk)
	for i, f := range r.fields {
		if i > 0 {
			b.WriteString(";")
		}
		fmt.Fprintf(&b, "\n  %s : %s", f.coq, f.t.coq(u))
	}
	b.WriteString("\n}.\n")
	zeros := make([]string, len(r.fields))
	for i, f := range r.fields {
		zeros[i] = atom(f.t.zero(u))
	}
	fmt.Fprintf(&b, "Definition %s : %s := %s.\n", r.zero, r.name, strings.TrimSpace(r.mk+" "+strings.Join(zeros, " ")))
	for i, f := range r.fields {
		args := make([]string, len(r.fields))
		for j, g := range r.fields {
			if i == j {
				args[j] = "x"
			} else {
				args[j] = "(" + g.coq + " r)"
			}
		}
		fmt.Fprintf(&b, "Definition %s (x : %s) (r : %s) : %s :=\n  %s %s.\n", f.setter, f.t.coq(u), r.name, r.name, r.mk, strings.Join(args, " "))
		fmt.Fprintf(&b, "#[global] Arguments %s x r /.\n", f.setter)
	}
	b.WriteString("\n")
	return b.String()
}
