package main

import (
	"fmt"
	"go/types"
	"strings"
)

// kind of a Coq type in the image of the translation
type kind int

const (
	kN      kind = iota // uint, uint64, uintptr, type parameters: N modulo 2^64
	kZ                  // int, int64, time.Duration: Z, two's complement
	kBig                // *big.Int: Z, exact
	kBool               //
	kFloat              // float64: Float64.b64
	kList               // []T
	kMap                // map[uint]T
	kErr                // error: option err_<unit>
	kRecord             // struct of one of the two modules
	kOpaque             // chan, ticker, context, func, foreign pointer, interface: option unit
	kUnit               // struct{}, time.Time, foreign structs, unsupported field types
	kDiv2               // v2 divider.Divider function value
	kDiv1               // v1 Divider function value
	kTuple              // several results
)

type ctype struct {
	k     kind
	elem  *ctype   // kList, kMap
	rec   *record  // kRecord
	ptr   bool     // kRecord reached through a pointer
	items []*ctype // kTuple
	note  string   // kUnit: why
}

var (
	tN      = &ctype{k: kN}
	tZ      = &ctype{k: kZ}
	tBig    = &ctype{k: kBig}
	tBool   = &ctype{k: kBool}
	tFloat  = &ctype{k: kFloat}
	tOpaque = &ctype{k: kOpaque}
	tUnit   = &ctype{k: kUnit}
	tDiv2   = &ctype{k: kDiv2}
	tDiv1   = &ctype{k: kDiv1}
)

type field struct {
	goName string
	coq    string // projection name
	setter string
	t      *ctype
}

type record struct {
	name   string // Coq name of the Record
	mk     string
	zero   string
	fields []*field
	key    string // package path + "." + type name
}

func (r *record) field(name string) *field {
	for _, f := range r.fields {
		if f.goName == name {
			return f
		}
	}
	return nil
}

func (t *ctype) sameKind(o *ctype) bool { return t.k == o.k }

// Coq syntax of the type; errName is the error type of the unit
func (t *ctype) coq(u *unit) string {
	switch t.k {
	case kN:
		return "N"
	case kZ, kBig:
		return "Z"
	case kBool:
		return "bool"
	case kFloat:
		u.needFloat = true
		return "b64"
	case kList:
		return "list " + atom(t.elem.coq(u))
	case kMap:
		return "gmap " + atom(t.elem.coq(u))
	case kErr:
		u.needErr = true
		return "option " + u.errType()
	case kRecord:
		return t.rec.name
	case kOpaque:
		return "opaque"
	case kUnit:
		return "unit"
	case kDiv1, kDiv2:
		return "divfn"
	case kTuple:
		if len(t.items) == 0 {
			return "unit"
		}
		parts := make([]string, len(t.items))
		for i, it := range t.items {
			s := it.coq(u)
			if it.k == kTuple && len(it.items) > 1 {
				s = "(" + s + ")"
			} else if strings.Contains(s, " ") && it.k != kTuple {
				s = atom(s)
			}
			parts[i] = s
		}
		return strings.Join(parts, " * ")
	}
	panic("coq: kind")
}

// the zero value
func (t *ctype) zero(u *unit) string {
	switch t.k {
	case kN:
		return "0%N"
	case kZ, kBig:
		return "0%Z"
	case kBool:
		return "false"
	case kFloat:
		u.needFloat = true
		return "f_zero"
	case kList:
		return "[]"
	case kMap, kErr, kOpaque, kDiv1, kDiv2:
		return "None"
	case kRecord:
		return t.rec.zero
	case kUnit:
		return "tt"
	case kTuple:
		if len(t.items) == 0 {
			return "tt"
		}
		parts := make([]string, len(t.items))
		for i, it := range t.items {
			parts[i] = it.zero(u)
		}
		if len(parts) == 1 {
			return parts[0]
		}
		return "(" + strings.Join(parts, ", ") + ")"
	}
	panic("zero: kind")
}

func (t *ctype) nilable() bool {
	switch t.k {
	case kMap, kErr, kOpaque, kDiv1, kDiv2:
		return true
	case kList:
		return true
	}
	return false
}

// reference kind: the callee's changes are visible to the caller
func (t *ctype) isRef() bool {
	return t.k == kMap || (t.k == kRecord && t.ptr)
}

const (
	modV1 = "github.com/akramarenkov/cqos"
	modV2 = "github.com/akramarenkov/cqos/v2"
)

func inModules(path string) bool {
	return path == modV1 || strings.HasPrefix(path, modV1+"/")
}

func namedKey(n *types.Named) string {
	o := n.Obj()
	if o.Pkg() == nil {
		return o.Name()
	}
	return o.Pkg().Path() + "." + o.Name()
}

func isUintLike(t types.Type) bool {
	switch b := types.Unalias(t).(type) {
	case *types.Basic:
		return b.Kind() == types.Uint || b.Kind() == types.Uint64 || b.Kind() == types.Uintptr
	case *types.TypeParam:
		return true
	case *types.Named:
		return isUintLike(b.Underlying())
	}
	return false
}

// func([]uint, uint, map[uint]uint) [map[uint]uint]
func dividerKind(sig *types.Signature) kind {
	if sig.Recv() != nil || sig.Variadic() || sig.Params().Len() != 3 {
		return kOpaque
	}
	isUintMap := func(t types.Type) bool {
		m, ok := types.Unalias(t).Underlying().(*types.Map)
		return ok && isBasic(m.Key(), types.Uint) && isBasic(m.Elem(), types.Uint)
	}
	p := sig.Params()
	s, ok := types.Unalias(p.At(0).Type()).Underlying().(*types.Slice)
	if !ok || !isBasic(s.Elem(), types.Uint) || !isBasic(p.At(1).Type(), types.Uint) || !isUintMap(p.At(2).Type()) {
		return kOpaque
	}
	switch sig.Results().Len() {
	case 0:
		return kDiv2
	case 1:
		if isUintMap(sig.Results().At(0).Type()) {
			return kDiv1
		}
	}
	return kOpaque
}

func isBasic(t types.Type, k types.BasicKind) bool {
	b, ok := types.Unalias(t).(*types.Basic)
	return ok && b.Kind() == k
}

// ctype maps a Go type; strict = false turns unsupported types into unit (struct fields that are only carried along)
func (u *unit) ctype(t types.Type) (*ctype, error) {
	t = types.Unalias(t)
	switch x := t.(type) {
	case *types.Basic:
		switch x.Kind() {
		case types.Uint, types.Uint64, types.Uintptr:
			return tN, nil
		case types.Int, types.Int64:
			return tZ, nil
		case types.Bool, types.UntypedBool:
			return tBool, nil
		case types.Float64, types.UntypedFloat:
			return tFloat, nil
		case types.UntypedInt:
			return tZ, nil
		case types.UntypedNil:
			return tOpaque, nil
		}
		return nil, fmt.Errorf("unsupported basic type %s", x.Name())
	case *types.TypeParam:
		// integer-constrained parameters are instantiated at uint; `any` parameters (the item type) are numbers
		return tN, nil
	case *types.Named:
		key := namedKey(x)
		switch key {
		case "error":
			return &ctype{k: kErr}, nil
		case "time.Duration":
			return tZ, nil
		case "time.Time":
			return &ctype{k: kUnit, note: "time.Time"}, nil
		case "context.Context":
			return tOpaque, nil
		}
		switch und := x.Underlying().(type) {
		case *types.Struct:
			if x.Obj().Pkg() != nil && inModules(x.Obj().Pkg().Path()) {
				r, err := u.record(x, und)
				if err != nil {
					return nil, err
				}
				return &ctype{k: kRecord, rec: r}, nil
			}
			return &ctype{k: kUnit, note: key}, nil
		case *types.Signature:
			return &ctype{k: dividerKind(und)}, nil
		case *types.Interface:
			return tOpaque, nil
		default:
			return u.ctype(und)
		}
	case *types.Pointer:
		if n, ok := types.Unalias(x.Elem()).(*types.Named); ok {
			if namedKey(n) == "math/big.Int" {
				return tBig, nil
			}
			if st, ok := n.Underlying().(*types.Struct); ok && n.Obj().Pkg() != nil && inModules(n.Obj().Pkg().Path()) {
				r, err := u.record(n, st)
				if err != nil {
					return nil, err
				}
				return &ctype{k: kRecord, rec: r, ptr: true}, nil
			}
		}
		return tOpaque, nil
	case *types.Slice:
		e, err := u.ctype(x.Elem())
		if err != nil {
			return nil, err
		}
		return &ctype{k: kList, elem: e}, nil
	case *types.Map:
		if !isUintLike(x.Key()) {
			return nil, fmt.Errorf("unsupported map key type %s", x.Key())
		}
		e, err := u.ctype(x.Elem())
		if err != nil {
			return nil, err
		}
		return &ctype{k: kMap, elem: e}, nil
	case *types.Chan:
		return tOpaque, nil
	case *types.Signature:
		return &ctype{k: dividerKind(x)}, nil
	case *types.Interface:
		return tOpaque, nil
	case *types.Struct:
		if x.NumFields() == 0 {
			return tUnit, nil
		}
		return nil, fmt.Errorf("unsupported anonymous struct type")
	case *types.Tuple:
		items := make([]*ctype, x.Len())
		for i := 0; i < x.Len(); i++ {
			it, err := u.ctype(x.At(i).Type())
			if err != nil {
				return nil, err
			}
			items[i] = it
		}
		if len(items) == 1 {
			return items[0], nil
		}
		return &ctype{k: kTuple, items: items}, nil
	}
	return nil, fmt.Errorf("unsupported type %s", t)
}

// record registers the Coq Record of a struct type of the modules (all instances of a generic struct share it)
func (u *unit) record(n *types.Named, st *types.Struct) (*record, error) {
	n = n.Origin()
	key := namedKey(n)
	if r, ok := u.records[key]; ok {
		return r, nil
	}
	st = n.Underlying().(*types.Struct)
	name := u.fresh(n.Obj().Name())
	r := &record{name: name, mk: u.fresh("mk_" + name), zero: u.fresh("zero_" + name), key: key}
	u.records[key] = r
	for i := 0; i < st.NumFields(); i++ {
		f := st.Field(i)
		var ft *ctype
		var err error
		if p, ok := types.Unalias(f.Type()).(*types.Pointer); ok && !isBigInt(p) {
			ft = tOpaque // a pointer stored in a field: only its nil-ness is kept
		} else {
			ft, err = u.ctype(f.Type())
			if err != nil {
				ft = &ctype{k: kUnit, note: err.Error()}
			}
		}
		fname := f.Name()
		if fname == "_" {
			fname = fmt.Sprintf("blank%d", i)
		}
		r.fields = append(r.fields, &field{goName: f.Name(), coq: u.fresh(name + "_" + fname), setter: u.fresh("set_" + name + "_" + fname), t: ft})
	}
	u.recOrder = append(u.recOrder, r) // after its field types: dependency order
	return r, nil
}

func isBigInt(p *types.Pointer) bool {
	n, ok := types.Unalias(p.Elem()).(*types.Named)
	return ok && namedKey(n) == "math/big.Int"
}

// ---- small helpers for Coq term text

// atom parenthesises a term unless it is already atomic
func atom(s string) string {
	if s == "" {
		return s
	}
	if !strings.ContainsAny(s, " \n") {
		return s
	}
	if (s[0] == '(' || s[0] == '[') && closesAtEnd(s) && !strings.HasSuffix(s, "%N") && !strings.HasSuffix(s, "%Z") {
		return s
	}
	return "(" + s + ")"
}

func closesAtEnd(s string) bool {
	depth := 0
	for i, c := range s {
		switch c {
		case '(', '[':
			depth++
		case ')', ']':
			depth--
			if depth == 0 {
				return i == len(s)-1
			}
		}
	}
	return false
}

func app(fn string, args ...string) string {
	parts := []string{fn}
	for _, a := range args {
		parts = append(parts, atom(a))
	}
	return strings.Join(parts, " ")
}

func indent(s string, n int) string {
	pad := strings.Repeat(" ", n)
	lines := strings.Split(s, "\n")
	for i, l := range lines {
		if l != "" {
			lines[i] = pad + l
		}
	}
	return strings.Join(lines, "\n")
}
