package main

import (
	"fmt"
	"go/ast"
	"go/token"
	"go/types"
	"regexp"
	"sort"
	"strings"

	"golang.org/x/tools/go/packages"
)

// a translated (or failed) function
type fn struct {
	obj    *types.Func
	goName string // pkgdir.Recv.Name
	di     *declInfo
	coq    string // gen_<name>
	base   string // prefix of the names that belong to the function
	params []*lvar
	refs   []int // indexes of the parameters of reference kind
	res    *ctype
	resIt  []*ctype
	fuel   bool
	state  int // 0 = new, 1 = in progress, 2 = done
	err    error
	text   string
	sig    string
}

// a local variable = a field of the function's variable record
type lvar struct {
	obj    types.Object
	goName string
	proj   string
	setter string
	t      *ctype
	binder string // name of the Definition's parameter (parameters only)
	hidden bool
	caller *lvar // re-assigned reference parameter: the hidden `<p>__caller` field
}

type preItem struct{ open, close string }

// the translator of one function
type ftr struct {
	u        *unit
	f        *fn
	pkg      *packages.Package
	info     *types.Info
	vars     map[types.Object]*lvar
	order    []*lvar
	wvar     *lvar
	results  []*lvar // named results
	tmp      int
	pre      []preItem
	loopDefs []string
	nloop    int
	usesFuel bool
	varsName string
	mk       string
	// part 2 (conc.go): sub-expressions that were moved in front of the statement (receives, calls of goroutine
	// functions) and what to read instead
	subst map[ast.Expr]*substVal
	// part 2: cap(ch) of a channel as a term of type Z
	chanCap func(e ast.Expr) (string, error)
}

type substVal struct {
	texts []string
	tys   []*ctype
}

var fuelWord = regexp.MustCompile(`\bfuel\b`)
var natLit = regexp.MustCompile(`^([0-9]+)%[NZ]$`)

// need returns the (possibly failed) translation of a function, translating it on first use
func (u *unit) need(obj *types.Func) *fn {
	obj = obj.Origin()
	if f, ok := u.funcs[obj]; ok {
		if f.state == 1 {
			f.err = fmt.Errorf("recursion is not supported")
		}
		return f
	}
	f := &fn{obj: obj, state: 1}
	u.funcs[obj] = f
	di := u.prog.decls[obj]
	if di == nil {
		f.goName = obj.FullName()
		f.err = fmt.Errorf("no source (not a function of the two modules)")
		f.state = 2
		return f
	}
	f.di = di
	f.goName = u.prog.goName(obj)
	// a failed attempt must leave no trace: run on a snapshot of the unit's tables
	snap := u.snapshot()
	err := u.translate(f)
	if err == nil && f.err != nil {
		err = f.err
	}
	if err != nil {
		f.err = err
		u.restore(snap)
	}
	f.state = 2
	return f
}

type snapshot struct {
	names    map[string]bool
	records  map[string]*record
	recOrder []*record
	errs     []string
	errOf    map[string]string
	funcs    map[*types.Func]bool
	order    []*fn
	files    map[string]bool
	flt, er  bool
}

func (u *unit) snapshot() *snapshot {
	s := &snapshot{names: map[string]bool{}, records: map[string]*record{}, errOf: map[string]string{}, funcs: map[*types.Func]bool{},
		files: map[string]bool{}, flt: u.needFloat, er: u.needErr}
	for k := range u.names {
		s.names[k] = true
	}
	for k, r := range u.records {
		s.records[k] = r
	}
	for k, e := range u.errOf {
		s.errOf[k] = e
	}
	for k := range u.funcs {
		s.funcs[k] = true
	}
	for k := range u.files {
		s.files[k] = true
	}
	s.recOrder = append(s.recOrder, u.recOrder...)
	s.errs = append(s.errs, u.errs...)
	s.order = append(s.order, u.order...)
	return s
}

// restore undoes a failed attempt; callees that were translated successfully during the attempt are forgotten
// (they are translated again when something else needs them), failed callees stay recorded as failed
func (u *unit) restore(s *snapshot) {
	u.names, u.records, u.recOrder, u.errs, u.errOf, u.order, u.files = s.names, s.records, s.recOrder, s.errs, s.errOf, s.order, s.files
	u.needFloat, u.needErr = s.flt, s.er
	for k, g := range u.funcs {
		if !s.funcs[k] && g.err == nil && g.state == 2 {
			delete(u.funcs, k)
		}
	}
}

func (u *unit) translate(f *fn) error {
	di := f.di
	decl := di.decl
	if decl.Body == nil {
		return fmt.Errorf("no body")
	}
	if reason := isSortPriorities(f); reason != "" {
		return fmt.Errorf("%s", reason)
	}
	t := &ftr{u: u, f: f, pkg: di.pkg, info: di.pkg.TypesInfo, vars: map[types.Object]*lvar{}}
	sig := f.obj.Type().(*types.Signature)
	if sig.Variadic() {
		return fmt.Errorf("variadic function")
	}
	// quick rejection with a readable reason before any name is reserved
	if reason := unsupportedConstruct(decl.Body, t.info); reason != "" {
		return fmt.Errorf("%s", reason)
	}

	// the base name: bare, or qualified by the receiver type when taken
	base := f.obj.Name()
	if u.names["gen_"+base] {
		if r := recvName(f.obj); r != "" {
			base = r + "_" + base
		}
	}
	// parameters
	addVar := func(obj types.Object, goName string, ty *ctype) *lvar {
		lv := &lvar{obj: obj, goName: goName, t: ty}
		if obj != nil {
			t.vars[obj] = lv
		}
		t.order = append(t.order, lv)
		return lv
	}
	var paramVars []*types.Var
	if sig.Recv() != nil {
		paramVars = append(paramVars, sig.Recv())
	}
	for i := 0; i < sig.Params().Len(); i++ {
		paramVars = append(paramVars, sig.Params().At(i))
	}
	// the objects of the declaration (for a generic method sig.Recv() is the object of the declaration as well)
	var declObjs []types.Object
	collect := func(fl *ast.FieldList) {
		if fl == nil {
			return
		}
		for _, fd := range fl.List {
			if len(fd.Names) == 0 {
				declObjs = append(declObjs, nil)
			}
			for _, n := range fd.Names {
				declObjs = append(declObjs, t.info.Defs[n])
			}
		}
	}
	collect(decl.Recv)
	collect(decl.Type.Params)
	if len(declObjs) != len(paramVars) {
		return fmt.Errorf("internal: parameter count")
	}
	for i, pv := range paramVars {
		ty, err := u.ctype(pv.Type())
		if err != nil {
			return fmt.Errorf("parameter %s: %v", pv.Name(), err)
		}
		name := pv.Name()
		var obj types.Object = declObjs[i]
		if name == "" || name == "_" {
			name = fmt.Sprintf("arg%d", i)
			obj = nil
		}
		lv := addVar(obj, name, ty)
		f.params = append(f.params, lv)
		if ty.isRef() {
			f.refs = append(f.refs, i)
		}
	}
	// results
	resTuple := sig.Results()
	for i := 0; i < resTuple.Len(); i++ {
		ty, err := u.ctype(resTuple.At(i).Type())
		if err != nil {
			return fmt.Errorf("result %d: %v", i, err)
		}
		if ty.k == kOpaque {
			return fmt.Errorf("returns a channel (or another value that is only kept opaquely)")
		}
		f.resIt = append(f.resIt, ty)
	}
	switch len(f.resIt) {
	case 0:
		f.res = &ctype{k: kTuple}
	case 1:
		f.res = f.resIt[0]
	default:
		f.res = &ctype{k: kTuple, items: f.resIt}
	}
	if decl.Type.Results != nil {
		i := 0
		for _, fd := range decl.Type.Results.List {
			for _, n := range fd.Names {
				if n.Name != "_" {
					lv := addVar(t.info.Defs[n], n.Name, f.resIt[i])
					t.results = append(t.results, lv)
				} else {
					t.results = append(t.results, nil)
				}
				i++
			}
			if len(fd.Names) == 0 {
				i++
			}
		}
	}
	// local variables, in source order
	var locals []*ast.Ident
	ast.Inspect(decl.Body, func(n ast.Node) bool {
		if id, ok := n.(*ast.Ident); ok && id.Name != "_" {
			if v, ok := t.info.Defs[id].(*types.Var); ok && !v.IsField() {
				locals = append(locals, id)
			}
		}
		return true
	})
	sort.Slice(locals, func(i, j int) bool { return locals[i].Pos() < locals[j].Pos() })
	for _, id := range locals {
		obj := t.info.Defs[id]
		if _, ok := t.vars[obj]; ok {
			continue
		}
		ty, err := u.ctype(obj.Type())
		if err != nil {
			return fmt.Errorf("variable %s: %v", id.Name, err)
		}
		addVar(obj, id.Name, ty)
	}
	// reference parameters that are re-assigned get the hidden caller field
	reassigned := map[types.Object]bool{}
	ast.Inspect(decl.Body, func(n ast.Node) bool {
		switch s := n.(type) {
		case *ast.AssignStmt:
			for _, l := range s.Lhs {
				if id, ok := ast.Unparen(l).(*ast.Ident); ok {
					if obj := t.info.Uses[id]; obj != nil {
						reassigned[obj] = true
					}
				}
			}
		}
		return true
	})
	for _, i := range f.refs {
		p := f.params[i]
		if p.obj != nil && reassigned[p.obj] {
			c := &lvar{goName: p.goName + "__caller", t: p.t, hidden: true}
			t.order = append(t.order, c)
			p.caller = c
		}
	}
	t.wvar = &lvar{goName: "w", hidden: true}
	t.order = append(t.order, t.wvar)

	// from here on names are reserved
	f.base = base
	f.coq = u.fresh("gen_" + base)
	t.varsName = u.fresh(base + "_vars")
	t.mk = u.fresh("mk_" + base + "_vars")
	used := map[string]int{}
	for _, lv := range t.order {
		n := lv.goName
		used[n]++
		if used[n] > 1 {
			n = fmt.Sprintf("%s_%d", n, used[n]-1)
		}
		lv.proj = u.fresh(base + "_" + n)
		lv.setter = u.fresh("set_" + base + "_" + n)
	}
	binders := map[string]bool{}
	for _, p := range f.params {
		b := p.goName
		for coqReserved[b] || binders[b] || u.names[b] {
			b += "_"
		}
		binders[b] = true
		p.binder = b
	}

	body, err := t.block(decl.Body.List)
	if err != nil {
		return err
	}
	f.fuel = t.usesFuel
	u.files[u.prog.dirOf[f.obj.Pkg().Path()]+"/"+di.file] = true
	f.text = t.render(body)
	u.order = append(u.order, f)
	return nil
}

// unsupportedConstruct gives the reason why a body is outside the sequential fragment
func unsupportedConstruct(body *ast.BlockStmt, info *types.Info) string {
	reason := ""
	set := func(r string) {
		if reason == "" {
			reason = r
		}
	}
	ast.Inspect(body, func(n ast.Node) bool {
		switch x := n.(type) {
		case *ast.GoStmt:
			set("starts a goroutine")
		case *ast.SelectStmt:
			set("uses select")
		case *ast.SendStmt:
			set("sends on a channel")
		case *ast.DeferStmt:
			set("uses defer")
		case *ast.UnaryExpr:
			if x.Op == token.ARROW {
				set("receives from a channel")
			}
		case *ast.FuncLit:
			set("contains a closure")
		case *ast.LabeledStmt:
			set("uses labels")
		case *ast.RangeStmt:
			if tv, ok := info.Types[x.X]; ok {
				if _, ok := types.Unalias(tv.Type).Underlying().(*types.Chan); ok {
					set("ranges over a channel")
				}
			}
		case *ast.CallExpr:
			if id, ok := ast.Unparen(x.Fun).(*ast.Ident); ok {
				if b, ok := info.Uses[id].(*types.Builtin); ok {
					switch b.Name() {
					case "cap", "len":
						if len(x.Args) == 1 {
							if tv, ok := info.Types[x.Args[0]]; ok {
								if _, ok := types.Unalias(tv.Type).Underlying().(*types.Chan); ok {
									set("uses " + b.Name() + " of a channel")
								}
							}
						}
					case "close":
						set("closes a channel")
					case "panic", "recover", "print", "println":
						set("uses " + b.Name())
					}
				}
			}
			if sel, ok := ast.Unparen(x.Fun).(*ast.SelectorExpr); ok {
				if fobj, ok := info.Uses[sel.Sel].(*types.Func); ok && fobj.Pkg() != nil {
					switch fobj.Pkg().Path() {
					case "time":
						set("uses time." + fobj.Name())
					case "sync", "sync/atomic":
						set("uses " + fobj.Pkg().Name() + "." + fobj.Name())
					}
				}
			}
		}
		return true
	})
	return reason
}

// ---- assembling the text of a function

func (t *ftr) render(body string) string {
	u, f := t.u, t.f
	var b strings.Builder
	fmt.Fprintf(&b, "(* %s  [%s] *)\n", f.goName, t.u.prog.dirOf[f.obj.Pkg().Path()]+"/"+f.di.file)
	// the variable record
	fmt.Fprintf(&b, "Record %s : Type := %s {", t.varsName, t.mk)
	tys := make([]string, len(t.order))
	for i, lv := range t.order {
		if lv == t.wvar {
			tys[i] = "nat"
		} else if lv.hidden {
			tys[i] = "option " + atom(lv.t.coq(u))
		} else {
			tys[i] = lv.t.coq(u)
		}
		if i > 0 {
			b.WriteString(";")
		}
		fmt.Fprintf(&b, "\n  %s : %s", lv.proj, tys[i])
	}
	b.WriteString("\n}.\n")
	for i, lv := range t.order {
		args := make([]string, len(t.order))
		for j, g := range t.order {
			if i == j {
				args[j] = "x"
			} else {
				args[j] = "(" + g.proj + " v)"
			}
		}
		fmt.Fprintf(&b, "Definition %s (x : %s) (v : %s) : %s :=\n  %s %s.\n", lv.setter, tys[i], t.varsName, t.varsName, t.mk, strings.Join(args, " "))
		fmt.Fprintf(&b, "#[global] Arguments %s x v /.\n", lv.setter)
	}
	for _, d := range t.loopDefs {
		b.WriteString(d)
	}
	// the function
	resT := f.res.coq(u)
	var binders, sigParts []string
	if f.fuel {
		binders = append(binders, "(fuel : nat)")
		sigParts = append(sigParts, "nat")
	}
	binders = append(binders, "(w : nat)")
	sigParts = append(sigParts, "nat")
	for _, p := range f.params {
		binders = append(binders, fmt.Sprintf("(%s : %s)", p.binder, p.t.coq(u)))
		sigParts = append(sigParts, atomType(p.t.coq(u)))
	}
	outParts := []string{"nat"}
	for _, i := range f.refs {
		outParts = append(outParts, atomType(f.params[i].t.coq(u)))
	}
	if f.res.k == kTuple && len(f.res.items) > 1 {
		outParts = append(outParts, "("+resT+")")
	} else {
		outParts = append(outParts, atomType(resT))
	}
	outT := strings.Join(outParts, " * ")
	if f.fuel {
		outT = "option (" + outT + ")"
	}
	f.sig = strings.Join(append(sigParts, outT), " -> ")
	fmt.Fprintf(&b, "Definition %s %s : %s :=\n", f.coq, strings.Join(binders, " "), outT)
	// initial state
	inits := make([]string, len(t.order))
	for i, lv := range t.order {
		switch {
		case lv == t.wvar:
			inits[i] = "w"
		case lv.hidden:
			inits[i] = "None"
		case lv.binder != "":
			inits[i] = lv.binder
		default:
			inits[i] = atom(lv.t.zero(u))
		}
	}
	fmt.Fprintf(&b, "  let v := %s %s in\n", t.mk, strings.Join(inits, " "))
	out := func(res string) string {
		parts := []string{t.wvar.proj + " v"}
		for _, i := range f.refs {
			p := f.params[i]
			if p.caller != nil {
				parts = append(parts, fmt.Sprintf("caller_val (%s v) (%s v)", p.caller.proj, p.proj))
			} else {
				parts = append(parts, p.proj+" v")
			}
		}
		parts = append(parts, res)
		s := "(" + strings.Join(parts, ", ") + ")"
		if f.fuel {
			s = "Some " + s
		}
		return s
	}
	fallZero := f.res.zero(u)
	if len(t.results) > 0 {
		fallZero = t.namedResults()
	}
	fmt.Fprintf(&b, "  match (\n%s\n  : ctl %s %s) with\n", indent(body, 4), t.varsName, atomType(resT))
	fmt.Fprintf(&b, "  | Ret v r => %s\n", out("r"))
	if f.fuel {
		fmt.Fprintf(&b, "  | Next v | Brk v | Cnt v => %s\n", out(fallZero))
		b.WriteString("  | Fuel _ => None\n")
	} else {
		fmt.Fprintf(&b, "  | Next v | Brk v | Cnt v | Fuel v => %s\n", out(fallZero))
	}
	b.WriteString("  end.\n")
	// callers are rewritten with the callee's tie lemma, not unfolded by cbn/simpl (`unfold` still works)
	fmt.Fprintf(&b, "#[global] Arguments %s : simpl never.\n\n", f.coq)
	return b.String()
}

func atomType(s string) string {
	if strings.Contains(s, " ") && !(strings.HasPrefix(s, "(") && closesAtEnd(s)) {
		return "(" + s + ")"
	}
	return s
}

func (t *ftr) namedResults() string {
	parts := make([]string, len(t.results))
	for i, r := range t.results {
		if r == nil {
			parts[i] = t.f.resIt[i].zero(t.u)
		} else {
			parts[i] = r.proj + " v"
		}
	}
	if len(parts) == 1 {
		return parts[0]
	}
	return "(" + strings.Join(parts, ", ") + ")"
}

// ---- statements

func bindText(a, rest string) string {
	if !strings.Contains(a, "\n") {
		return "bind (" + a + ") (fun v =>\n" + rest + ")"
	}
	return "bind (\n" + indent(a, 2) + "\n) (fun v =>\n" + rest + ")"
}

func wrapPre(pre []preItem, core string) string {
	s := core
	for i := len(pre) - 1; i >= 0; i-- {
		s = pre[i].open + "\n" + s + pre[i].close
	}
	return s
}

func (t *ftr) block(list []ast.Stmt) (string, error) {
	var terms []string
	for _, s := range list {
		if _, ok := s.(*ast.EmptyStmt); ok {
			continue
		}
		term, err := t.stmt(s)
		if err != nil {
			return "", err
		}
		terms = append(terms, term)
	}
	if len(terms) == 0 {
		return "Next v", nil
	}
	r := terms[len(terms)-1]
	for i := len(terms) - 2; i >= 0; i-- {
		r = bindText(terms[i], r)
	}
	return r, nil
}

// stmt translates a statement to a term of type ctl (free variable v); calls in its expressions become a prelude
func (t *ftr) stmt(s ast.Stmt) (string, error) {
	saved := t.pre
	t.pre = nil
	core, err := t.stmt1(s)
	pre := t.pre
	t.pre = saved
	if err != nil {
		return "", err
	}
	return wrapPre(pre, core), nil
}

func (t *ftr) posErr(n ast.Node, format string, args ...any) error {
	p := t.pkg.Fset.Position(n.Pos())
	return fmt.Errorf("line %d: %s", p.Line, fmt.Sprintf(format, args...))
}

func (t *ftr) stmt1(s ast.Stmt) (string, error) {
	switch s := s.(type) {
	case *ast.BlockStmt:
		return t.block(s.List)
	case *ast.ExprStmt:
		call, ok := ast.Unparen(s.X).(*ast.CallExpr)
		if !ok {
			return "", t.posErr(s, "unsupported expression statement")
		}
		if st, ok, err := t.stmtIntrinsic(call); ok || err != nil {
			return st, err
		}
		if _, _, err := t.call(call); err != nil {
			return "", err
		}
		return "Next v", nil
	case *ast.IncDecStmt:
		op := token.ADD
		if s.Tok == token.DEC {
			op = token.SUB
		}
		x, ty, err := t.expr(s.X)
		if err != nil {
			return "", err
		}
		one := "1%N"
		if ty.k == kZ {
			one = "1%Z"
		}
		val, err := t.arith(s, op, x, one, ty)
		if err != nil {
			return "", err
		}
		st, err := t.assignTo(s.X, val)
		if err != nil {
			return "", err
		}
		return "Next " + atom(st), nil
	case *ast.AssignStmt:
		return t.assign(s)
	case *ast.DeclStmt:
		gd, ok := s.Decl.(*ast.GenDecl)
		if !ok || gd.Tok == token.TYPE {
			return "", t.posErr(s, "unsupported declaration")
		}
		if gd.Tok == token.CONST {
			return "Next v", nil
		}
		state := "v"
		var lets []string
		for _, sp := range gd.Specs {
			vs := sp.(*ast.ValueSpec)
			if len(vs.Values) != 0 && len(vs.Values) != len(vs.Names) {
				return "", t.posErr(s, "unsupported var declaration")
			}
			for i, n := range vs.Names {
				if n.Name == "_" {
					continue
				}
				lv := t.vars[t.info.Defs[n]]
				val := lv.t.zero(t.u)
				if len(vs.Values) != 0 {
					var err error
					val, _, err = t.expr(vs.Values[i])
					if err != nil {
						return "", err
					}
				}
				lets = append(lets, "let v := "+app(lv.setter, val, "v")+" in")
			}
		}
		return strings.Join(append(lets, "Next "+state), "\n"), nil
	case *ast.ReturnStmt:
		return t.ret(s)
	case *ast.BranchStmt:
		if s.Label != nil {
			return "", t.posErr(s, "labelled branch")
		}
		switch s.Tok {
		case token.BREAK:
			return "Brk v", nil
		case token.CONTINUE:
			return "Cnt v", nil
		}
		return "", t.posErr(s, "unsupported branch statement %s", s.Tok)
	case *ast.IfStmt:
		if s.Init != nil {
			init, err := t.stmt(s.Init)
			if err != nil {
				return "", err
			}
			rest, err := t.stmt(&ast.IfStmt{If: s.If, Cond: s.Cond, Body: s.Body, Else: s.Else})
			if err != nil {
				return "", err
			}
			return bindText(init, rest), nil
		}
		cond, ty, err := t.expr(s.Cond)
		if err != nil {
			return "", err
		}
		if ty.k != kBool {
			return "", t.posErr(s, "condition is not boolean")
		}
		thn, err := t.block(s.Body.List)
		if err != nil {
			return "", err
		}
		els := "Next v"
		if s.Else != nil {
			els, err = t.stmt(s.Else)
			if err != nil {
				return "", err
			}
		}
		return "if " + cond + " then\n" + indent(thn, 2) + "\nelse\n" + indent(els, 2), nil
	case *ast.RangeStmt:
		return t.rangeStmt(s)
	case *ast.ForStmt:
		return t.forStmt(s)
	case *ast.EmptyStmt:
		return "Next v", nil
	}
	return "", t.posErr(s, "unsupported statement %T", s)
}

func (t *ftr) resType() string { return atomType(t.f.res.coq(t.u)) }

func (t *ftr) loopDef(body string, xty string) string {
	t.nloop++
	// inner loops were numbered first (their definitions are complete first): name by completion order
	name := t.u.fresh(fmt.Sprintf("gen_%s_loop%d", t.f.base, len(t.loopDefs)+1))
	fuel := ""
	ref := name
	if fuelWord.MatchString(body) {
		fuel = " (fuel : nat)"
		ref = "(" + name + " fuel)"
	}
	x := ""
	if xty != "" {
		x = " (x : " + xty + ")"
	}
	def := fmt.Sprintf("Definition %s%s (v : %s)%s : ctl %s %s :=\n%s.\n", name, fuel, t.varsName, x, t.varsName, t.resType(), indent(body, 2))
	t.loopDefs = append(t.loopDefs, def)
	return ref
}

func (t *ftr) rangeStmt(s *ast.RangeStmt) (string, error) {
	tv := t.info.Types[s.X]
	xs, xty, err := t.expr(s.X)
	if err != nil {
		return "", err
	}
	var list, elemT string
	var keyVal, valVal string // how the loop variables are read off x
	key, val := s.Key, s.Value
	blank := func(e ast.Expr) bool {
		if e == nil {
			return true
		}
		id, ok := e.(*ast.Ident)
		return ok && id.Name == "_"
	}
	switch xty.k {
	case kList:
		if blank(key) {
			list, elemT, valVal = xs, xty.elem.coq(t.u), "x"
		} else {
			list, elemT = app("lindexed", xs), "Z * "+atom(xty.elem.coq(t.u))
			keyVal, valVal = "fst x", "snd x"
		}
	case kMap:
		list, elemT = app("mitems", xs), "N * "+atom(xty.elem.coq(t.u))
		keyVal, valVal = "fst x", "snd x"
	case kN:
		if _, isBasic := types.Unalias(tv.Type).Underlying().(*types.Basic); !isBasic {
			return "", t.posErr(s, "unsupported range expression")
		}
		list, elemT, keyVal = app("useq", xs), "N", "x"
	default:
		return "", t.posErr(s, "unsupported range expression of type %s", tv.Type)
	}
	body, err := t.block(s.Body.List)
	if err != nil {
		return "", err
	}
	state := "v"
	for _, kv := range []struct {
		e     ast.Expr
		value string
	}{{key, keyVal}, {val, valVal}} {
		if blank(kv.e) {
			continue
		}
		lv := t.identVar(kv.e)
		if lv == nil || kv.value == "" {
			return "", t.posErr(s, "unsupported range variables")
		}
		state = app(lv.setter, kv.value, state)
	}
	if state != "v" {
		body = bindText("Next "+atom(state), body)
	}
	ref := t.loopDef(body, elemT)
	if list == xs {
		list = atom(xs)
	}
	return "range_loop " + ref + " " + atom(list) + " v", nil
}

func (t *ftr) identVar(e ast.Expr) *lvar {
	id, ok := ast.Unparen(e).(*ast.Ident)
	if !ok {
		return nil
	}
	if obj := t.info.Defs[id]; obj != nil {
		return t.vars[obj]
	}
	if obj := t.info.Uses[id]; obj != nil {
		return t.vars[obj]
	}
	return nil
}

func (t *ftr) forStmt(s *ast.ForStmt) (string, error) {
	t.usesFuel = true
	var init string
	if s.Init != nil {
		var err error
		init, err = t.stmt(s.Init)
		if err != nil {
			return "", err
		}
	}
	cond := "true"
	if s.Cond != nil {
		saved := len(t.pre)
		c, ty, err := t.expr(s.Cond)
		if err != nil {
			return "", err
		}
		if len(t.pre) != saved {
			return "", t.posErr(s, "call in a loop condition")
		}
		if ty.k != kBool {
			return "", t.posErr(s, "condition is not boolean")
		}
		cond = c
	}
	post := "v"
	if s.Post != nil {
		p, err := t.stmt(s.Post)
		if err != nil {
			return "", err
		}
		if !strings.HasPrefix(p, "Next ") || strings.Contains(p, "\n") {
			return "", t.posErr(s, "unsupported post statement")
		}
		post = strings.TrimPrefix(p, "Next ")
	}
	body, err := t.block(s.Body.List)
	if err != nil {
		return "", err
	}
	ref := t.loopDef(body, "")
	loop := fmt.Sprintf("while_loop fuel (fun v => %s) %s (fun v => %s) v", cond, ref, post)
	if init != "" {
		return bindText(init, loop), nil
	}
	return loop, nil
}

func (t *ftr) ret(s *ast.ReturnStmt) (string, error) {
	f := t.f
	if len(s.Results) == 0 {
		if len(f.resIt) == 0 {
			return "Ret v tt", nil
		}
		return "Ret v " + atom(t.namedResults()), nil
	}
	if len(s.Results) == 1 && len(f.resIt) > 1 {
		// return g(...) with several results
		call, ok := ast.Unparen(s.Results[0]).(*ast.CallExpr)
		if !ok {
			return "", t.posErr(s, "unsupported return")
		}
		rs, _, err := t.call(call)
		if err != nil {
			return "", err
		}
		return "Ret v (" + strings.Join(rs, ", ") + ")", nil
	}
	if len(s.Results) != len(f.resIt) {
		return "", t.posErr(s, "unsupported return")
	}
	parts := make([]string, len(s.Results))
	for i, r := range s.Results {
		x, ty, err := t.exprAs(r, f.resIt[i])
		if err != nil {
			return "", err
		}
		_ = ty
		parts[i] = x
	}
	if len(parts) == 1 {
		return "Ret v " + atom(parts[0]), nil
	}
	return "Ret v (" + strings.Join(parts, ", ") + ")", nil
}

// assign translates = := and op=
func (t *ftr) assign(s *ast.AssignStmt) (string, error) {
	if s.Tok != token.ASSIGN && s.Tok != token.DEFINE {
		// x op= e
		if len(s.Lhs) != 1 || len(s.Rhs) != 1 {
			return "", t.posErr(s, "unsupported assignment")
		}
		ops := map[token.Token]token.Token{token.ADD_ASSIGN: token.ADD, token.SUB_ASSIGN: token.SUB, token.MUL_ASSIGN: token.MUL,
			token.QUO_ASSIGN: token.QUO, token.REM_ASSIGN: token.REM}
		op, ok := ops[s.Tok]
		if !ok {
			return "", t.posErr(s, "unsupported assignment operator %s", s.Tok)
		}
		r, _, err := t.expr(s.Rhs[0]) // calls of the right-hand side first
		if err != nil {
			return "", err
		}
		l, lt, err := t.expr(s.Lhs[0])
		if err != nil {
			return "", err
		}
		val, err := t.arith(s, op, l, r, lt)
		if err != nil {
			return "", err
		}
		st, err := t.assignTo(s.Lhs[0], val)
		if err != nil {
			return "", err
		}
		return "Next " + atom(st), nil
	}
	if len(s.Lhs) == 1 && len(s.Rhs) == 1 {
		if err := t.aliasCheck(s.Rhs[0]); err != nil {
			return "", err
		}
		lt, err := t.lhsType(s.Lhs[0])
		if err != nil {
			return "", err
		}
		val, _, err := t.exprAs(s.Rhs[0], lt)
		if err != nil {
			return "", err
		}
		st, err := t.assignVar(s.Lhs[0], val)
		if err != nil {
			return "", err
		}
		return "Next " + atom(st), nil
	}
	var vals []string
	if len(s.Rhs) == 1 {
		switch r := ast.Unparen(s.Rhs[0]).(type) {
		case *ast.CallExpr:
			rs, _, err := t.call(r)
			if err != nil {
				return "", err
			}
			if len(rs) != len(s.Lhs) {
				return "", t.posErr(s, "unsupported assignment")
			}
			vals = rs
		case *ast.IndexExpr:
			// v, ok := m[k]
			m, mt, err := t.expr(r.X)
			if err != nil {
				return "", err
			}
			if mt.k != kMap || len(s.Lhs) != 2 {
				return "", t.posErr(s, "unsupported assignment")
			}
			k, _, err := t.expr(r.Index)
			if err != nil {
				return "", err
			}
			vals = []string{app("mget", mt.elem.zero(t.u), m, k), app("mhas", m, k)}
		default:
			return "", t.posErr(s, "unsupported assignment")
		}
	} else {
		if len(s.Lhs) != len(s.Rhs) {
			return "", t.posErr(s, "unsupported assignment")
		}
		for i, r := range s.Rhs {
			if err := t.aliasCheck(r); err != nil {
				return "", err
			}
			lt, err := t.lhsType(s.Lhs[i])
			if err != nil {
				return "", err
			}
			x, _, err := t.exprAs(r, lt)
			if err != nil {
				return "", err
			}
			// the values are computed on the state before any of the assignments
			t.tmp++
			name := fmt.Sprintf("t%d", t.tmp)
			t.pre = append(t.pre, preItem{open: "let " + name + " := " + x + " in"})
			vals = append(vals, name)
		}
	}
	var lets []string
	for i, l := range s.Lhs {
		if id, ok := ast.Unparen(l).(*ast.Ident); ok && id.Name == "_" {
			continue
		}
		st, err := t.assignVar(l, vals[i])
		if err != nil {
			return "", err
		}
		lets = append(lets, "let v := "+st+" in")
	}
	return strings.Join(append(lets, "Next v"), "\n"), nil
}

// the type an assignment target expects (nil: new variable of the right-hand side's type)
func (t *ftr) lhsType(l ast.Expr) (*ctype, error) {
	if id, ok := ast.Unparen(l).(*ast.Ident); ok {
		if id.Name == "_" {
			return nil, nil
		}
		if lv := t.identVar(id); lv != nil {
			return lv.t, nil
		}
	}
	tv, ok := t.info.Types[l]
	if !ok {
		return nil, nil
	}
	return t.u.ctype(tv.Type)
}

// aliasCheck rejects `m := dsc.tactic`: two names for one map (or pointer) cannot be modelled by values
func (t *ftr) aliasCheck(r ast.Expr) error {
	tv, ok := t.info.Types[r]
	if !ok || tv.Type == nil {
		return nil
	}
	ty, err := t.u.ctype(tv.Type)
	if err != nil || !ty.isRef() {
		return nil
	}
	switch x := ast.Unparen(r).(type) {
	case *ast.Ident:
		if x.Name == "nil" {
			return nil
		}
		return t.posErr(r, "a second name for a map or pointer (aliasing) is not supported")
	case *ast.SelectorExpr, *ast.IndexExpr:
		return t.posErr(r, "a second name for a map or pointer (aliasing) is not supported")
	}
	return nil
}

// assignTo gives the state after an update of the object that lhs denotes (an element or field is written, or a callee
// changed it in place); reads inside refer to v
func (t *ftr) assignTo(lhs ast.Expr, val string) (string, error) { return t.assignTo1(lhs, val, false) }

// assignVar gives the state after the assignment statement `lhs = val`: when lhs is a reference parameter itself, the
// variable stops denoting the caller's object
func (t *ftr) assignVar(lhs ast.Expr, val string) (string, error) { return t.assignTo1(lhs, val, true) }

func (t *ftr) assignTo1(lhs ast.Expr, val string, whole bool) (string, error) {
	switch l := ast.Unparen(lhs).(type) {
	case *ast.Ident:
		if l.Name == "_" {
			return "v", nil
		}
		lv := t.identVar(l)
		if lv == nil {
			return "", t.posErr(lhs, "assignment to %s", l.Name)
		}
		if lv.caller != nil && whole {
			c := lv.caller
			return app(lv.setter, val, app(c.setter, app("detach", c.proj+" v", lv.proj+" v"), "v")), nil
		}
		return app(lv.setter, val, "v"), nil
	case *ast.StarExpr:
		return t.assignTo(l.X, val)
	case *ast.SelectorExpr:
		sel, ok := t.info.Selections[l]
		if !ok || sel.Kind() != types.FieldVal {
			return "", t.posErr(lhs, "unsupported assignment target")
		}
		n := len(t.pre)
		base, bt, err := t.expr(l.X)
		if err != nil {
			return "", err
		}
		if len(t.pre) != n {
			return "", t.posErr(lhs, "call in an assignment target")
		}
		if bt.k != kRecord || len(sel.Index()) != 1 {
			return "", t.posErr(lhs, "unsupported assignment target")
		}
		fd := bt.rec.field(l.Sel.Name)
		return t.assignTo(l.X, app(fd.setter, val, base))
	case *ast.IndexExpr:
		n := len(t.pre)
		base, bt, err := t.expr(l.X)
		if err != nil {
			return "", err
		}
		idx, it, err := t.expr(l.Index)
		if err != nil {
			return "", err
		}
		if len(t.pre) != n {
			return "", t.posErr(lhs, "call in an assignment target")
		}
		switch bt.k {
		case kMap:
			return t.assignTo(l.X, app("mset", base, idx, val))
		case kList:
			return t.assignTo(l.X, app("lset", base, toNat(idx, it), val))
		}
		return "", t.posErr(lhs, "unsupported assignment target")
	}
	return "", t.posErr(lhs, "unsupported assignment target")
}

func toNat(x string, ty *ctype) string {
	if m := natLit.FindStringSubmatch(x); m != nil {
		return m[1] + "%nat"
	}
	if ty.k == kN {
		return app("N.to_nat", x)
	}
	return app("Z.to_nat", x)
}

// statement-level intrinsics: the in-place operations on slices and maps
func (t *ftr) stmtIntrinsic(call *ast.CallExpr) (string, bool, error) {
	fun := ast.Unparen(call.Fun)
	if id, ok := fun.(*ast.Ident); ok {
		if b, ok := t.info.Uses[id].(*types.Builtin); ok {
			switch b.Name() {
			case "delete":
				m, mt, err := t.expr(call.Args[0])
				if err != nil {
					return "", true, err
				}
				k, _, err := t.expr(call.Args[1])
				if err != nil {
					return "", true, err
				}
				if mt.k != kMap {
					return "", true, t.posErr(call, "delete on a non-map")
				}
				st, err := t.assignTo(call.Args[0], app("mdel", m, k))
				return "Next " + atom(st), true, err
			case "clear":
				m, mt, err := t.expr(call.Args[0])
				if err != nil {
					return "", true, err
				}
				var val string
				switch mt.k {
				case kMap:
					val = app("mclear", m)
				default:
					return "", true, t.posErr(call, "clear of a slice is not supported")
				}
				st, err := t.assignTo(call.Args[0], val)
				return "Next " + atom(st), true, err
			case "copy":
				d, dt, err := t.expr(call.Args[0])
				if err != nil {
					return "", true, err
				}
				s, _, err := t.expr(call.Args[1])
				if err != nil {
					return "", true, err
				}
				if dt.k != kList {
					return "", true, t.posErr(call, "copy to a non-slice")
				}
				st, err := t.assignTo(call.Args[0], app("lcopy", d, s))
				return "Next " + atom(st), true, err
			}
		}
	}
	if callee := t.staticCallee(call); callee != nil {
		if di := t.u.prog.decls[callee.Origin()]; di != nil && callee.Name() == "SortPriorities" && strings.HasSuffix(callee.Pkg().Path(), "priority/internal/common") {
			if reason := checkSortPriorities(di); reason != "" {
				return "", true, t.posErr(call, "%s", reason)
			}
			x, xt, err := t.expr(call.Args[0])
			if err != nil {
				return "", true, err
			}
			if xt.k != kList {
				return "", true, t.posErr(call, "SortPriorities of a non-slice")
			}
			st, err := t.assignTo(call.Args[0], app("sort_desc", x))
			return "Next " + atom(st), true, err
		}
	}
	return "", false, nil
}
