package main

// Part 2: the goroutine bodies (channel code) as data for the small-step semantics GoConc.v (see SPEC_CONC.md).

import (
	"fmt"
	"go/ast"
	"go/token"
	"go/types"
	"strings"
)

type concSpec struct {
	file  string   // GenConcV2Prio.v
	part1 string   // the part-1 unit whose definitions are imported
	dir   string   // package directory
	roots []string // "Discipline.main"
}

var concSpecs = []concSpec{
	{file: "GenConcV2Prio.v", part1: "GenV2Prio.v", dir: "v2/priority", roots: []string{"Discipline.main"}},
	{file: "GenConcLimit.v", part1: "GenLimit.v", dir: "v2/limit", roots: []string{"Discipline.main"}},
	{file: "GenConcJoinV2.v", part1: "GenJoinV2.v", dir: "v2/join", roots: []string{"Discipline.main"}},
	{file: "GenConcUnite.v", part1: "GenJoinUniteV2.v", dir: "v2/join/unite", roots: []string{"Discipline.main"}},
	{file: "GenConcV1Prio.v", part1: "GenV1Prio.v", dir: "priority", roots: []string{"Discipline.main"}},
	{file: "GenConcJoinV1.v", part1: "GenJoinV1.v", dir: "join", roots: []string{"Discipline.main"}},
	// v1 Simple: only the handler goroutine (main and gracefulStop start goroutines, which GoConc.v does not model)
	{file: "GenConcV1Simple.v", part1: "GenV1Simple.v", dir: "priority", roots: []string{"Simple.handler"}},
}

type concFn struct {
	obj    *types.Func
	di     *declInfo
	goName string
	base   string // Go name of the function: prefix of its fields
	ctor   string // constructor of the function-name type
	bodyN  string // name of the Definition of the body
	t      *ftr
	params []*lvar
	rets   []*lvar
	body   []string
	state  int
	ntemp  int
}

type ctr struct {
	u         *unit
	spec      concSpec
	fns       map[*types.Func]*concFn
	order     []*concFn
	fields    []*lvar // the fields of G, in order
	recvKey   string  // the receiver type of all goroutine functions
	recvT     *ctype
	chans     []string // constructors of the channel-identifier type, with their argument ("" or "N")
	chanArg   map[string]string
	pays      []string // payload constructors
	payT      map[string]*ctype
	names     struct{ g, mkG, zeroG, state, chanT, payT, fnT, table string }
	recStart  int
	usesCap   bool
	hasTicker bool
	shadow    map[string]*lvar // time.Time fields of the receiver: kept as Z in G (part 1 keeps them opaque)
}

func title(s string) string {
	if s == "" {
		return s
	}
	return strings.ToUpper(s[:1]) + s[1:]
}

// translateConc renders the part-2 file of a unit that has been translated (and rendered) by part 1
func (u *unit) translateConc(spec concSpec) (string, []indexEntry, error) {
	c := &ctr{u: u, spec: spec, fns: map[*types.Func]*concFn{}, chanArg: map[string]string{}, payT: map[string]*ctype{}}
	c.recStart = len(u.recOrder)
	nerrs := len(u.errs)
	norder := len(u.order)
	c.names.g = u.fresh("G")
	c.names.mkG = u.fresh("mk_G")
	c.names.zeroG = u.fresh("zero_G")
	c.names.state = u.fresh("cstate")
	c.names.chanT = u.fresh("chan_id")
	c.names.payT = u.fresh("payload")
	c.names.fnT = u.fresh("fname")
	c.names.table = u.fresh("table")
	for _, n := range []string{"st_dsc", "set_st_dsc", "st_w", "set_st_w", "chan_cap"} {
		if u.names[n] {
			return "", nil, fmt.Errorf("name %s is taken", n)
		}
		u.names[n] = true
	}
	for _, r := range spec.roots {
		obj, err := u.prog.lookup(spec.dir, r)
		if err != nil {
			return "", nil, fmt.Errorf("root %s.%s: %v", spec.dir, r, err)
		}
		if _, err := c.need(obj); err != nil {
			return "", nil, fmt.Errorf("root %s.%s cannot be translated: %v", spec.dir, r, err)
		}
	}
	if len(u.errs) != nerrs {
		return "", nil, fmt.Errorf("the goroutine mentions error values that %s does not define: %v", spec.part1, u.errs[nerrs:])
	}
	if len(u.order) != norder {
		return "", nil, fmt.Errorf("the goroutine calls sequential functions that %s does not contain", spec.part1)
	}
	text := c.render()
	var idx []indexEntry
	for _, f := range c.order {
		idx = append(idx, indexEntry{Go: f.goName, Coq: f.bodyN, Sig: "list (stmt " + strings.Join([]string{c.names.state, c.names.payT, c.names.chanT, c.names.fnT}, " ") + ")"})
	}
	return text, idx, nil
}

// need translates a goroutine function (one that part 1 cannot translate)
func (c *ctr) need(obj *types.Func) (*concFn, error) {
	obj = obj.Origin()
	if f, ok := c.fns[obj]; ok {
		if f.state == 1 {
			return nil, fmt.Errorf("recursion is not supported")
		}
		return f, nil
	}
	di := c.u.prog.decls[obj]
	if di == nil || di.decl.Body == nil {
		return nil, fmt.Errorf("%s: no source", obj.FullName())
	}
	f := &concFn{obj: obj, di: di, goName: c.u.prog.goName(obj), base: obj.Name(), state: 1}
	c.fns[obj] = f
	if err := c.translate(f); err != nil {
		return nil, fmt.Errorf("%s: %v", f.goName, err)
	}
	f.state = 2
	c.order = append(c.order, f)
	return f, nil
}

// shadowField: `dsc.passAt` (a time.Time field of the receiver) is the hidden variable dsc_passAt of G
func (x *cctx) shadowField(e ast.Expr) *lvar {
	sel, ok := ast.Unparen(e).(*ast.SelectorExpr)
	if !ok {
		return nil
	}
	if lv := x.t.identVar(sel.X); lv == nil || lv.proj != "st_dsc" {
		return nil
	}
	tv, ok := x.t.info.Types[sel]
	if !ok {
		return nil
	}
	n, ok := types.Unalias(tv.Type).(*types.Named)
	if !ok || namedKey(n) != "time.Time" {
		return nil
	}
	c := x.c
	if c.shadow == nil {
		c.shadow = map[string]*lvar{}
	}
	if lv, ok := c.shadow[sel.Sel.Name]; ok {
		return lv
	}
	name := "dsc_" + sel.Sel.Name
	lv := &lvar{goName: name, t: tZ}
	lv.proj = c.u.fresh(name)
	lv.setter = c.u.fresh("set_" + name)
	lv.binder = c.u.fresh("G_" + name)
	c.fields = append(c.fields, lv)
	c.shadow[sel.Sel.Name] = lv
	return lv
}

// the type of a variable of a goroutine function: time.Time values are nanoseconds (Z) here (part 1 keeps them opaque)
func (c *ctr) varType(t types.Type) (*ctype, error) {
	if n, ok := types.Unalias(t).(*types.Named); ok && namedKey(n) == "time.Time" {
		return tZ, nil
	}
	return c.u.ctype(t)
}

func (c *ctr) newField(f *concFn, goName string, ty *ctype, obj types.Object) *lvar {
	u := c.u
	name := f.base + "_" + goName
	lv := &lvar{obj: obj, goName: name, t: ty}
	lv.proj = u.fresh(name)
	lv.setter = u.fresh("set_" + name)
	lv.binder = u.fresh("G_" + name) // the field of G
	c.fields = append(c.fields, lv)
	return lv
}

func (c *ctr) translate(f *concFn) error {
	u := c.u
	decl := f.di.decl
	info := f.di.pkg.TypesInfo
	sig := f.obj.Type().(*types.Signature)
	if sig.Recv() == nil {
		return fmt.Errorf("not a method")
	}
	if sig.Variadic() {
		return fmt.Errorf("variadic function")
	}
	rt, err := u.ctype(sig.Recv().Type())
	if err != nil {
		return err
	}
	if rt.k != kRecord || !rt.ptr {
		return fmt.Errorf("the receiver is not a pointer to a struct")
	}
	if c.recvT == nil {
		c.recvT, c.recvKey = rt, rt.rec.key
	} else if c.recvKey != rt.rec.key {
		return fmt.Errorf("a second receiver type")
	}
	f.ctor = u.fresh("F_" + f.base)
	f.bodyN = u.fresh("body_" + f.base)
	t := &ftr{u: u, f: &fn{obj: f.obj, di: f.di, res: &ctype{k: kTuple}}, pkg: f.di.pkg, info: info, vars: map[types.Object]*lvar{},
		subst: map[ast.Expr]*substVal{}}
	f.t = t
	cx := &cctx{c: c, f: f, t: t}
	t.chanCap = func(e ast.Expr) (string, error) {
		ch, _, err := cx.chanExpr(e)
		if err != nil {
			return "", err
		}
		c.usesCap = true
		return app("chan_cap", ch), nil
	}
	t.wvar = &lvar{goName: "w", proj: "st_w", setter: "set_st_w", hidden: true}
	// receiver
	if len(decl.Recv.List) == 1 && len(decl.Recv.List[0].Names) == 1 && decl.Recv.List[0].Names[0].Name != "_" {
		t.vars[info.Defs[decl.Recv.List[0].Names[0]]] = &lvar{goName: "dsc", proj: "st_dsc", setter: "set_st_dsc", t: rt}
	}
	// parameters
	for _, fd := range decl.Type.Params.List {
		if len(fd.Names) == 0 {
			return fmt.Errorf("unnamed parameter")
		}
		for _, n := range fd.Names {
			obj := info.Defs[n]
			ty, err := c.varType(obj.Type())
			if err != nil {
				return fmt.Errorf("parameter %s: %v", n.Name, err)
			}
			if ty.isRef() {
				return fmt.Errorf("parameter %s of reference kind", n.Name)
			}
			lv := c.newField(f, n.Name, ty, obj)
			t.vars[obj] = lv
			f.params = append(f.params, lv)
		}
	}
	for i := 0; i < sig.Results().Len(); i++ {
		ty, err := c.varType(sig.Results().At(i).Type())
		if err != nil {
			return fmt.Errorf("result %d: %v", i, err)
		}
		f.rets = append(f.rets, c.newField(f, fmt.Sprintf("ret%d", i), ty, nil))
	}
	if decl.Type.Results != nil {
		for _, fd := range decl.Type.Results.List {
			if len(fd.Names) != 0 {
				return fmt.Errorf("named results")
			}
		}
	}
	// locals
	var locals []*ast.Ident
	bad := ""
	ast.Inspect(decl.Body, func(n ast.Node) bool {
		switch x := n.(type) {
		case *ast.FuncLit:
			bad = "contains a closure"
		case *ast.GoStmt:
			bad = "starts a goroutine"
		case *ast.LabeledStmt:
			bad = "uses labels"
		case *ast.Ident:
			if x.Name != "_" {
				if v, ok := info.Defs[x].(*types.Var); ok && !v.IsField() {
					locals = append(locals, x)
				}
			}
		}
		return true
	})
	if bad != "" {
		return fmt.Errorf("%s", bad)
	}
	used := map[string]int{}
	for _, p := range f.params {
		used[strings.TrimPrefix(p.goName, f.base+"_")]++
	}
	for _, id := range locals {
		obj := info.Defs[id]
		if _, ok := t.vars[obj]; ok {
			continue
		}
		ty, err := c.varType(obj.Type())
		if err != nil {
			return fmt.Errorf("variable %s: %v", id.Name, err)
		}
		n := id.Name
		used[n]++
		if used[n] > 1 {
			n = fmt.Sprintf("%s_%d", n, used[n]-1)
		}
		t.vars[obj] = c.newField(f, n, ty, obj)
	}
	body, err := cx.block(decl.Body.List)
	if err != nil {
		return err
	}
	f.body = body
	u.files[u.prog.dirOf[f.obj.Pkg().Path()]+"/"+f.di.file] = true
	return nil
}

// ---- statements

type cctx struct {
	c        *ctr
	f        *concFn
	t        *ftr
	inSelect int // > 0: inside a select clause with no loop in between (break would refer to the select)
}

func (x *cctx) temp(kind string, ty *ctype) *lvar {
	x.f.ntemp++
	return x.c.newField(x.f, fmt.Sprintf("%s%d", kind, x.f.ntemp), ty, nil)
}

func fun(body string) string {
	if strings.Contains(body, "\n") {
		return "(fun v =>\n" + indent(body, 4) + ")"
	}
	return "(fun v => " + body + ")"
}

func listText(items []string) string {
	if len(items) == 0 {
		return "[]"
	}
	return "[\n" + indent(strings.Join(items, ";\n"), 2) + "\n]"
}

func (x *cctx) block(list []ast.Stmt) ([]string, error) {
	var out []string
	for _, s := range list {
		ss, err := x.stmt(s)
		if err != nil {
			return nil, err
		}
		out = append(out, ss...)
	}
	return out, nil
}

// atom turns a simple statement into Atom (fun v => state'); operations with the environment inside it come first
func (x *cctx) atom(s ast.Stmt) ([]string, error) {
	pre, err := x.hoist(s)
	if err != nil {
		return nil, err
	}
	term, err := x.t.stmt(s)
	if err != nil {
		return nil, err
	}
	st, err := stripNext(term)
	if err != nil {
		return nil, x.t.posErr(s, "%v", err)
	}
	return append(pre, "Atom "+fun(st)), nil
}

// the part-1 term of a simple statement is `lets... Next <state>`
func stripNext(term string) (string, error) {
	if strings.Contains(term, "Fuel v") {
		return "", fmt.Errorf("a call that needs fuel")
	}
	i := strings.LastIndex(term, "\nNext ")
	if strings.HasPrefix(term, "Next ") && i < 0 {
		return strings.TrimPrefix(term, "Next "), nil
	}
	if i < 0 {
		return "", fmt.Errorf("not a simple statement")
	}
	rest := term[i+len("\nNext "):]
	if strings.Contains(rest, "\n") {
		return "", fmt.Errorf("not a simple statement")
	}
	return term[:i+1] + rest, nil
}

// pure translates an expression that must not involve the environment; calls of sequential functions are allowed when
// withCalls (their prelude is returned)
func (x *cctx) expr(e ast.Expr) (string, *ctype, []preItem, error) {
	saved := x.t.pre
	x.t.pre = nil
	s, ty, err := x.t.expr(e)
	pre := x.t.pre
	x.t.pre = saved
	return s, ty, pre, err
}

// cond translates a condition: (statements to run first, the boolean function)
func (x *cctx) cond(e ast.Expr) ([]string, string, error) {
	pre, err := x.hoist(e)
	if err != nil {
		return nil, "", err
	}
	s, ty, p, err := x.expr(e)
	if err != nil {
		return nil, "", err
	}
	if ty.k != kBool {
		return nil, "", x.t.posErr(e, "condition is not boolean")
	}
	if len(p) == 0 {
		return pre, fun(s), nil
	}
	// the condition calls sequential functions (which thread the state): evaluate it into a hidden variable
	tmp := x.temp("c", tBool)
	for _, it := range p {
		if it.close != "" {
			return nil, "", x.t.posErr(e, "a call that needs fuel")
		}
	}
	pre = append(pre, "Atom "+fun(wrapPre(p, app(tmp.setter, s, "v"))))
	return pre, fun(tmp.proj + " v"), nil
}

func (x *cctx) isConc(call *ast.CallExpr) (*types.Func, bool) {
	callee := x.t.staticCallee(call)
	if callee == nil || callee.Pkg() == nil || !inModules(callee.Pkg().Path()) {
		return nil, false
	}
	if isSortPriorities(&fn{obj: callee}) != "" {
		return nil, false
	}
	if g := x.c.u.need(callee); g.err == nil {
		return nil, false
	}
	return callee, true
}

// callConc: parameters into the callee's fields, Call; the results are read from the callee's result fields
func (x *cctx) callConc(call *ast.CallExpr, callee *types.Func) ([]string, *substVal, error) {
	g, err := x.c.need(callee)
	if err != nil {
		return nil, nil, fmt.Errorf("calls %v", err)
	}
	sel, ok := ast.Unparen(call.Fun).(*ast.SelectorExpr)
	if !ok {
		return nil, nil, x.t.posErr(call, "unsupported call of a goroutine function")
	}
	if lv := x.t.identVar(sel.X); lv == nil || lv.proj != "st_dsc" {
		return nil, nil, x.t.posErr(call, "a goroutine function is called on something else than the receiver")
	}
	if len(call.Args) != len(g.params) {
		return nil, nil, x.t.posErr(call, "wrong number of arguments")
	}
	var out []string
	if len(call.Args) > 0 {
		st := "v"
		for i, a := range call.Args {
			s, _, p, err := x.expr(a)
			if err != nil {
				return nil, nil, err
			}
			if len(p) != 0 {
				return nil, nil, x.t.posErr(a, "a call in an argument of a goroutine function")
			}
			st = app(g.params[i].setter, s, st)
		}
		out = append(out, "Atom "+fun(st))
	}
	out = append(out, "Call "+g.ctor)
	sv := &substVal{}
	for _, r := range g.rets {
		sv.texts = append(sv.texts, r.proj+" v")
		sv.tys = append(sv.tys, r.t)
	}
	return out, sv, nil
}

// hoist moves the receives and the calls of goroutine functions that occur inside n in front of it (inner ones first) and
// records what to read in their place
func (x *cctx) hoist(n ast.Node) ([]string, error) {
	var out []string
	var err error
	seen := map[*types.Func]bool{}
	var stack []ast.Node
	ast.Inspect(n, func(m ast.Node) bool {
		if err != nil {
			return false
		}
		if m != nil {
			if be, ok := m.(*ast.BinaryExpr); ok && (be.Op == token.LAND || be.Op == token.LOR) {
				if involvesEnv(x, be.Y) {
					err = x.t.posErr(be, "a channel operation or a call of a goroutine function in the right operand of %s", be.Op)
					return false
				}
			}
			stack = append(stack, m)
			return true
		}
		top := stack[len(stack)-1]
		stack = stack[:len(stack)-1]
		switch e := top.(type) {
		case *ast.SelectorExpr:
			if lv := x.shadowField(e); lv != nil {
				x.t.subst[e] = &substVal{texts: []string{lv.proj + " v"}, tys: []*ctype{tZ}}
			}
		case *ast.UnaryExpr:
			if e.Op == token.ARROW {
				ch, elem, cerr := x.chanExpr(e.X)
				if cerr != nil {
					err = cerr
					return false
				}
				ty, terr := x.c.u.ctype(elem)
				if terr != nil {
					err = x.t.posErr(e, "%v", terr)
					return false
				}
				tmp := x.temp("recv", ty)
				get, gerr := x.c.fromPayload("o", ty)
				if gerr != nil {
					err = x.t.posErr(e, "%v", gerr)
					return false
				}
				out = append(out, fmt.Sprintf("Recv (fun v => %s) (fun v o => %s)", ch, app(tmp.setter, get, "v")))
				x.t.subst[e] = &substVal{texts: []string{tmp.proj + " v"}, tys: []*ctype{ty}}
			}
		case *ast.CallExpr:
			if name := timeFunc(x.t, e); name == "Now" || name == "Since" {
				tmp := x.temp("now", tZ)
				out = append(out, fmt.Sprintf("Now (fun v t => %s)", app(tmp.setter, "t", "v")))
				val := tmp.proj + " v"
				if name == "Since" {
					a, at, p, aerr := x.expr(e.Args[0])
					if aerr != nil {
						err = aerr
						return false
					}
					if len(p) != 0 || at.k != kZ {
						err = x.t.posErr(e, "unsupported operand of time.Since")
						return false
					}
					val = app("i_sub", val, a)
				}
				x.t.subst[e] = &substVal{texts: []string{val}, tys: []*ctype{tZ}}
				return true
			}
			if callee, ok := x.isConc(e); ok {
				if seen[callee.Origin()] {
					err = x.t.posErr(e, "two calls of the same goroutine function in one statement")
					return false
				}
				seen[callee.Origin()] = true
				ss, sv, cerr := x.callConc(e, callee)
				if cerr != nil {
					err = cerr
					return false
				}
				out = append(out, ss...)
				x.t.subst[e] = sv
			}
		}
		return true
	})
	return out, err
}

// timeFunc: "Now" / "Since" for a call of time.Now / time.Since
func timeFunc(t *ftr, call *ast.CallExpr) string {
	if callee := t.staticCallee(call); callee != nil && callee.Pkg() != nil && callee.Pkg().Path() == "time" &&
		callee.Type().(*types.Signature).Recv() == nil {
		return callee.Name()
	}
	return ""
}

func involvesEnv(x *cctx, n ast.Node) bool {
	found := false
	ast.Inspect(n, func(m ast.Node) bool {
		switch e := m.(type) {
		case *ast.UnaryExpr:
			found = found || e.Op == token.ARROW
		case *ast.CallExpr:
			if _, ok := x.isConc(e); ok {
				found = true
			}
			if n := timeFunc(x.t, e); n == "Now" || n == "Since" {
				found = true
			}
		}
		return !found
	})
	return found
}

func (x *cctx) stmt(s ast.Stmt) ([]string, error) {
	t := x.t
	switch s := s.(type) {
	case *ast.EmptyStmt:
		return nil, nil
	case *ast.BlockStmt:
		return x.block(s.List)
	case *ast.GoStmt:
		return nil, t.posErr(s, "starts a goroutine")
	case *ast.IfStmt:
		var out []string
		if s.Init != nil {
			ss, err := x.stmt(s.Init)
			if err != nil {
				return nil, err
			}
			out = append(out, ss...)
		}
		pre, c, err := x.cond(s.Cond)
		if err != nil {
			return nil, err
		}
		out = append(out, pre...)
		thn, err := x.block(s.Body.List)
		if err != nil {
			return nil, err
		}
		var els []string
		if s.Else != nil {
			els, err = x.stmt(s.Else)
			if err != nil {
				return nil, err
			}
		}
		return append(out, "If "+c+" "+listText(thn)+" "+listText(els)), nil
	case *ast.ForStmt:
		return x.forStmt(s)
	case *ast.RangeStmt:
		return x.rangeStmt(s)
	case *ast.BranchStmt:
		if s.Label != nil {
			return nil, t.posErr(s, "labelled branch")
		}
		switch s.Tok {
		case token.BREAK:
			if x.inSelect > 0 {
				return nil, t.posErr(s, "break inside select (it would leave the select, not the loop)")
			}
			return []string{"Break"}, nil
		case token.CONTINUE:
			return []string{"Continue"}, nil
		}
		return nil, t.posErr(s, "unsupported branch statement")
	case *ast.ReturnStmt:
		return x.ret(s)
	case *ast.SendStmt:
		pre, err := x.hoist(s.Value)
		if err != nil {
			return nil, err
		}
		ch, elem, err := x.chanExpr(s.Chan)
		if err != nil {
			return nil, err
		}
		ety, err := x.c.u.ctype(elem)
		if err != nil {
			return nil, t.posErr(s, "%v", err)
		}
		val, _, p, err := x.exprAs(s.Value, ety)
		if err != nil {
			return nil, err
		}
		if len(p) != 0 {
			return nil, t.posErr(s, "a call in the operand of a send")
		}
		pv, err := x.c.toPayload(val, ety)
		if err != nil {
			return nil, t.posErr(s, "%v", err)
		}
		return append(pre, fmt.Sprintf("Send (fun v => %s) (fun v => %s)", ch, pv)), nil
	case *ast.DeferStmt:
		old := x.inSelect
		x.inSelect = 0
		defer func() { x.inSelect = old }()
		if len(s.Call.Args) != 0 {
			if id, ok := ast.Unparen(s.Call.Fun).(*ast.Ident); !ok || id.Name != "close" {
				return nil, t.posErr(s, "a deferred call with arguments")
			}
			if err := x.stableChan(s.Call.Args[0]); err != nil {
				return nil, err
			}
		}
		body, err := x.stmt(&ast.ExprStmt{X: s.Call})
		if err != nil {
			return nil, err
		}
		return []string{"Defer " + listText(body)}, nil
	case *ast.SelectStmt:
		return x.selectStmt(s)
	case *ast.ExprStmt:
		e := ast.Unparen(s.X)
		if ue, ok := e.(*ast.UnaryExpr); ok && ue.Op == token.ARROW {
			ch, _, err := x.chanExpr(ue.X)
			if err != nil {
				return nil, err
			}
			return []string{fmt.Sprintf("Recv (fun v => %s) (fun v o => v)", ch)}, nil
		}
		if call, ok := e.(*ast.CallExpr); ok {
			// smpl.opts.Handle(ctx, item): a call of a callback stored in the receiver -- a synchronous hand-over to the
			// environment: a send of the (one) non-opaque argument on the pseudo-channel C<field>Call, answered when it returns
			if fs, ok := ast.Unparen(call.Fun).(*ast.SelectorExpr); ok && t.staticCallee(call) == nil {
				root := ast.Unparen(fs.X)
				if inner, ok := root.(*ast.SelectorExpr); ok {
					root = ast.Unparen(inner.X)
				}
				if lv := t.identVar(root); lv != nil && lv.proj == "st_dsc" {
					if ft, ok := t.info.Types[fs]; ok {
						if _, isSig := types.Unalias(ft.Type).Underlying().(*types.Signature); isSig {
							var vals []string
							var vty *ctype
							for _, a := range call.Args {
								s, at, p, err := x.expr(a)
								if err != nil {
									return nil, err
								}
								if len(p) != 0 {
									return nil, t.posErr(call, "a call in an argument of a callback")
								}
								if at.k == kOpaque {
									continue
								}
								vals, vty = append(vals, s), at
							}
							if len(vals) != 1 {
								return nil, t.posErr(call, "a callback with other than one non-opaque argument")
							}
							pv, err := x.c.toPayload(vals[0], vty)
							if err != nil {
								return nil, t.posErr(call, "%v", err)
							}
							return []string{fmt.Sprintf("Send (fun v => %s) (fun v => %s)", x.c.chanCtor("C"+title(fs.Sel.Name)+"Call", ""), pv)}, nil
						}
					}
				}
			}
			if id, ok := ast.Unparen(call.Fun).(*ast.Ident); ok {
				if b, ok := t.info.Uses[id].(*types.Builtin); ok && b.Name() == "close" {
					ch, _, err := x.chanExpr(call.Args[0])
					if err != nil {
						return nil, err
					}
					return []string{fmt.Sprintf("Close (fun v => %s)", ch)}, nil
				}
			}
			if callee := t.staticCallee(call); callee != nil && callee.Pkg() != nil {
				switch {
				case callee.Pkg().Path() == "time" && callee.Name() == "Sleep":
					pre, err := x.hoist(call.Args[0])
					if err != nil {
						return nil, err
					}
					d, _, p, err := x.expr(call.Args[0])
					if err != nil {
						return nil, err
					}
					if len(p) != 0 {
						return nil, t.posErr(s, "a call in the operand of Sleep")
					}
					return append(pre, "Sleep "+fun(d)), nil
				case callee.Pkg().Path() == "time" && callee.Name() == "Stop" && recvName(callee) == "Ticker":
					return []string{"TickerStop"}, nil
				case callee.Pkg().Path() == "sync" && callee.Name() == "Done" && recvName(callee) == "WaitGroup":
					// smpl.wg.Done(): the goroutine tells the WaitGroup that it has ended -- a close of the channel C<field>Done
					if ms, ok := ast.Unparen(call.Fun).(*ast.SelectorExpr); ok {
						if fs, ok := ast.Unparen(ms.X).(*ast.SelectorExpr); ok {
							if lv := t.identVar(fs.X); lv != nil && lv.proj == "st_dsc" {
								return []string{fmt.Sprintf("Close (fun v => %s)", x.c.chanCtor("C"+title(fs.Sel.Name)+"Done", ""))}, nil
							}
						}
					}
				case strings.HasSuffix(callee.Pkg().Path(), "akramarenkov/breaker") && callee.Name() == "Complete":
					// dsc.breaker.Complete(): the goroutine tells the breaker that it has ended -- a close of the channel C<field>Complete
					if ms, ok := ast.Unparen(call.Fun).(*ast.SelectorExpr); ok {
						if fs, ok := ast.Unparen(ms.X).(*ast.SelectorExpr); ok {
							if lv := t.identVar(fs.X); lv != nil && lv.proj == "st_dsc" {
								return []string{fmt.Sprintf("Close (fun v => %s)", x.c.chanCtor("C"+title(fs.Sel.Name)+"Complete", ""))}, nil
							}
						}
					}
				}
				if c2, ok := x.isConc(call); ok {
					pre, err := x.hoistArgs(call)
					if err != nil {
						return nil, err
					}
					ss, _, err := x.callConc(call, c2)
					if err != nil {
						return nil, err
					}
					return append(pre, ss...), nil
				}
			}
		}
		return x.atom(s)
	case *ast.AssignStmt:
		if len(s.Lhs) == 1 && len(s.Rhs) == 1 && s.Tok == token.ASSIGN {
			if lv := x.shadowField(s.Lhs[0]); lv != nil {
				pre, err := x.hoist(s.Rhs[0])
				if err != nil {
					return nil, err
				}
				val, vt, p, err := x.expr(s.Rhs[0])
				if err != nil {
					return nil, err
				}
				if len(p) != 0 || vt.k != kZ {
					return nil, t.posErr(s, "unsupported assignment of a time")
				}
				return append(pre, "Atom "+fun(app(lv.setter, val, "v"))), nil
			}
		}
		if len(s.Lhs) == 1 && len(s.Rhs) == 1 {
			if call, ok := ast.Unparen(s.Rhs[0]).(*ast.CallExpr); ok && timeFunc(t, call) == "NewTicker" {
				// ticker := time.NewTicker(d): the goroutine has one ticker, its channel is CTick
				pre, err := x.hoist(call.Args[0])
				if err != nil {
					return nil, err
				}
				d, _, p, err := x.expr(call.Args[0])
				if err != nil {
					return nil, err
				}
				if len(p) != 0 {
					return nil, t.posErr(s, "a call in the operand of NewTicker")
				}
				if x.c.hasTicker {
					return nil, t.posErr(s, "a second ticker")
				}
				x.c.hasTicker = true
				return append(pre, "NewTicker "+fun(d)), nil
			}
		}
		// v, ok := <-ch  and  v := <-ch  are a Recv whose continuation assigns
		if len(s.Rhs) == 1 && (s.Tok == token.ASSIGN || s.Tok == token.DEFINE) {
			if ue, ok := ast.Unparen(s.Rhs[0]).(*ast.UnaryExpr); ok && ue.Op == token.ARROW && len(s.Lhs) <= 2 {
				return x.recvAssign(s, ue, s.Lhs)
			}
		}
		return x.atom(s)
	case *ast.IncDecStmt, *ast.DeclStmt:
		return x.atom(s)
	}
	return nil, t.posErr(s, "unsupported statement %T", s)
}

func (x *cctx) exprAs(e ast.Expr, want *ctype) (string, *ctype, []preItem, error) {
	saved := x.t.pre
	x.t.pre = nil
	s, ty, err := x.t.exprAs(e, want)
	pre := x.t.pre
	x.t.pre = saved
	return s, ty, pre, err
}

func (x *cctx) hoistArgs(call *ast.CallExpr) ([]string, error) {
	var out []string
	for _, a := range call.Args {
		ss, err := x.hoist(a)
		if err != nil {
			return nil, err
		}
		out = append(out, ss...)
	}
	return out, nil
}

// the operand of a deferred close must be a field of the receiver that the goroutine never assigns
func (x *cctx) stableChan(e ast.Expr) error {
	sel, ok := ast.Unparen(e).(*ast.SelectorExpr)
	if ok {
		if lv := x.t.identVar(sel.X); lv != nil && lv.proj == "st_dsc" {
			return nil
		}
	}
	return x.t.posErr(e, "the operand of a deferred close is not a field of the receiver")
}

func (x *cctx) recvAssign(at ast.Node, ue *ast.UnaryExpr, lhs []ast.Expr) ([]string, error) {
	ch, elem, err := x.chanExpr(ue.X)
	if err != nil {
		return nil, err
	}
	ty, err := x.c.u.ctype(elem)
	if err != nil {
		return nil, x.t.posErr(at, "%v", err)
	}
	get, err := x.c.fromPayload("o", ty)
	if err != nil {
		return nil, x.t.posErr(at, "%v", err)
	}
	vals := []string{get, "negb (is_nil o)"}
	st := "v"
	for i, l := range lhs {
		if id, ok := ast.Unparen(l).(*ast.Ident); ok && id.Name == "_" {
			continue
		}
		lv := x.t.identVar(l)
		if lv == nil {
			return nil, x.t.posErr(at, "the target of a receive must be a variable")
		}
		st = app(lv.setter, vals[i], st)
	}
	return []string{fmt.Sprintf("Recv (fun v => %s) (fun v o => %s)", ch, st)}, nil
}

func (x *cctx) ret(s *ast.ReturnStmt) ([]string, error) {
	f := x.f
	if len(s.Results) == 0 {
		if len(f.rets) != 0 {
			return nil, x.t.posErr(s, "bare return with results")
		}
		return []string{"Return"}, nil
	}
	var pre []string
	for _, r := range s.Results {
		ss, err := x.hoist(r)
		if err != nil {
			return nil, err
		}
		pre = append(pre, ss...)
	}
	saved := x.t.pre
	x.t.pre = nil
	var vals []string
	if len(s.Results) == 1 && len(f.rets) > 1 {
		call, ok := ast.Unparen(s.Results[0]).(*ast.CallExpr)
		if !ok {
			return nil, x.t.posErr(s, "unsupported return")
		}
		rs, _, err := x.t.call(call)
		if err != nil {
			return nil, err
		}
		vals = rs
	} else {
		for i, r := range s.Results {
			v, _, err := x.t.exprAs(r, f.rets[i].t)
			if err != nil {
				return nil, err
			}
			vals = append(vals, v)
		}
	}
	p := x.t.pre
	x.t.pre = saved
	if len(vals) != len(f.rets) {
		return nil, x.t.posErr(s, "unsupported return")
	}
	// all values are computed before any result field is written
	st := "v"
	for i, v := range vals {
		st = app(f.rets[i].setter, v, st)
	}
	for _, it := range p {
		if it.close != "" {
			return nil, x.t.posErr(s, "a call that needs fuel")
		}
	}
	return append(pre, "Atom "+fun(wrapPre(p, st)), "Return"), nil
}

func containsContinue(body *ast.BlockStmt) bool {
	found := false
	var walk func(n ast.Node) bool
	walk = func(n ast.Node) bool {
		switch s := n.(type) {
		case *ast.ForStmt, *ast.RangeStmt, *ast.FuncLit:
			return false
		case *ast.BranchStmt:
			if s.Tok == token.CONTINUE {
				found = true
			}
		}
		return true
	}
	ast.Inspect(body, walk)
	return found
}

func (x *cctx) loopBody(body *ast.BlockStmt) ([]string, error) {
	old := x.inSelect
	x.inSelect = 0
	defer func() { x.inSelect = old }()
	return x.block(body.List)
}

func (x *cctx) forStmt(s *ast.ForStmt) ([]string, error) {
	var out []string
	if s.Init != nil {
		ss, err := x.stmt(s.Init)
		if err != nil {
			return nil, err
		}
		out = append(out, ss...)
	}
	body, err := x.loopBody(s.Body)
	if err != nil {
		return nil, err
	}
	if s.Post != nil {
		if containsContinue(s.Body) {
			return nil, x.t.posErr(s, "continue in a loop with a post statement")
		}
		ps, err := x.stmt(s.Post)
		if err != nil {
			return nil, err
		}
		body = append(body, ps...)
	}
	c := "(fun _ => true)"
	if s.Cond != nil {
		pre, cc, err := x.cond(s.Cond)
		if err != nil {
			return nil, err
		}
		if len(pre) == 0 {
			c = cc
		} else {
			// the condition involves the environment or sequential calls: evaluate it at the head of the body
			neg := "(fun v => negb (" + strings.TrimSuffix(strings.TrimPrefix(cc, "(fun v => "), ")") + "))"
			body = append(append(pre, "If "+neg+" "+listText([]string{"Break"})+" []"), body...)
		}
	}
	return append(out, "While "+c+" "+listText(body)), nil
}

func (x *cctx) rangeStmt(s *ast.RangeStmt) ([]string, error) {
	t := x.t
	pre, err := x.hoist(s.X)
	if err != nil {
		return nil, err
	}
	if tv, ok := t.info.Types[s.X]; ok {
		if _, isChan := types.Unalias(tv.Type).Underlying().(*types.Chan); isChan {
			// for x := range ch: receive until the channel is closed
			ch, elem, err := x.chanExpr(s.X)
			if err != nil {
				return nil, err
			}
			ety, err := x.c.u.ctype(elem)
			if err != nil {
				return nil, t.posErr(s, "%v", err)
			}
			get, err := x.c.fromPayload("o", ety)
			if err != nil {
				return nil, t.posErr(s, "%v", err)
			}
			ok := x.temp("ok", tBool)
			st := app(ok.setter, "negb (is_nil o)", "v")
			if s.Key != nil {
				if id, isId := s.Key.(*ast.Ident); !isId || id.Name != "_" {
					lv := t.identVar(s.Key)
					if lv == nil {
						return nil, t.posErr(s, "unsupported range variables")
					}
					st = app(lv.setter, get, st)
				}
			}
			body, err := x.loopBody(s.Body)
			if err != nil {
				return nil, err
			}
			head := []string{fmt.Sprintf("Recv (fun v => %s) (fun v o => %s)", ch, st),
				"If (fun v => negb (" + ok.proj + " v)) " + listText([]string{"Break"}) + " []"}
			return append(pre, "While (fun _ => true) "+listText(append(head, body...))), nil
		}
	}
	xs, xty, p, err := x.expr(s.X)
	if err != nil {
		return nil, err
	}
	if len(p) != 0 {
		return nil, t.posErr(s, "a call in a range expression")
	}
	blank := func(e ast.Expr) bool {
		if e == nil {
			return true
		}
		id, ok := e.(*ast.Ident)
		return ok && id.Name == "_"
	}
	keyV, valV := (*lvar)(nil), (*lvar)(nil)
	if !blank(s.Key) {
		if keyV = t.identVar(s.Key); keyV == nil {
			return nil, t.posErr(s, "unsupported range variables")
		}
	}
	if !blank(s.Value) {
		if valV = t.identVar(s.Value); valV == nil {
			return nil, t.posErr(s, "unsupported range variables")
		}
	}
	body, err := x.loopBody(s.Body)
	if err != nil {
		return nil, err
	}
	u := x.c.u
	switch xty.k {
	case kList, kMap:
		// the rest of the snapshot taken at loop entry; the head is bound and removed at the top of every iteration
		var elemT *ctype
		list := xs
		if xty.k == kList {
			elemT = xty.elem
			if keyV != nil {
				return nil, t.posErr(s, "range with an index variable over a slice")
			}
		} else {
			elemT = &ctype{k: kTuple, items: []*ctype{tN, xty.elem}}
			list = app("mitems", xs)
		}
		rest := x.temp("rest", &ctype{k: kList, elem: elemT})
		bind := app(rest.setter, app("tl", rest.proj+" v"), "v")
		hd := app("hd", elemT.zero(u), rest.proj+" v")
		if xty.k == kList {
			if valV != nil {
				bind = app(valV.setter, hd, bind)
			}
		} else {
			if valV != nil {
				bind = app(valV.setter, app("snd", hd), bind)
			}
			if keyV != nil {
				bind = app(keyV.setter, app("fst", hd), bind)
			}
		}
		out := append(pre, "Atom "+fun(app(rest.setter, list, "v")))
		cond := "(fun v => negb (match " + rest.proj + " v with [] => true | _ => false end))"
		return append(out, "While "+cond+" "+listText(append([]string{"Atom " + fun(bind)}, body...))), nil
	case kN:
		if valV != nil {
			return nil, t.posErr(s, "unsupported range variables")
		}
		idx := x.temp("i", tN)
		lim := x.temp("n", tN)
		bind := app(idx.setter, app("u_add", idx.proj+" v", "1%N"), "v")
		if keyV != nil {
			bind = app(keyV.setter, idx.proj+" v", bind)
		}
		out := append(pre, "Atom "+fun(app(idx.setter, "0%N", app(lim.setter, xs, "v"))))
		cond := "(fun v => N.ltb (" + idx.proj + " v) (" + lim.proj + " v))"
		return append(out, "While "+cond+" "+listText(append([]string{"Atom " + fun(bind)}, body...))), nil
	}
	return nil, t.posErr(s, "unsupported range expression")
}

func (x *cctx) selectStmt(s *ast.SelectStmt) ([]string, error) {
	t := x.t
	var alts []string
	dflt := "None"
	for _, cl := range s.Body.List {
		cc := cl.(*ast.CommClause)
		x.inSelect++
		body, err := x.block(cc.Body)
		x.inSelect--
		if err != nil {
			return nil, err
		}
		if cc.Comm == nil {
			dflt = "(Some " + listText(body) + ")"
			continue
		}
		var comm string
		switch cm := cc.Comm.(type) {
		case *ast.SendStmt:
			ss, err := x.stmt(cm)
			if err != nil {
				return nil, err
			}
			if len(ss) != 1 || !strings.HasPrefix(ss[0], "Send ") {
				return nil, t.posErr(cm, "unsupported send in a select")
			}
			comm = "CSend " + strings.TrimPrefix(ss[0], "Send ")
		case *ast.ExprStmt, *ast.AssignStmt:
			ss, err := x.stmt(cm)
			if err != nil {
				return nil, err
			}
			if len(ss) != 1 || !strings.HasPrefix(ss[0], "Recv ") {
				return nil, t.posErr(cm, "unsupported receive in a select")
			}
			comm = "CRecv " + strings.TrimPrefix(ss[0], "Recv ")
		default:
			return nil, t.posErr(cc, "unsupported select clause")
		}
		alts = append(alts, "("+comm+",\n"+indent(listText(body), 1)+")")
	}
	return []string{"Select " + listText(alts) + " " + dflt}, nil
}

// ---- channels and payloads

func (c *ctr) chanCtor(name, arg string) string {
	if _, ok := c.chanArg[name]; !ok {
		if c.u.names[name] {
			name = c.u.fresh(name)
		} else {
			c.u.names[name] = true
		}
		c.chans = append(c.chans, name)
		c.chanArg[name] = arg
	}
	return name
}

// chanExpr: a channel-valued expression as a term of the channel-identifier type
func (x *cctx) chanExpr(e ast.Expr) (string, types.Type, error) {
	t := x.t
	tv, ok := t.info.Types[e]
	if !ok {
		return "", nil, t.posErr(e, "no type information")
	}
	ch, ok := types.Unalias(tv.Type).Underlying().(*types.Chan)
	if !ok {
		return "", nil, t.posErr(e, "not a channel")
	}
	isRecv := func(b ast.Expr) bool {
		lv := t.identVar(b)
		return lv != nil && lv.proj == "st_dsc"
	}
	// dsc.breaker.IsBreaked(), dsc.opts.Ctx.Done(): the channel that is closed when the breaker is broken / the context is
	// cancelled (the only answer to a receive is "closed")
	if call, ok := ast.Unparen(e).(*ast.CallExpr); ok && len(call.Args) == 0 {
		if ms, ok := ast.Unparen(call.Fun).(*ast.SelectorExpr); ok && (ms.Sel.Name == "IsBreaked" || ms.Sel.Name == "Done") {
			if fs, ok := ast.Unparen(ms.X).(*ast.SelectorExpr); ok {
				root := ast.Unparen(fs.X)
				if inner, ok := root.(*ast.SelectorExpr); ok {
					root = ast.Unparen(inner.X)
				}
				if isRecv(root) {
					return x.c.chanCtor("C"+title(fs.Sel.Name)+title(ms.Sel.Name), ""), ch.Elem(), nil
				}
			}
			// ctx.Done() of a context that is a parameter / local variable
			if id, ok := ast.Unparen(ms.X).(*ast.Ident); ok && ms.Sel.Name == "Done" {
				if lv := t.identVar(id); lv != nil && lv.proj != "st_dsc" && lv.t.k == kOpaque {
					return x.c.chanCtor("C"+title(id.Name)+"ArgDone", ""), ch.Elem(), nil
				}
			}
		}
	}
	sel, ok := ast.Unparen(e).(*ast.SelectorExpr)
	if !ok {
		return "", nil, t.posErr(e, "unsupported channel expression")
	}
	switch b := ast.Unparen(sel.X).(type) {
	case *ast.Ident:
		if isRecv(b) {
			return x.c.chanCtor("C"+title(sel.Sel.Name), ""), ch.Elem(), nil
		}
		// ticker.C of the local ticker
		if bt, ok := t.info.Types[b]; ok && sel.Sel.Name == "C" && strings.HasSuffix(types.TypeString(bt.Type, nil), "time.Ticker") {
			return x.c.chanCtor("CTick", ""), ch.Elem(), nil
		}
	case *ast.SelectorExpr:
		// dsc.interrupter.C
		if isRecv(b.X) && sel.Sel.Name == "C" {
			if bt, ok := t.info.Types[b]; ok && strings.HasSuffix(types.TypeString(bt.Type, nil), "time.Ticker") {
				return x.c.chanCtor("CTick", ""), ch.Elem(), nil
			}
		}
		// dsc.opts.Input: a field of a struct field of the receiver
		if isRecv(b.X) {
			if bt, ok := t.info.Types[b]; ok {
				if _, isStruct := types.Unalias(bt.Type).Underlying().(*types.Struct); isStruct {
					return x.c.chanCtor("C"+title(sel.Sel.Name), ""), ch.Elem(), nil
				}
			}
		}
	case *ast.IndexExpr:
		// dsc.inputs[p].Channel
		if m, ok := ast.Unparen(b.X).(*ast.SelectorExpr); ok && isRecv(m.X) {
			k, kt, p, err := x.expr(b.Index)
			if err != nil {
				return "", nil, err
			}
			if len(p) != 0 || kt.k != kN {
				return "", nil, t.posErr(e, "unsupported channel expression")
			}
			name := "C" + title(strings.TrimSuffix(m.Sel.Name, "s"))
			if sel.Sel.Name != "Channel" {
				name += title(sel.Sel.Name)
			}
			return app(x.c.chanCtor(name, "N"), k), ch.Elem(), nil
		}
	}
	return "", nil, t.posErr(e, "unsupported channel expression")
}

func (c *ctr) payCtor(ty *ctype) (string, error) {
	var name string
	switch ty.k {
	case kN:
		name = "PN"
	case kZ:
		name = "PZ"
	case kBool:
		name = "PBool"
	case kErr:
		name = "PErr"
	case kUnit:
		name = "PUnit"
	case kRecord:
		name = "P" + ty.rec.name
	case kList:
		if ty.elem.k != kN {
			return "", fmt.Errorf("unsupported channel element type")
		}
		name = "PList"
	default:
		return "", fmt.Errorf("unsupported channel element type")
	}
	if _, ok := c.payT[name]; !ok {
		if c.u.names[name] || c.u.names["get_"+name] {
			return "", fmt.Errorf("name %s is taken", name)
		}
		c.u.names[name], c.u.names["get_"+name] = true, true
		c.pays = append(c.pays, name)
		c.payT[name] = ty
	}
	return name, nil
}

func (c *ctr) toPayload(val string, ty *ctype) (string, error) {
	n, err := c.payCtor(ty)
	if err != nil {
		return "", err
	}
	if ty.k == kUnit {
		return n, nil
	}
	return app(n, val), nil
}

// the received value (the zero value from a closed channel)
func (c *ctr) fromPayload(opt string, ty *ctype) (string, error) {
	n, err := c.payCtor(ty)
	if err != nil {
		return "", err
	}
	return app("get_"+n, opt), nil
}

// ---- rendering

func (c *ctr) render() string {
	u := c.u
	var b strings.Builder
	var files []string
	seen := map[string]bool{}
	for _, f := range c.order {
		fn := u.prog.dirOf[f.obj.Pkg().Path()] + "/" + f.di.file
		if !seen[fn] {
			seen[fn] = true
			files = append(files, fn)
		}
	}
	fmt.Fprintf(&b, "(* GENERATED by tools/gotrans from %s; do not edit *)\n", strings.Join(files, " "))
	b.WriteString("(* the goroutine " + strings.Join(c.spec.roots, ", ") + " of " + c.spec.dir + " as a program of GoConc.v *)\n")
	b.WriteString("From Coq Require Import List NArith ZArith Bool.\n")
	imp := "GoSem GoConc " + strings.TrimSuffix(c.spec.part1, ".v")
	var body strings.Builder
	for _, r := range u.recOrder[c.recStart:] {
		body.WriteString(u.renderRecord(r))
	}
	n := c.names
	// channel identifiers
	body.WriteString("(* the channels *)\n")
	fmt.Fprintf(&body, "Inductive %s : Type :=", n.chanT)
	for _, ch := range c.chans {
		if c.chanArg[ch] == "" {
			fmt.Fprintf(&body, " | %s", ch)
		} else {
			fmt.Fprintf(&body, " | %s (k : %s)", ch, c.chanArg[ch])
		}
	}
	body.WriteString(".\n")
	// payloads
	body.WriteString("(* what travels through them; get_<P> reads a received value (the zero value when the channel is closed) *)\n")
	fmt.Fprintf(&body, "Inductive %s : Type :=", n.payT)
	for _, p := range c.pays {
		ty := c.payT[p]
		if ty.k == kUnit {
			fmt.Fprintf(&body, " | %s", p)
		} else {
			fmt.Fprintf(&body, " | %s (x : %s)", p, ty.coq(u))
		}
	}
	body.WriteString(".\n")
	for _, p := range c.pays {
		ty := c.payT[p]
		if ty.k == kUnit {
			fmt.Fprintf(&body, "Definition get_%s (o : option %s) : unit := tt.\n", p, n.payT)
		} else {
			fmt.Fprintf(&body, "Definition get_%s (o : option %s) : %s := match o with Some (%s x) => x | _ => %s end.\n", p, n.payT, ty.coq(u), p, ty.zero(u))
		}
	}
	// function names
	body.WriteString("(* the functions of the goroutine *)\n")
	fmt.Fprintf(&body, "Inductive %s : Type :=", n.fnT)
	for _, f := range c.order {
		fmt.Fprintf(&body, " | %s", f.ctor)
	}
	body.WriteString(".\n\n")
	// G
	body.WriteString("(* the local variables of all of them (no function is recursive) *)\n")
	fmt.Fprintf(&body, "Record %s : Type := %s {", n.g, n.mkG)
	for i, lv := range c.fields {
		if i > 0 {
			body.WriteString(";")
		}
		fmt.Fprintf(&body, "\n  %s : %s", lv.binder, lv.t.coq(u))
	}
	body.WriteString("\n}.\n")
	zeros := make([]string, len(c.fields))
	for i, lv := range c.fields {
		zeros[i] = atom(lv.t.zero(u))
	}
	fmt.Fprintf(&body, "Definition %s : %s := %s %s.\n", n.zeroG, n.g, n.mkG, strings.Join(zeros, " "))
	recv := c.recvT.coq(u)
	fmt.Fprintf(&body, "(* the state: receiver, locals, world counter *)\nDefinition %s : Type := %s * %s * nat.\n", n.state, recv, n.g)
	fmt.Fprintf(&body, "Definition st_dsc (v : %s) : %s := fst (fst v).\n", n.state, recv)
	fmt.Fprintf(&body, "Definition set_st_dsc (x : %s) (v : %s) : %s := (x, snd (fst v), snd v).\n", recv, n.state, n.state)
	fmt.Fprintf(&body, "Definition st_w (v : %s) : nat := snd v.\n", n.state)
	fmt.Fprintf(&body, "Definition set_st_w (x : nat) (v : %s) : %s := (fst v, x).\n", n.state, n.state)
	body.WriteString("#[global] Arguments st_dsc v /.\n#[global] Arguments st_w v /.\n#[global] Arguments set_st_dsc x v /.\n#[global] Arguments set_st_w x v /.\n")
	for i, lv := range c.fields {
		args := make([]string, len(c.fields))
		for j, g := range c.fields {
			if i == j {
				args[j] = "x"
			} else {
				args[j] = "(" + g.binder + " g)"
			}
		}
		ty := lv.t.coq(u)
		fmt.Fprintf(&body, "Definition %s (v : %s) : %s := %s (snd (fst v)).\n#[global] Arguments %s v /.\n", lv.proj, n.state, ty, lv.binder, lv.proj)
		fmt.Fprintf(&body, "Definition %s (x : %s) (v : %s) : %s :=\n  let g := snd (fst v) in (fst (fst v), %s %s, snd v).\n", lv.setter, ty, n.state, n.state, n.mkG, strings.Join(args, " "))
		fmt.Fprintf(&body, "#[global] Arguments %s x v /.\n", lv.setter)
	}
	body.WriteString("\n")
	sty := fmt.Sprintf("list (stmt %s %s %s %s)", n.state, n.payT, n.chanT, n.fnT)
	if c.usesCap {
		fmt.Fprintf(&body, "Section Program.\n(* the capacities of the channels (fixed when they are made) *)\nVariable chan_cap : %s -> Z.\n\n", n.chanT)
	}
	for _, f := range c.order {
		fmt.Fprintf(&body, "(* %s  [%s] *)\n", f.goName, u.prog.dirOf[f.obj.Pkg().Path()]+"/"+f.di.file)
		fmt.Fprintf(&body, "Definition %s : %s := %s.\n\n", f.bodyN, sty, listText(f.body))
	}
	fmt.Fprintf(&body, "Definition %s (f : %s) : %s :=\n  match f with\n", n.table, n.fnT, sty)
	for _, f := range c.order {
		fmt.Fprintf(&body, "  | %s => %s\n", f.ctor, f.bodyN)
	}
	body.WriteString("  end.\n")
	if c.usesCap {
		body.WriteString("End Program.\n")
	}
	if u.needFloat && strings.Contains(body.String(), "b64") {
		imp = "Float64 " + imp
	}
	fmt.Fprintf(&b, "From Cqos Require Import %s.\nImport ListNotations.\n\n", imp)
	b.WriteString(body.String())
	return b.String()
}
