package priority

// Differential validation of gotrans: calcTactic and recalcTactic of a Discipline value built by hand (no goroutine, no
// channels), on random states and with several dividers; inputs and results are written as a Coq file.

import (
	"errors"
	"fmt"
	"math/rand"
	"os"
	"sort"
	"strings"
	"testing"

	"github.com/akramarenkov/cqos/v2/priority/divider"
	"github.com/akramarenkov/safe"
)

func gvList(l []uint) string {
	parts := make([]string, len(l))
	for i, x := range l {
		parts[i] = fmt.Sprint(x)
	}
	return "[" + strings.Join(parts, "; ") + "]"
}

func gvMap(m map[uint]uint) string {
	keys := make([]uint, 0, len(m))
	for k := range m {
		keys = append(keys, k)
	}
	sort.Slice(keys, func(i, j int) bool { return keys[i] < keys[j] })
	parts := make([]string, len(keys))
	for i, k := range keys {
		parts[i] = fmt.Sprintf("(%d, %d)", k, m[k])
	}
	return "[" + strings.Join(parts, "; ") + "]"
}

func gvClone(m map[uint]uint) map[uint]uint {
	c := make(map[uint]uint, len(m))
	for k, v := range m {
		c[k] = v
	}
	return c
}

// the dividers of the validation; the Coq side (ValV2Prio.v) defines the same five
func gvDivider(kind int, calls *int) divider.Divider {
	return func(ps []uint, d uint, m map[uint]uint) {
		w := *calls
		*calls++
		switch kind {
		case 0:
			divider.Fair(ps, d, m)
		case 1:
			divider.Rate(ps, d, m)
		case 2: // wrong total
			if len(ps) != 0 {
				m[ps[0]] += d + 1
			}
		case 3: // stateful
			if w%2 == 0 {
				divider.Fair(ps, d, m)
			} else {
				divider.Rate(ps, d, m)
			}
		case 4: // the sum overflows
			if len(ps) != 0 {
				m[ps[0]] = 1 << 63
				m[ps[0]+1000] = 1 << 63
			}
		}
	}
}

func gvCode(t *testing.T, err error) int {
	switch {
	case err == nil:
		return 0
	case errors.Is(err, ErrDividerBad):
		return 1
	case errors.Is(err, safe.ErrValueOverflow):
		return 2
	}
	t.Fatalf("unexpected error %v", err)
	return -1
}

func TestGotransVal(t *testing.T) {
	out := os.Getenv("GOTRANS_VAL_OUT")
	if out == "" {
		t.Skip("GOTRANS_VAL_OUT is not set")
	}
	rng := rand.New(rand.NewSource(20261002))
	var b strings.Builder
	b.WriteString("(* written by gotrans_val_test.go (v2/priority) *)\nFrom Coq Require Import List NArith.\nImport ListNotations.\nOpen Scope N_scope.\n")
	b.WriteString("Definition M := list (N * N).\n")
	// (kind, op, H, priorities, strategic, actual, tactic) -> (calls, proceed, error, tactic', uncrowded', useful'), model
	b.WriteString("Definition prio_cases : list ((N * N * N * list N * M * M * M) * (nat * bool * N * M * list N * list N) * bool) := [\n")
	const total = 900
	for i := 0; i < total; i++ {
		kind := []int{0, 0, 0, 1, 1, 1, 2, 3, 3, 4}[rng.Intn(10)]
		op := i % 2 // 0 calcTactic, 1 recalcTactic
		n := rng.Intn(5) + 1
		seen := map[uint]bool{}
		var ps []uint
		for len(ps) < n {
			p := uint(rng.Intn(50) + 1)
			if !seen[p] {
				seen[p] = true
				ps = append(ps, p)
			}
		}
		sort.Slice(ps, func(i, j int) bool { return ps[j] < ps[i] })
		h := uint(rng.Intn(60) + 1)
		strategic := map[uint]uint{}
		if kind == 1 {
			divider.Rate(ps, h, strategic)
		} else {
			divider.Fair(ps, h, strategic)
		}
		if rng.Intn(4) == 0 {
			for _, p := range ps {
				if rng.Intn(2) == 0 {
					strategic[p] = uint(rng.Intn(int(h) + 2))
				}
			}
		}
		actual := map[uint]uint{}
		for _, p := range ps {
			switch rng.Intn(6) {
			case 0: // no entry
			case 1:
				actual[p] = strategic[p] + uint(rng.Intn(3))
			default:
				actual[p] = uint(rng.Intn(int(strategic[p]) + 1))
			}
		}
		if rng.Intn(10) == 0 {
			actual[uint(rng.Intn(50)+100)] = uint(rng.Intn(3))
		}
		tactic := map[uint]uint{}
		for _, p := range ps {
			if rng.Intn(3) != 0 {
				tactic[p] = uint(rng.Intn(4))
			}
		}
		busy := uint(0)
		for _, a := range actual {
			busy += a
		}
		model := busy <= h

		calls := 0
		dsc := &Discipline[int]{
			opts:       Opts[int]{Divider: gvDivider(kind, &calls), HandlersQuantity: h},
			priorities: append([]uint(nil), ps...),
			actual:     gvClone(actual),
			strategic:  gvClone(strategic),
			tactic:     gvClone(tactic),
		}
		var proceed bool
		var err error
		if op == 0 {
			proceed, err = dsc.calcTactic()
		} else {
			proceed, err = dsc.recalcTactic()
		}
		sep := ";"
		if i == total-1 {
			sep = ""
		}
		fmt.Fprintf(&b, "  ((%d, %d, %d, %s, %s, %s, %s), (%d%%nat, %v, %d, %s, %s, %s), %v)%s\n",
			kind, op, h, gvList(ps), gvMap(strategic), gvMap(actual), gvMap(tactic),
			calls, proceed, gvCode(t, err), gvMap(dsc.tactic), gvList(dsc.uncrowded), gvList(dsc.useful), model, sep)
		// the other maps are never written by these two functions
		if gvMap(dsc.actual) != gvMap(actual) || gvMap(dsc.strategic) != gvMap(strategic) {
			t.Fatal("actual or strategic changed")
		}
	}
	b.WriteString("].\n")
	if err := os.WriteFile(out, []byte(b.String()), 0o644); err != nil {
		t.Fatal(err)
	}
}
