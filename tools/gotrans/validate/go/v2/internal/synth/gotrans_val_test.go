package synth

import (
	"fmt"
	"math/rand"
	"os"
	"sort"
	"strings"
	"testing"
)

func gvN(l []uint) string {
	parts := make([]string, len(l))
	for i, x := range l {
		parts[i] = fmt.Sprint(x)
	}
	return "[" + strings.Join(parts, "; ") + "]"
}

func gvZ(x int) string {
	if x < 0 {
		return fmt.Sprintf("(%d)%%Z", x)
	}
	return fmt.Sprintf("%d%%Z", x)
}

func gvM(m map[uint]uint) string {
	if m == nil {
		return "None"
	}
	keys := []uint{}
	for k := range m {
		keys = append(keys, k)
	}
	sort.Slice(keys, func(i, j int) bool { return keys[i] < keys[j] })
	parts := make([]string, len(keys))
	for i, k := range keys {
		parts[i] = fmt.Sprintf("(%d, %d)", k, m[k])
	}
	return "(Some [" + strings.Join(parts, "; ") + "])"
}

func gvB(b bool) string { return fmt.Sprint(b) }

func TestGotransVal(t *testing.T) {
	out := os.Getenv("GOTRANS_VAL_OUT")
	if out == "" {
		t.Skip("GOTRANS_VAL_OUT is not set")
	}
	rng := rand.New(rand.NewSource(20261002))
	list := func() []uint {
		l := []uint{}
		for n := rng.Intn(7); n > 0; n-- {
			l = append(l, uint(rng.Intn(10)))
		}
		return l
	}
	var b strings.Builder
	b.WriteString("(* written by gotrans_val_test.go (synthetic package) *)\nFrom Coq Require Import List NArith ZArith.\nImport ListNotations.\nOpen Scope N_scope.\n")
	section := func(name, ty string, n int, row func() string) {
		fmt.Fprintf(&b, "Definition %s : list (%s) := [\n", name, ty)
		for i := 0; i < n; i++ {
			sep := ";"
			if i == n-1 {
				sep = ""
			}
			fmt.Fprintf(&b, "  (%s)%s\n", row(), sep)
		}
		b.WriteString("].\n")
	}
	const n = 40
	section("c_IndexSum", "list N * Z", n, func() string { l := list(); return gvN(l) + ", " + gvZ(IndexSum(l)) })
	section("c_CountTo", "N * N", n, func() string { k := uint(rng.Intn(30)); return fmt.Sprintf("%d, %d", k, CountTo(k)) })
	section("c_Lookup", "option (list (N * N)) * N * N * bool", n, func() string {
		m := map[uint]uint{}
		for k := rng.Intn(4); k > 0; k-- {
			m[uint(rng.Intn(5))] = uint(rng.Intn(9))
		}
		if rng.Intn(5) == 0 {
			m = nil
		}
		k := uint(rng.Intn(5))
		v, ok := Lookup(m, k)
		return fmt.Sprintf("%s, %d, %d, %s", gvM(m), k, v, gvB(ok))
	})
	section("c_Swap", "Z * Z * Z * Z", n, func() string {
		x, y := rng.Intn(100)-50, rng.Intn(100)-50
		p, q := Swap(x, y)
		return strings.Join([]string{gvZ(x), gvZ(y), gvZ(p), gvZ(q)}, ", ")
	})
	section("c_Literal", "N * option (list (N * N))", n, func() string { k := uint(rng.Intn(4)); return fmt.Sprintf("%d, %s", k, gvM(Literal(k))) })
	section("c_MinMax", "N * N * Z * Z * N * Z", n, func() string {
		x, y, c, d := uint(rng.Intn(20)), uint(rng.Intn(20)), rng.Intn(40)-20, rng.Intn(40)-20
		p, q := MinMax(x, y, c, d)
		return fmt.Sprintf("%d, %d, %s, %s, %d, %s", x, y, gvZ(c), gvZ(d), p, gvZ(q))
	})
	section("c_Search", "list N * N * Z", n, func() string {
		l := list()
		w := uint(rng.Intn(10))
		return fmt.Sprintf("%s, %d, %s", gvN(l), w, gvZ(Search(l, w)))
	})
	section("c_Check", "N * N * bool", n, func() string {
		x, y := uint(rng.Intn(8)), uint(rng.Intn(16))
		return fmt.Sprintf("%d, %d, %s", x, y, gvB(Check(x, y) != nil))
	})
	section("c_UsePair", "N * N * Z * option (list (N * N)) * bool", n, func() string {
		k := uint(rng.Intn(16))
		p, err := UsePair(k)
		return fmt.Sprintf("%d, %d, %s, %s, %s", k, p.A, gvZ(p.B), gvM(p.M), gvB(err != nil))
	})
	section("c_Tail", "list N * Z * list N", n, func() string {
		l := list()
		k := rng.Intn(8)
		return fmt.Sprintf("%s, %s, %s", gvN(l), gvZ(k), gvN(Tail(l, k)))
	})
	section("c_Collatz", "N * N", n, func() string { k := uint(rng.Intn(60)); return fmt.Sprintf("%d, %d", k, Collatz(k)) })
	section("c_Nested", "list (list N) * N", n, func() string {
		rows := []string{}
		var rr [][]uint
		for k := rng.Intn(4); k > 0; k-- {
			l := list()
			rr = append(rr, l)
			rows = append(rows, gvN(l))
		}
		return fmt.Sprintf("[%s], %d", strings.Join(rows, "; "), Nested(rr))
	})
	section("c_Neg", "Z * Z * Z", n, func() string {
		x, y := rng.Intn(100)-50, rng.Intn(20)+1
		if rng.Intn(2) == 0 {
			y = -y
		}
		return fmt.Sprintf("%s, %s, %s", gvZ(x), gvZ(y), gvZ(Neg(x, y)))
	})
	if err := os.WriteFile(out, []byte(b.String()), 0o644); err != nil {
		t.Fatal(err)
	}
}
