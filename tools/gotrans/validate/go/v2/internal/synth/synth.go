// A synthetic package that exercises the constructs of the supported fragment which the cqos sources use rarely or not
// at all (index ranges, range over an integer, comma-ok, parallel assignment, map literals, delete, min/max, break,
// calls under && and ||, pointer receivers, slicing, while loops, nested loops, signed division).  It is copied into the
// scratch copy of the repo by validate.sh and translated as the extra unit GenExtra.v (GOTRANS_EXTRA).
package synth

import "errors"

var ErrOdd = errors.New("odd")

type Pair struct {
	A uint
	B int
	M map[uint]uint
}

func IndexSum(xs []uint) int {
	total := 0
	for i, x := range xs {
		if i%2 == 0 {
			continue
		}
		total += int(x) * i
	}
	return total
}

func CountTo(n uint) uint {
	acc := uint(0)
	for i := range n {
		acc += i
	}
	return acc
}

func Lookup(m map[uint]uint, k uint) (uint, bool) {
	v, ok := m[k]
	if !ok {
		return 0, false
	}
	return v + 1, true
}

func Swap(a, b int) (int, int) {
	a, b = b, a-b
	return a, b
}

func Literal(k uint) map[uint]uint {
	m := map[uint]uint{1: 10, 2: 20}
	m[k]++
	delete(m, 2)
	return m
}

func MinMax(a, b uint, c, d int) (uint, int) {
	return min(a, b) + max(a, b, 7), max(c, d) - min(c, d)
}

func Search(xs []uint, want uint) int {
	var pos int = -1
	for i := 0; i < len(xs); i++ {
		if xs[i] == want {
			pos = i
			break
		}
	}
	return pos
}

func isEven(x uint) bool { return x%2 == 0 }

func Check(x uint, y uint) error {
	if x > 3 && !isEven(x) || isEven(y) && y > 10 {
		return ErrOdd
	}
	return nil
}

func (p *Pair) Bump(k uint) {
	p.A++
	p.B -= 3
	p.M[k] += p.A
}

func UsePair(k uint) (Pair, error) {
	p := Pair{A: 1, M: make(map[uint]uint)}
	p.Bump(k)
	p.Bump(k + 1)
	if err := Check(p.A, k); err != nil {
		return Pair{}, err
	}
	return p, nil
}

func Tail(xs []uint, n int) []uint {
	if n > len(xs) {
		n = len(xs)
	}
	ys := append([]uint(nil), xs[len(xs)-n:]...)
	ys = append(ys, 1, 2)
	return ys[1:]
}

func Collatz(n uint) uint {
	steps := uint(0)
	for n != 1 {
		if n == 0 {
			return 0
		}
		if n%2 == 0 {
			n /= 2
		} else {
			n = 3*n + 1
		}
		steps++
	}
	return steps
}

func Nested(rows [][]uint) uint {
	var total uint
	for _, row := range rows {
		for _, x := range row {
			if x == 0 {
				break
			}
			total += x
		}
	}
	return total
}

func Neg(a int, b int) int {
	return -a/b + a%b
}
