package limit

// Differential validation of gotrans: random inputs and the results of the real Rate methods, written as a Coq file.

import (
	"errors"
	"fmt"
	"math"
	"math/rand"
	"os"
	"strings"
	"testing"
	"time"
)

func gvCode(t *testing.T, err error) int {
	list := []error{nil, ErrIntervalNegative, ErrIntervalZero, ErrQuantityZero, ErrMinimumIntervalNegative,
		ErrConvertedIntervalZero, ErrConvertedQuantityUnrepresentable}
	for i, e := range list {
		if (e == nil && err == nil) || (e != nil && errors.Is(err, e)) {
			return i
		}
	}
	t.Fatalf("unexpected error %v", err)
	return -1
}

func gvZ(x int64) string {
	if x < 0 {
		return fmt.Sprintf("(%d)", x)
	}
	return fmt.Sprint(x)
}

func TestGotransVal(t *testing.T) {
	out := os.Getenv("GOTRANS_VAL_OUT")
	if out == "" {
		t.Skip("GOTRANS_VAL_OUT is not set")
	}
	rng := rand.New(rand.NewSource(20261002))
	interval := func() int64 {
		switch rng.Intn(12) {
		case 0:
			return -rng.Int63()
		case 1:
			return 0
		case 2:
			return math.MaxInt64 - rng.Int63n(5)
		case 3, 4:
			return rng.Int63()
		case 5, 6:
			return rng.Int63n(1000) + 1
		default:
			return rng.Int63n(int64(100 * time.Second))
		}
	}
	quantity := func() uint64 {
		switch rng.Intn(10) {
		case 0:
			return 0
		case 1:
			return math.MaxUint64 - uint64(rng.Intn(5))
		case 2, 3:
			return rng.Uint64()
		case 4, 5:
			return uint64(rng.Intn(10) + 1)
		default:
			return uint64(rng.Int63n(1_000_000_000) + 1)
		}
	}
	minimum := func() int64 {
		switch rng.Intn(10) {
		case 0:
			return -rng.Int63n(1000) - 1
		case 1:
			return 0
		case 2:
			return math.MaxInt64 - rng.Int63n(5)
		case 3:
			return rng.Int63()
		case 4, 5:
			return int64(OptimizationInterval)
		default:
			return rng.Int63n(int64(time.Second)) + 1
		}
	}
	var b strings.Builder
	b.WriteString("(* written by gotrans_val_test.go (v2/limit) *)\nFrom Coq Require Import List ZArith.\nImport ListNotations.\nOpen Scope Z_scope.\n")
	// (which, interval, quantity, minimum, code, interval', quantity'); which: 0 Recalculate 1 Optimize 2 Flatten 3 IsValid
	b.WriteString("Definition rate_cases : list (Z * Z * Z * Z * Z * Z * Z) := [\n")
	const total = 1200
	for i := 0; i < total; i++ {
		rt := Rate{Interval: time.Duration(interval()), Quantity: quantity()}
		m := minimum()
		which := i % 4
		if i < 400 {
			which = 0
		}
		var res Rate
		var err error
		switch which {
		case 0:
			res, err = rt.Recalculate(time.Duration(m))
		case 1:
			res, err = rt.Optimize()
		case 2:
			res, err = rt.Flatten()
		case 3:
			err = rt.IsValid()
		}
		sep := ";"
		if i == total-1 {
			sep = ""
		}
		fmt.Fprintf(&b, "  (%d, %s, %d, %s, %d, %s, %d)%s\n", which, gvZ(int64(rt.Interval)), rt.Quantity, gvZ(m), gvCode(t, err),
			gvZ(int64(res.Interval)), res.Quantity, sep)
	}
	b.WriteString("].\n")
	if err := os.WriteFile(out, []byte(b.String()), 0o644); err != nil {
		t.Fatal(err)
	}
}
