package priority

// Differential validation of gotrans: the exported helpers of utils.go (v1) on random inputs, written as a Coq file.

import (
	"fmt"
	"math/rand"
	"os"
	"strings"
	"testing"
)

func TestGotransValUtils(t *testing.T) {
	out := os.Getenv("GOTRANS_VAL_OUT")
	if out == "" {
		t.Skip("GOTRANS_VAL_OUT is not set")
	}
	rng := rand.New(rand.NewSource(20261002))
	var b strings.Builder
	b.WriteString("(* written by gotrans_val_test.go (priority, v1 utils) *)\nFrom Coq Require Import List NArith.\nImport ListNotations.\nOpen Scope N_scope.\n")
	// (function, divider, priorities, quantity, limit in percent, result); a boolean result is 0 or 1
	//   function: 0 IsNonFatalConfig 1 PickUpMinNonFatalQuantity 2 PickUpMaxNonFatalQuantity
	//             3 IsSuitableConfig 4 PickUpMinSuitableQuantity 5 PickUpMaxSuitableQuantity
	b.WriteString("Definition utils_cases : list (N * N * list N * N * N * N) := [\n")
	b2n := func(x bool) uint {
		if x {
			return 1
		}
		return 0
	}
	const total = 120
	for i := 0; i < total; i++ {
		fn := i % 6
		kind := rng.Intn(2)
		dv := FairDivider
		if kind == 1 {
			dv = RateDivider
		}
		n := rng.Intn(4) + 1
		var ps []uint
		for len(ps) < n {
			ps = append(ps, uint(rng.Intn(9)+1)) // duplicates are allowed
		}
		q := uint(rng.Intn(30))
		limit := uint(rng.Intn(60))
		var res uint
		switch fn {
		case 0:
			res = b2n(IsNonFatalConfig(ps, dv, q))
		case 1:
			res = PickUpMinNonFatalQuantity(ps, dv, q)
		case 2:
			res = PickUpMaxNonFatalQuantity(ps, dv, q)
		case 3:
			res = b2n(IsSuitableConfig(ps, dv, q, float64(limit)))
		case 4:
			res = PickUpMinSuitableQuantity(ps, dv, q, float64(limit))
		case 5:
			res = PickUpMaxSuitableQuantity(ps, dv, q, float64(limit))
		}
		sep := ";"
		if i == total-1 {
			sep = ""
		}
		parts := make([]string, len(ps))
		for j, p := range ps {
			parts[j] = fmt.Sprint(p)
		}
		fmt.Fprintf(&b, "  (%d, %d, [%s], %d, %d, %d)%s\n", fn, kind, strings.Join(parts, "; "), q, limit, res, sep)
	}
	b.WriteString("].\n")
	if err := os.WriteFile(out, []byte(b.String()), 0o644); err != nil {
		t.Fatal(err)
	}
}
