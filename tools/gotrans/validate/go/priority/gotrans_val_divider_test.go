package priority

// Differential validation of gotrans: random inputs and the results of the real FairDivider and RateDivider (v1),
// written as a Coq file.

import (
	"fmt"
	"math/rand"
	"os"
	"sort"
	"strings"
	"testing"
)

func gvList(l []uint) string {
	parts := make([]string, len(l))
	for i, x := range l {
		parts[i] = fmt.Sprint(x)
	}
	return "[" + strings.Join(parts, "; ") + "]"
}

func gvMap(m map[uint]uint) string {
	if m == nil {
		return "None"
	}
	keys := make([]uint, 0, len(m))
	for k := range m {
		keys = append(keys, k)
	}
	sort.Slice(keys, func(i, j int) bool { return keys[i] < keys[j] })
	parts := make([]string, len(keys))
	for i, k := range keys {
		parts[i] = fmt.Sprintf("(%d, %d)", k, m[k])
	}
	return "(Some [" + strings.Join(parts, "; ") + "])"
}

func gvClone(m map[uint]uint) map[uint]uint {
	if m == nil {
		return nil
	}
	c := make(map[uint]uint, len(m))
	for k, v := range m {
		c[k] = v
	}
	return c
}

type gvCase struct {
	ps    []uint
	d     uint
	init  map[uint]uint
	small bool
}

func gvGen(rng *rand.Rand, small bool, zeroPrio bool) gvCase {
	c := gvCase{small: small}
	n := rng.Intn(7)
	for i := 0; i < n; i++ {
		var p uint
		switch {
		case small || rng.Intn(4) != 0:
			p = uint(rng.Intn(100))
			if !zeroPrio || rng.Intn(8) != 0 {
				p++
			}
		default:
			p = uint(rng.Uint64())
		}
		c.ps = append(c.ps, p)
	}
	switch {
	case small:
		c.d = uint(rng.Intn(2000))
		if rng.Intn(5) == 0 {
			c.d = uint(rng.Int63n(1 << 40))
		}
	case rng.Intn(2) == 0:
		c.d = uint(rng.Uint64())
	default:
		c.d = uint(rng.Intn(2000))
	}
	switch rng.Intn(10) {
	case 0:
		c.init = nil
	case 1, 2, 3, 4:
		c.init = map[uint]uint{}
	default:
		c.init = map[uint]uint{}
		for i := rng.Intn(5); i > 0; i-- {
			k := uint(rng.Intn(100) + 1)
			if len(c.ps) > 0 && rng.Intn(2) == 0 {
				k = c.ps[rng.Intn(len(c.ps))]
			}
			v := uint(rng.Intn(50))
			if !small && rng.Intn(3) == 0 {
				v = ^uint(0) - uint(rng.Intn(1000))
			}
			c.init[k] = v
		}
	}
	return c
}

func TestGotransValDivider(t *testing.T) {
	out := os.Getenv("GOTRANS_VAL_OUT")
	if out == "" {
		t.Skip("GOTRANS_VAL_OUT is not set")
	}
	rng := rand.New(rand.NewSource(20261002))
	var b strings.Builder
	b.WriteString("(* written by gotrans_val_test.go (priority, v1 dividers) *)\nFrom Coq Require Import List NArith.\nImport ListNotations.\nOpen Scope N_scope.\n")
	emit := func(name string, f Divider, rate bool) {
		// (priorities, dividend, argument, argument afterwards, returned map, small)
		fmt.Fprintf(&b, "Definition %s : list (list N * N * option (list (N * N)) * option (list (N * N)) * option (list (N * N)) * bool) := [\n", name)
		const total = 320
		for i := 0; i < total; i++ {
			c := gvGen(rng, i < 240 || rate, !rate)
			if rate {
				// the all-zero list of priorities divides by zero in float64: outside the modelled domain
				sum := uint(0)
				for _, p := range c.ps {
					sum += p
				}
				if len(c.ps) > 0 && sum == 0 {
					c.ps[0] = 1
				}
			}
			m := gvClone(c.init)
			res := f(c.ps, c.d, m)
			sep := ";"
			if i == total-1 {
				sep = ""
			}
			fmt.Fprintf(&b, "  (%s, %d, %s, %s, %s, %v)%s\n", gvList(c.ps), c.d, gvMap(c.init), gvMap(m), gvMap(res), c.small, sep)
		}
		b.WriteString("].\n")
	}
	emit("fair_cases", FairDivider, false)
	emit("rate_cases", RateDivider, true)
	if err := os.WriteFile(out, []byte(b.String()), 0o644); err != nil {
		t.Fatal(err)
	}
}
