package priority

// Differential validation of gotrans: the sequential methods of the v1 Discipline (calcTactic, recalcTactic, removeInput,
// addInput, clearActual) on Discipline values built by hand (no goroutine), on random states and with several dividers;
// inputs and results are written as a Coq file.

import (
	"errors"
	"fmt"
	"math/rand"
	"os"
	"sort"
	"strings"
	"testing"

	"github.com/akramarenkov/cqos/priority/internal/common"
	"github.com/akramarenkov/safe"
)

func gvMapOpt(m map[uint]uint) string {
	if m == nil {
		return "None"
	}
	return gvMap(m)
}

func gvInputs(m map[uint]common.Input[int]) string {
	keys := make([]uint, 0, len(m))
	for k := range m {
		keys = append(keys, k)
	}
	sort.Slice(keys, func(i, j int) bool { return keys[i] < keys[j] })
	parts := make([]string, len(keys))
	for i, k := range keys {
		parts[i] = fmt.Sprintf("(%d, (%v, %v))", k, m[k].Channel != nil, m[k].Drained)
	}
	return "[" + strings.Join(parts, "; ") + "]"
}

// the dividers of the validation; the Coq side (ValV1Prio.v) defines the same five
func gvDivider(kind int, calls *int) Divider {
	return func(ps []uint, d uint, m map[uint]uint) map[uint]uint {
		w := *calls
		*calls++
		switch kind {
		case 0:
			return FairDivider(ps, d, m)
		case 1:
			return RateDivider(ps, d, m)
		case 3: // stateful
			if w%2 == 0 {
				return FairDivider(ps, d, m)
			}
			return RateDivider(ps, d, m)
		}
		if m == nil {
			m = map[uint]uint{}
		}
		if len(ps) != 0 {
			if kind == 2 { // wrong total
				m[ps[0]] += d + 1
			} else { // the sum overflows
				m[ps[0]] = 1 << 63
				m[ps[0]+1000] = 1 << 63
			}
		}
		return m
	}
}

func gvCode(t *testing.T, err error) int {
	switch {
	case err == nil:
		return 0
	case errors.Is(err, ErrDividerBad):
		return 1
	case errors.Is(err, safe.ErrValueOverflow):
		return 2
	case errors.Is(err, ErrQuantityExceeded):
		return 3
	}
	t.Fatalf("unexpected error %v", err)
	return -1
}

func TestGotransValPrio(t *testing.T) {
	out := os.Getenv("GOTRANS_VAL_OUT")
	if out == "" {
		t.Skip("GOTRANS_VAL_OUT is not set")
	}
	rng := rand.New(rand.NewSource(20261002))
	var b strings.Builder
	b.WriteString("(* written by gotrans_val_prio_test.go (priority, v1) *)\nFrom Coq Require Import List NArith.\nImport ListNotations.\nOpen Scope N_scope.\n")
	b.WriteString("Definition M := list (N * N).\nDefinition I := list (N * (bool * bool)).\n")
	// (kind, op, arg, H, priorities, strategic, actual, tactic, inputs) ->
	//   (calls, proceed, error, tactic', strategic', actual', priorities', uncrowded', useful', inputs')
	b.WriteString("Definition prio_cases : list ((N * N * N * N * list N * M * M * M * I) * (nat * bool * N * M * option M * M * list N * list N * list N * I)) := [\n")
	const total = 1000
	for i := 0; i < total; i++ {
		kind := []int{0, 0, 0, 1, 1, 1, 2, 3, 3, 4}[rng.Intn(10)]
		op := []int{0, 1, 0, 1, 2, 3, 4, 0, 1, 2}[i%10]
		n := rng.Intn(5) + 1
		seen := map[uint]bool{}
		var ps []uint
		for len(ps) < n {
			p := uint(rng.Intn(50) + 1)
			if !seen[p] {
				seen[p] = true
				ps = append(ps, p)
			}
		}
		sort.Slice(ps, func(i, j int) bool { return ps[j] < ps[i] })
		h := uint(rng.Intn(60) + 1)
		var strategic map[uint]uint
		if kind == 1 {
			strategic = RateDivider(ps, h, nil)
		} else {
			strategic = FairDivider(ps, h, nil)
		}
		if rng.Intn(4) == 0 {
			for _, p := range ps {
				if rng.Intn(2) == 0 {
					strategic[p] = uint(rng.Intn(int(h) + 2))
				}
			}
		}
		actual := map[uint]uint{}
		for _, p := range ps {
			switch rng.Intn(6) {
			case 0: // no entry
			case 1:
				actual[p] = strategic[p] + uint(rng.Intn(3))
			default:
				actual[p] = uint(rng.Intn(int(strategic[p]) + 1))
			}
		}
		for k := rng.Intn(3); k > 0; k-- { // leftovers of removed inputs
			actual[uint(rng.Intn(50)+100)] = uint(rng.Intn(2))
		}
		tactic := map[uint]uint{}
		for _, p := range ps {
			if rng.Intn(3) != 0 {
				tactic[p] = uint(rng.Intn(4))
			}
		}
		inputs := map[uint]common.Input[int]{}
		for _, p := range ps {
			inputs[p] = common.Input[int]{Channel: make(chan int), Drained: rng.Intn(4) == 0}
		}
		arg := uint(rng.Intn(50) + 1)
		if rng.Intn(2) == 0 {
			arg = ps[rng.Intn(len(ps))]
		}

		calls := 0
		dsc := &Discipline[int]{
			opts:       Opts[int]{Divider: gvDivider(kind, &calls), HandlersQuantity: h},
			inputs:     map[uint]common.Input[int]{},
			priorities: append([]uint(nil), ps...),
			actual:     gvClone(actual),
			strategic:  gvClone(strategic),
			tactic:     gvClone(tactic),
		}
		for k, in := range inputs {
			dsc.inputs[k] = in
		}
		var proceed bool
		var err error
		switch op {
		case 0:
			proceed, err = dsc.calcTactic()
		case 1:
			proceed, err = dsc.recalcTactic()
		case 2:
			dsc.removeInput(arg)
		case 3:
			dsc.addInput(make(chan int), arg)
		case 4:
			dsc.clearActual()
		}
		sep := ";"
		if i == total-1 {
			sep = ""
		}
		fmt.Fprintf(&b, "  ((%d, %d, %d, %d, %s, %s, %s, %s, %s), (%d%%nat, %v, %d, %s, %s, %s, %s, %s, %s, %s))%s\n",
			kind, op, arg, h, gvList(ps), gvMap(strategic)[6:len(gvMap(strategic))-1], gvMap(actual)[6:len(gvMap(actual))-1], gvMap(tactic)[6:len(gvMap(tactic))-1], gvInputs(inputs),
			calls, proceed, gvCode(t, err), gvMap(dsc.tactic)[6:len(gvMap(dsc.tactic))-1], gvMapOpt(dsc.strategic), gvMap(dsc.actual)[6:len(gvMap(dsc.actual))-1],
			gvList(dsc.priorities), gvList(dsc.uncrowded), gvList(dsc.useful), gvInputs(dsc.inputs), sep)
	}
	b.WriteString("].\n")
	if err := os.WriteFile(out, []byte(b.String()), 0o644); err != nil {
		t.Fatal(err)
	}
}
