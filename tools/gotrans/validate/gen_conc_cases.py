#!/usr/bin/env python3
"""Random scenarios (fixed seed) for validate/coq/ValConcV2Prio.v: (priorities, H, buffered?, rate?, script of driver
operations (code, argument, settle)); codes as in Prio2Sim.apply_op: 1 put, 2 close, 3 take, 4 release, 5/7 arm a divider fault."""
import random
import sys

rng = random.Random(20261002)
rows = []
for i in range(60):
    n = rng.randint(1, 4)
    ps = rng.sample(range(1, 9), n)
    h = rng.randint(n, n + 8) if rng.random() < 0.9 else rng.randint(n, 30)
    unbuf = [p for p in ps if rng.random() < 0.3]
    rate = i % 6 == 5
    if rate:
        h = max(h, sum(ps))  # keep Rate's strategic distribution filled more often
    ops = []
    for _ in range(rng.randint(15, 45)):
        r = rng.random()
        settle = rng.random() < 0.5
        if r < 0.40:
            ops.append((1, rng.choice(ps), settle))
        elif r < 0.65:
            ops.append((3, 0, settle))
        elif r < 0.88:
            ops.append((4, rng.randint(0, 5), settle))
        elif r < 0.93:
            ops.append((2, rng.choice(ps), settle))
        elif r < 0.97 and i % 5 == 3:
            ops.append((5, rng.choice([1, -1, 2]), False))
        elif i % 5 == 4:
            ops.append((7, rng.choice([1, -1]), False))
        else:
            ops.append((3, 0, settle))
    if i % 2 == 0:  # run to the end: close everything, take and release everything
        for p in ps:
            ops.append((2, p, True))
        for _ in range(40):
            ops.append((3, 0, True))
            ops.append((4, 0, True))
        ops.append((3, 0, True))
    z = lambda x: "(%d)" % x if x < 0 else str(x)
    buf = "(fun p => negb (existsb (N.eqb p) [%s]))" % "; ".join(map(str, unbuf))
    opl = "; ".join("(%s, %s, %s)" % (z(c), z(a), "true" if s else "false") for c, a, s in ops)
    rows.append("  ([%s], %d, %s, %s, [%s]%%Z)" % ("; ".join(map(str, ps)), h, buf, "true" if rate else "false", opl))
out = ["(* written by validate/gen_conc_cases.py: random scenarios for ValConcV2Prio.v *)",
       "From Coq Require Import List NArith ZArith.", "Import ListNotations.", "Open Scope N_scope.",
       "Definition scenarios : list (list N * N * (N -> bool) * bool * list (Z * Z * bool)) := [",
       ";\n".join(rows), "]."]
open(sys.argv[1], "w").write("\n".join(out) + "\n")
