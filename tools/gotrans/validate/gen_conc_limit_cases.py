#!/usr/bin/env python3
"""Random scenarios (fixed seed) for validate/coq/ValConcLimit.v: (quantity, interval, input capacity, close_after,
producer delays, consumer script (index, pause))."""
import random
import sys

rng = random.Random(20261003)
rows = []
for i in range(50):
    q = rng.randint(1, 5)
    ivl = rng.choice([1, 5, 10, 20, 37, 100])
    icap = rng.randint(0, 3)
    close_after = rng.randint(0, 30)
    n = rng.randint(0, 25)
    ds = [rng.choice([0, 0, 1, 2, 5, 13, 40]) for _ in range(n)]
    cs = []
    idx = 0
    for _ in range(rng.randint(0, 4)):
        idx += rng.randint(0, 5)
        cs.append((idx, rng.choice([1, 7, 30, 120])))
        idx += 1
    rows.append("  (%d, %d, %d, %d, [%s], [%s])" % (q, ivl, icap, close_after, "; ".join(map(str, ds)),
                                                  "; ".join("(%d, %d)" % c for c in cs)))
out = ["(* written by validate/gen_conc_limit_cases.py: random scenarios for ValConcLimit.v *)",
       "From Coq Require Import List ZArith.", "Import ListNotations.", "Open Scope Z_scope.",
       "Definition scenarios : list (Z * Z * Z * Z * list Z * list (Z * Z)) := [", ";\n".join(rows), "]."]
open(sys.argv[1], "w").write("\n".join(out) + "\n")
