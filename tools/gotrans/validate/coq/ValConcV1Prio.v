(* gotrans validation, part 2: the generated program of the v1 priority goroutine (GenConcV1Prio.v, run by GoConc.v against a
   scripted environment) and the hand-written model (Prio1.sched_step with fixed = true, driven by Prio1Sim, oracle 0: among
   several ready alternatives of a select the first one -- stop, command, then feedback / input / output) on the same
   scripts: put / close / take / release / AddInput / RemoveInput / GracefulStop / Stop / divider faults.  Same result of
   every operation, same digest after every operation, same delivered and dropped items, same end.
   The capacity of a channel is a constant of the generated program per channel identifier (CInput p): the scripts keep the
   buffering of the channels registered under one priority the same. *)
From Coq Require Import List NArith ZArith Bool.
From Cqos Require Import Base Float64 Divider Sched Prio1 Prio1Sim GoSem GoConc GenV1Prio GenConcV1Prio CasesConcV1Prio.
Import ListNotations.
Open Scope N_scope.

Definition cfgT := config cstate payload chan_id fname.

(* the environment: the channel fields of a Prio1.st; chan_of = which channel the goroutine has registered under a priority *)
Definition E (e : st) (co : N -> option nat) (iq : nat -> list N) (oq : list (N * N)) (fb : list N) (cm : list cmd)
             (dl : list (N * N)) (dr : list (N * N)) : st :=
  mkSt (H e) (prios e) (strategic e) (actual e) (tactic e) co (drained e) iq (closed e) (buffered e)
       oq (outcap e) (held e) fb (fblimit e) (stopped e) (graceful e) cm (pcs e) (ncalls e) dl (calls e) (reads e) dr (written e).
Definition env_fb e q := E e (chan_of e) (inq e) (outq e) q (cmds e) (delivered e) (dropped e).
Definition env_in e ch q := E e (chan_of e) (updn (inq e) ch q) (outq e) (fbq e) (cmds e) (delivered e) (dropped e).
Definition env_out e p x := E e (chan_of e) (inq e) (outq e ++ [(p, x)]) (fbq e) (cmds e) (delivered e ++ [(p, x)]) (dropped e).
Definition env_cmd e co q := E e co (inq e) (outq e) (fbq e) q (delivered e) (dropped e).

(* the first ready alternative, in the order of the select statement *)
Fixpoint first_ready (e : st) (alts : list (chan_id * option payload)) (i : nat) : option (answer payload * st) :=
  match alts with
  | [] => None
  | (CBreakerIsBreaked, None) :: r => if stopped e then Some (AnsSel i None, e) else first_ready e r (S i)
  | (CGracefulIsBreaked, None) :: r => if graceful e then Some (AnsSel i None, e) else first_ready e r (S i)
  | (CInputAdds, None) :: r =>
      match cmds e with
      | CAdd ch p :: q => Some (AnsSel i (Some (PinputAdd (mk_inputAdd opaque_some p))), env_cmd e (upd (chan_of e) p (Some ch)) q)
      | _ => first_ready e r (S i)
      end
  | (CInputRmvs, None) :: r =>
      match cmds e with
      | CRmv p :: q => Some (AnsSel i (Some (PN p)), env_cmd e (upd (chan_of e) p None) q)
      | _ => first_ready e r (S i)
      end
  | (CFeedback, None) :: r =>
      match fbq e with p :: q => Some (AnsSel i (Some (PN p)), env_fb e q) | [] => first_ready e r (S i) end
  | (CInput p, None) :: r =>
      match chan_of e p with
      | Some ch =>
          match inq e ch with
          | x :: q => Some (AnsSel i (Some (PN x)), env_in e ch q)
          | [] => if closed e ch then Some (AnsSel i None, e) else first_ready e r (S i)
          end
      | None => first_ready e r (S i)
      end
  | (COutput, Some (PPrioritized x)) :: r =>
      if N.of_nat (length (outq e)) <? outcap e
      then Some (AnsSel i None, env_out e (Prioritized_Priority x) (Prioritized_Item x)) else first_ready e r (S i)
  | _ :: r => first_ready e r (S i)
  end.

Record cenv := mkCenv { ce_st : st; ce_err : option (option err_V1Prio); ce_done : bool }.

Definition answer_of (c : cenv) (rq : request payload chan_id) : option (answer payload * cenv) :=
  let e := ce_st c in
  match rq with
  | RqSend CErr (PErr x) => Some (AnsOk, mkCenv e (Some x) (ce_done c))
  | RqSelect alts dflt =>
      match first_ready e alts 0 with
      | Some (a, e') => Some (a, mkCenv e' (ce_err c) (ce_done c))
      | None => if dflt then Some (AnsDefault, c) else None
      end
  | RqClose CBreakerComplete => Some (AnsOk, mkCenv e (ce_err c) true)
  | RqClose _ => Some (AnsOk, c)
  | RqTickerStop => Some (AnsOk, c)
  | _ => None
  end.

Section Run.
Variable cap : chan_id -> Z.
Definition prog := table cap.
Definition ifuel := 4000%nat.

Definition cdigest (cf : cfgT) (c : cenv) : list N :=
  let d := st_dsc (fst cf) in
  let e := ce_st c in
  flat_map (fun p => [match chan_of e p with Some ch => N.of_nat (length (inq e ch)) | None => 0 end;
                      if Input_Drained (mget zero_Input (Discipline_inputs d) p) then 1 else 0;
                      mget 0 (Discipline_actual d) p]) (Discipline_priorities d)
  ++ [N.of_nat (length (outq e)); N.of_nat (length (fbq e)); N.of_nat (length (cmds e)); N.of_nat (length (Discipline_priorities d))].

Definition has_tick (alts : list (chan_id * option payload)) : option nat :=
  (fix go l i := match l with [] => None | (CTick, None) :: _ => Some i | _ :: r => go r (S i) end) alts 0%nat.

Fixpoint crun (fuel : nat) (settle : bool) (last : option (list N * bool)) (cf : cfgT) (c : cenv) : cfgT * cenv :=
  match fuel with
  | O => (cf, c)
  | S f =>
      match run_to_request prog ifuel cf with
      | None => (cf, c)
      | Some (cf1, rq) =>
          match answer_of c rq with
          | Some (a, c') => crun f settle last (resume cf1 a) c'
          | None =>
              if negb settle then (cf1, c) else
              match rq with
              | RqSleep _ =>
                  let dg := cdigest cf1 c in
                  let go := fun (seen : bool) => crun f settle (Some (dg, seen)) (resume cf1 AnsOk) c in
                  match last with
                  | Some (l, seen) => if Prio1Sim.list_eqb l dg then (if seen then (cf1, c) else go true) else go false
                  | None => go false
                  end
              | RqSelect alts false =>
                  match has_tick alts with
                  | Some i => crun f settle last (resume cf1 (AnsSel i None)) c
                  | None => (cf1, c)
                  end
              | _ => (cf1, c)
              end
          end
      end
  end.
End Run.

Definition base_of (rate_ : bool) : Divider := if rate_ then rate part_f else fair.
Definition lift_dv (dv : nat -> Divider) : divider_fn := fun n ps d m => v1_call (dv n) ps d m.

Definition dsc_of (s : st) (dv : nat -> Divider) : Discipline :=
  let ins := map (fun p => (p, mk_Input opaque_some false)) (prios s) in
  mk_Discipline (mk_Opts opaque_some (Some (lift_dv dv)) opaque_some (H s) (Some (map (fun p => (p, opaque_some)) (prios s))) opaque_some)
    opaque_some opaque_some (Some ins) (prios s) opaque_some opaque_some (Some (actual s))
    (match prios s with [] => None | _ => Some (strategic s) end) (Some (tactic s)) [] []
    (N.of_nat (fblimit s)) opaque_some opaque_some.

Definition with_dv (cf : cfgT) (dv : nat -> Divider) : cfgT :=
  let '(v, k) := cf in
  (set_st_dsc (set_Discipline_opts (set_Opts_Divider (Some (lift_dv dv)) (Discipline_opts (st_dsc v))) (st_dsc v)) v, k).

Record csim := mkCsim { cs_cf : cfgT; cs_env : cenv; cs_held : list N; cs_next : N; cs_fault : option (nat * Z * bool); cs_reg : list N }.

Definition is_done (c : cenv) : bool := ce_done c.

Definition capply_op (cap : chan_id -> Z) (base : Divider) (fuel : nat) (sm : csim) (code a b : Z) (settle : bool) : csim * (N * N) :=
  let c := cs_env sm in
  let e := ce_st c in
  let env e' := mkCenv e' (ce_err c) (ce_done c) in
  let upd_env sm e' := mkCsim (cs_cf sm) (env e') (cs_held sm) (cs_next sm) (cs_fault sm) (cs_reg sm) in
  let '(sm1, res) :=
    if (code =? 1)%Z then
      match env_step e (Prio1.Put (Z.to_nat a) (cs_next sm)) with
      | Some e' => (mkCsim (cs_cf sm) (env e') (cs_held sm) (cs_next sm + 1) (cs_fault sm) (cs_reg sm), (0, 0))
      | None => (sm, (0, 0))
      end
    else if (code =? 2)%Z then (upd_env sm (env_or_same e (Prio1.Close (Z.to_nat a))), (0, 0))
    else if (code =? 3)%Z then
      match outq e with
      | (p, x) :: _ =>
          match env_step e Prio1.Take with
          | Some e' => (mkCsim (cs_cf sm) (env e') (cs_held sm ++ [p]) (cs_next sm) (cs_fault sm) (cs_reg sm), (p, x))
          | None => (sm, (0, 0))
          end
      | [] => (sm, (0, 0))
      end
    else if (code =? 4)%Z then
      match nth_mod (Z.to_N a) (cs_held sm) with
      | Some (p, rest) =>
          match env_step e (Prio1.Release p) with
          | Some e' => (mkCsim (cs_cf sm) (env e') rest (cs_next sm) (cs_fault sm) (cs_reg sm), (0, 0))
          | None => (sm, (0, 0))
          end
      | None => (sm, (0, 0))
      end
    else if (code =? 5)%Z then (mkCsim (cs_cf sm) c (cs_held sm) (cs_next sm) (Some (st_w (fst (cs_cf sm)), a, false)) (cs_reg sm), (0, 0))
    else if (code =? 7)%Z then (mkCsim (cs_cf sm) c (cs_held sm) (cs_next sm) (Some (st_w (fst (cs_cf sm)), a, true)) (cs_reg sm), (0, 0))
    else if (code =? 8)%Z then
      if is_done c then (sm, (0, 0)) else
      (mkCsim (cs_cf sm) (env (env_or_same e (AddCall (Z.to_nat a) (Z.to_N b) (a <? 1000)%Z))) (cs_held sm) (cs_next sm) (cs_fault sm)
              (if existsb (N.eqb (Z.to_N b)) (cs_reg sm) then cs_reg sm else Z.to_N b :: cs_reg sm), (0, 0))
    else if (code =? 9)%Z then
      if is_done c then (sm, (0, 0)) else
      (mkCsim (cs_cf sm) (env (env_or_same e (RmvCall (Z.to_N a)))) (cs_held sm) (cs_next sm) (cs_fault sm)
              (filter (fun q => negb (N.eqb q (Z.to_N a))) (cs_reg sm)), (0, 0))
    else if (code =? 10)%Z then (upd_env sm (env_or_same e GracefulCall), (0, 0))
    else if orb (code =? 11)%Z (code =? 12)%Z then (upd_env sm (env_or_same e StopCall), (0, 0))
    else (sm, (0, 0)) in
  let cf1 := with_dv (cs_cf sm1) (sim_dv base (sort_desc (cs_reg sm1)) (cs_fault sm1)) in
  let '(cf2, c2) := crun cap fuel settle None cf1 (cs_env sm1) in
  (mkCsim cf2 c2 (cs_held sm1) (cs_next sm1) (cs_fault sm1) (cs_reg sm1), res).

Definition pair_eqb (a b : N * N) : bool := (fst a =? fst b) && (snd a =? snd b).
Fixpoint pairs_eqb (a b : list (N * N)) : bool :=
  match a, b with [] , [] => true | x :: a', y :: b' => pair_eqb x y && pairs_eqb a' b' | _, _ => false end.

Fixpoint both (cap : chan_id -> Z) (base : Divider) (fuel : nat) (sm : psim) (cm : csim) (sc : list (Z * Z * Z * bool)) : bool * psim * csim :=
  match sc with
  | [] => (true, sm, cm)
  | (code, a, b, settle) :: r =>
      let '(sm', res) := apply_op true base fuel sm code a b settle in
      let '(cm', cres) := capply_op cap base fuel cm code a b settle in
      if pair_eqb res cres && Prio1Sim.list_eqb (digest (ps_st sm')) (cdigest (cs_cf cm') (cs_env cm'))
      then both cap base fuel sm' cm' r else (false, sm', cm')
  end.

Definition perr_code (e : option perr) : N :=
  match e with None => 0 | Some (EDiv DividerBad) => 1 | Some (EDiv SumOverflow) => 2 | Some EQuantityExceeded => 3 end.
Definition gerr_code (e : option err_V1Prio) : N :=
  match e with None => 0 | Some ErrDividerBad => 1 | Some ErrValueOverflow => 2 | Some ErrQuantityExceeded => 3 | Some _ => 9 end.

(* a scenario: (initial inputs (priority, channel), H, output capacity, unbuffered priorities, rate?, script) *)
Definition scenario := (list (N * nat) * N * N * list N * bool * list (Z * Z * Z * bool))%type.

Definition run_scenario (sc : scenario) : bool * bool * bool :=   (* (agree, finished, a select had several ready alternatives) *)
  let '(cfg, h, ocap, unbuf, rate_, script) := sc in
  let base := base_of rate_ in
  let s0 := init_state (fun _ => base) cfg h (fun ch => Nat.ltb ch 1000) ocap in
  let cap := fun c => match c with CInput p => if existsb (N.eqb p) unbuf then 0%Z else 1%Z | _ => 1%Z end in
  let cf0 : cfgT := start (table cap) (dsc_of s0 (fun _ => base), zero_G, ncalls s0) F_main in
  let fuel := 3000%nat in
  let '(s1, amb0) := sched_run true (fun _ => base) fuel false None false s0 in
  let sm0 := mkPsim s1 [] 1 None amb0 (map fst cfg) in
  let '(cf1, c1) := crun cap fuel false None cf0 (mkCenv s0 None false) in
  let cm0 := mkCsim cf1 c1 [] 1 None (map fst cfg) in
  let '(ok, sm, cm) := both cap base fuel sm0 cm0 script in
  let s := ps_st sm in
  let finished := match pcs s with Done _ => true | _ => false end in
  let cdone := match run_to_request (table cap) ifuel (cs_cf cm) with Some (_, RqDone) => true | _ => false end in
  (ok && pairs_eqb (delivered s) (delivered (ce_st (cs_env cm))) && Bool.eqb finished cdone
      && match pcs s with
         | Done e => (perr_code e =? match ce_err (cs_env cm) with Some x => gerr_code x | None => 0 end)
         | _ => true
         end
      && Nat.eqb (ncalls s) (st_w (fst (cs_cf cm))),
   finished, ps_amb sm).

Definition results := Eval vm_compute in map run_scenario scenarios.
Lemma conc_v1prio_ok : forallb (fun r => fst (fst r)) results = true.     Proof. vm_compute. reflexivity. Qed.
Definition n_conc_v1prio := Eval vm_compute in
  (length results, length (filter (fun r => snd (fst r)) results), length (filter snd results)).
Print n_conc_v1prio.    (* (scenarios, run to the end of the goroutine, with an ambiguous select somewhere) *)
