(* gotrans validation, part 2: the generated program of the v2 limit goroutine (GenConcLimit.v, run by GoConc.v) against the
   hand-written model Limit.lstep, both driven by the deterministic environment of LimitSim.v (producer, consumer, clock) on
   the same scenarios, step by step: same clock, buffers, logs of puts and outputs, same close time. *)
From Coq Require Import List NArith ZArith Bool.
From RecordUpdate Require Import RecordSet.
From Cqos Require Import Limit LimitSim GoSem GoConc GenLimit GenConcLimit CasesConcLimit.
Import ListNotations RecordSetNotations.
Open Scope Z_scope.

Definition cfgT := config cstate payload chan_id fname.
Definition ifuel := 200%nat.

(* run to the next request that involves the channels or the sleep; the clock is read without time passing, the close of
   the output is immediate *)
Fixpoint settle (fuel : nat) (now : Z) (cf : cfgT) : option (cfgT * request payload chan_id) :=
  match fuel with
  | O => None
  | S f =>
      match run_to_request table ifuel cf with
      | Some (cf1, RqNow) => settle f now (resume cf1 (AnsTime now))
      | Some (cf1, RqClose _) => settle f now (resume cf1 AnsOk)
      | r => r
      end
  end.

(* the model pc that a pending request stands for (k and s of LRecv / LSend are not observable: 0) *)
Definition abs_pc (now : Z) (rq : request payload chan_id) : lpc :=
  match rq with
  | RqRecv CInput => LRecv 0 0
  | RqSend COutput (PN x) => LSend 0 0 (Z.of_N x)
  | RqSleep d => LSleep (now + d)
  | _ => LClosed
  end.
Definition norm_pc (p : lpc) : lpc :=
  match p with LRecv _ _ => LRecv 0 0 | LSend _ _ x => LSend 0 0 x | p => p end.

(* answer the pending request of the program, as LimitSim.lfire lets the model take an event *)
Definition cfire (cf : cfgT) (s : lsim) (a : answer payload) : option (cfgT * lsim) :=
  match settle 20 (lnow s) (resume cf a) with
  | Some (cf', rq) => Some (cf', s <| ld := abs_pc (lnow s) rq |>)
  | None => None
  end.

Definition cstep_disc (cf : cfgT) (s : lsim) : option (cfgT * lsim) :=
  let t := lnow s in
  match ld s with
  | LRecv _ _ =>
      match libuf s with
      | x :: rest => option_map (fun r => (fst r, snd r <| libuf := rest |>)) (cfire cf s (AnsRecv (Some (PN (Z.to_N x)))))
      | [] =>
          if (licap s =? 0)%nat && negb (lprod_done s) && (lprod_at s <=? t) && match lprod s with [] => false | _ => true end then
            option_map (fun r => (fst r, snd r <| lprod := tl (lprod s) |> <| lnext := lnext s + 1 |> <| lprod_at := lnext_prod_at s (tl (lprod s)) |>
                                     <| lputlog := t :: lputlog s |>))
                       (cfire cf s (AnsRecv (Some (PN (Z.to_N (lnext s))))))
          else if liclosed s then cfire cf s (AnsRecv None) else None
      end
  | LSend _ _ x =>
      if (length (lobuf s) <? locap s)%nat then option_map (fun r => (fst r, snd r <| lobuf := lobuf s ++ [x] |>)) (cfire cf s AnsOk) else None
  | LSleep u => if u <=? t then cfire cf s AnsOk else None
  | LClosed => None
  end.

Definition csim_step (cf : cfgT) (s : lsim) : option (cfgT * lsim) :=
  match lstep_consumer s with
  | Some s' => Some (cf, s')
  | None =>
      match cstep_disc cf s with
      | Some r => Some r
      | None => match lorelse (lstep_producer s) (fun _ => ladvance s) with Some s' => Some (cf, s') | None => None end
      end
  end.

Fixpoint zs_eqb (a b : list Z) : bool :=
  match a, b with [], [] => true | x :: a', y :: b' => (x =? y) && zs_eqb a' b' | _, _ => false end.
Fixpoint zz_eqb (a b : list (Z * Z)) : bool :=
  match a, b with [], [] => true | (x, x') :: a', (y, y') :: b' => (x =? y) && (x' =? y') && zz_eqb a' b' | _, _ => false end.
Definition pc_eqb (p q : lpc) : bool :=
  match norm_pc p, norm_pc q with
  | LRecv _ _, LRecv _ _ => true | LSend _ _ x, LSend _ _ y => x =? y | LSleep u, LSleep v => u =? v | LClosed, LClosed => true | _, _ => false
  end.
Definition same (a b : lsim) : bool :=
  (lnow a =? lnow b) && pc_eqb (ld a) (ld b) && zs_eqb (libuf a) (libuf b) && zs_eqb (lobuf a) (lobuf b) &&
  zz_eqb (loutlog a) (loutlog b) && zs_eqb (lputlog a) (lputlog b) && (ltclose a =? ltclose b) &&
  Bool.eqb (liclosed a) (liclosed b) && Bool.eqb (lcons_done a) (lcons_done b) && (lnext a =? lnext b).

(* both, step by step; result: (agree, both finished together, outputs) *)
Fixpoint both (c : lcfg) (fuel : nat) (sm : lsim) (cf : cfgT) (sc : lsim) : bool * bool * nat :=
  match fuel with
  | O => (same sm sc, false, length (loutlog sm))
  | S f =>
      if negb (same sm sc) then (false, false, 0%nat) else
      match lsim_step c sm, csim_step cf sc with
      | Some sm', Some (cf', sc') => both c f sm' cf' sc'
      | None, None => (true, true, length (loutlog sm))
      | _, _ => (false, false, 0%nat)
      end
  end.

(* a scenario: (quantity, interval, input capacity, close_after, producer delays, consumer script) *)
Definition run_scenario (x : Z * Z * Z * Z * list Z * list (Z * Z)) : bool * bool * nat :=
  let '(q, i, icp, closeafter, ds, cs) := x in
  let c := {| quantity := q; linterval := i |} in
  let s0 := {| lnow := 0; ld := linit 0; libuf := []; licap := Z.to_nat icp; liclosed := false; lprod := ds; lnext := 1;
               lprod_at := match ds with [] => closeafter | dl :: _ => dl end; lclose_after := closeafter; lprod_done := false;
               lobuf := []; locap := S (Z.to_nat icp); lcons_at := 0; lcons_n := 0; lcons_script := cs; lcons_done := false;
               loutlog := []; lputlog := []; ltclose := -1 |} in
  let dsc := mk_Discipline (mk_Opts opaque_some (mk_Rate i (Z.to_N q))) opaque_some in
  match settle 20 0 (start table (dsc, zero_G, 0%nat) F_main) with
  | Some (cf0, rq) => both c 3000 s0 cf0 (s0 <| ld := abs_pc 0 rq |>)
  | None => (false, false, 0%nat)
  end.

Definition results := Eval vm_compute in map run_scenario scenarios.
Lemma conc_limit_ok : forallb (fun r => fst (fst r)) results = true.   Proof. vm_compute. reflexivity. Qed.
Definition n_conc_limit := Eval vm_compute in
  (length results, length (filter (fun r => snd (fst r)) results), fold_left Nat.add (map snd results) 0%nat).
Print n_conc_limit.   (* (scenarios, of which finished (output closed and consumed), elements delivered in total) *)
