(* gotrans validation: generated Rate methods (v2/limit) against the results of the Go methods (CasesRate.v) and against
   the hand-written model RateConv *)
From Coq Require Import List NArith ZArith Bool.
From Cqos Require Import RateConv GoSem GenRate CasesRate.
Import ListNotations.
Open Scope Z_scope.

Definition code (e : option err_Rate) : Z :=
  match e with
  | None => 0
  | Some ErrIntervalNegative => 1 | Some ErrIntervalZero => 2 | Some ErrQuantityZero => 3
  | Some ErrMinimumIntervalNegative => 4 | Some ErrConvertedIntervalZero => 5
  | Some ErrConvertedQuantityUnrepresentable => 6
  end.
Definition enc (x : nat * (Rate * option err_Rate)) : list Z :=
  let '(w, (r, e)) := x in [Z.of_nat w; code e; Rate_Interval r; Z.of_N (Rate_Quantity r)].

Definition zs_eqb (a b : list Z) : bool :=
  (fix go a b := match a, b with [] , [] => true | x :: a', y :: b' => (x =? y) && go a' b' | _, _ => false end) a b.

Definition check_gen (c : Z * Z * Z * Z * Z * Z * Z) : bool :=
  let '(which, i, q, m, ecode, i', q') := c in
  let rt := mk_Rate i (Z.to_N q) in
  let got :=
    if which =? 0 then enc (gen_Recalculate 3%nat rt m)
    else if which =? 1 then enc (gen_Optimize 3%nat rt)
    else if which =? 2 then enc (gen_Flatten 3%nat rt)
    else let '(w, e) := gen_IsValid 3%nat rt in [Z.of_nat w; code e; 0; 0] in
  zs_eqb got [3; ecode; i'; q'].

Definition check_model (c : Z * Z * Z * Z * Z * Z * Z) : bool :=
  let '(which, i, q, m, ecode, i', q') := c in
  let r := {| ivl := i; qty := q |} in
  let got :=
    if which =? 0 then enc_result (recalculate r m)
    else if which =? 1 then enc_result (optimize r)
    else if which =? 2 then enc_result (flatten r)
    else [match is_valid r with None => 0 | Some e => err_code e end; 0; 0] in
  zs_eqb got [ecode; i'; q'].

Lemma rate_gen_ok : forallb check_gen rate_cases = true.       Proof. vm_compute. reflexivity. Qed.
Lemma rate_model_ok : forallb check_model rate_cases = true.   Proof. vm_compute. reflexivity. Qed.
Definition n_rate := Eval vm_compute in length rate_cases.
Print n_rate.
