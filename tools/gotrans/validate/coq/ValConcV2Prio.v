(* gotrans validation, part 2 (SPEC_CONC section 4): the generated program of the v2 priority goroutine (GenConcV2Prio.v,
   run by GoConc.v against a scripted environment) and the hand-written model (Prio2.sched_step driven by Prio2Sim) on
   the same scripts of driver operations: same results of every operation, same digest (queue lengths, drained flags,
   actual) after every operation, same delivered items, same end (error / closed). *)
From Coq Require Import List NArith ZArith Bool.
From Cqos Require Import Base Float64 Divider Sched Prio2 Prio2Sim GoSem GoConc GenV2Prio GenConcV2Prio CasesConcV2Prio.
Import ListNotations.
Open Scope N_scope.

Definition cfgT := config cstate payload chan_id fname.

(* the environment of the generated program: the channel fields of a Prio2.st (its scheduler fields are not used) *)
Definition env_fb (e : st) (q : list N) : st :=
  mkSt (H e) (prios e) (strategic e) (actual e) (tactic e) (inq e) (closed e) (drained e) (buffered e)
       (outq e) (outcap e) (held e) q (fblimit e) (pcs e) (ncalls e) (delivered e) (calls e) (written e).
Definition env_in (e : st) (p : N) (q : list N) : st :=
  mkSt (H e) (prios e) (strategic e) (actual e) (tactic e) (upd (inq e) p q) (closed e) (drained e) (buffered e)
       (outq e) (outcap e) (held e) (fbq e) (fblimit e) (pcs e) (ncalls e) (delivered e) (calls e) (written e).
Definition env_out (e : st) (p x : N) : st :=
  mkSt (H e) (prios e) (strategic e) (actual e) (tactic e) (inq e) (closed e) (drained e) (buffered e)
       (outq e ++ [(p, x)]) (outcap e) (held e) (fbq e) (fblimit e) (pcs e) (ncalls e) (delivered e ++ [(p, x)]) (calls e) (written e).

(* which alternative of a select is ready: the first receive whose channel has an item or is closed (the ticker is
   never ready by itself) *)
Fixpoint first_ready (e : st) (alts : list (chan_id * option payload)) (i : nat) : option (answer payload * st) :=
  match alts with
  | [] => None
  | (CFeedback, None) :: r =>
      match fbq e with p :: q => Some (AnsSel i (Some (PN p)), env_fb e q) | [] => first_ready e r (S i) end
  | (CInput p, None) :: r =>
      match inq e p with
      | x :: q => Some (AnsSel i (Some (PN x)), env_in e p q)
      | [] => if closed e p then Some (AnsSel i None, e) else first_ready e r (S i)
      end
  | _ :: r => first_ready e r (S i)
  end.

Record cenv := mkCenv { ce_st : st; ce_err : option (option err_V2Prio); ce_closed_out : bool }.

Definition answer_of (c : cenv) (rq : request payload chan_id) : option (answer payload * cenv) :=
  let e := ce_st c in
  match rq with
  | RqRecv CFeedback => match fbq e with p :: q => Some (AnsRecv (Some (PN p)), mkCenv (env_fb e q) (ce_err c) (ce_closed_out c)) | [] => None end
  | RqSend COutput (PPrioritized x) =>
      if N.of_nat (length (outq e)) <? outcap e
      then Some (AnsOk, mkCenv (env_out e (Prioritized_Priority x) (Prioritized_Item x)) (ce_err c) (ce_closed_out c)) else None
  | RqSend CErr (PErr x) => Some (AnsOk, mkCenv e (Some x) (ce_closed_out c))
  | RqSelect alts dflt =>
      match first_ready e alts 0 with
      | Some (a, e') => Some (a, mkCenv e' (ce_err c) (ce_closed_out c))
      | None => if dflt then Some (AnsDefault, c) else None
      end
  | RqClose COutput => Some (AnsOk, mkCenv e (ce_err c) true)
  | RqClose _ => Some (AnsOk, c)
  | RqTickerStop => Some (AnsOk, c)
  | _ => None
  end.

Section Run.
Variable cap : chan_id -> Z.
Definition prog := table cap.
Definition ifuel := 4000%nat.    (* internal steps between two requests *)

Definition cdigest (cf : cfgT) (c : cenv) : list N :=
  let d := st_dsc (fst cf) in
  let e := ce_st c in
  flat_map (fun p => [N.of_nat (length (inq e p));
                      if Input_Drained (mget zero_Input (Discipline_inputs d) p) then 1 else 0;
                      mget 0 (Discipline_actual d) p]) (Discipline_priorities d)
  ++ [N.of_nat (length (outq e)); N.of_nat (length (fbq e))].

Definition has_tick (alts : list (chan_id * option payload)) : option nat :=
  (fix go l i := match l with [] => None | (CTick, None) :: _ => Some i | _ :: r => go r (S i) end) alts 0%nat.

(* the counterpart of Prio2Sim.sched_run: answer requests while the environment can; when settling, let time pass *)
Fixpoint crun (fuel : nat) (settle : bool) (last : option (list N * bool)) (cf : cfgT) (c : cenv) : cfgT * cenv * bool :=
  match fuel with
  | O => (cf, c, false)
  | S f =>
      match run_to_request prog ifuel cf with
      | None => (cf, c, false)
      | Some (cf1, rq) =>
          match answer_of c rq with
          | Some (a, c') => crun f settle last (resume cf1 a) c'
          | None =>
              if negb settle then (cf1, c, true) else
              match rq with
              | RqSleep _ =>
                  let dg := cdigest cf1 c in
                  let go := fun (seen : bool) => crun f settle (Some (dg, seen)) (resume cf1 AnsOk) c in
                  match last with
                  | Some (l, seen) => if Prio2Sim.list_eqb l dg then (if seen then (cf1, c, true) else go true) else go false
                  | None => go false
                  end
              | RqSelect alts false =>
                  match has_tick alts with
                  | Some i => crun f settle last (resume cf1 (AnsSel i None)) c
                  | None => (cf1, c, true)
                  end
              | _ => (cf1, c, true)
              end
          end
      end
  end.
End Run.

(* ---- one scenario: (priorities, H, buffered?, rate?, script) *)
Definition scenario := (list N * N * (N -> bool) * bool * list (Z * Z * bool))%type.

Definition base_of (rate_ : bool) : Divider := if rate_ then rate part_f else fair.
Definition lift_dv (dv : nat -> Divider) : divider_fn := fun n ps d m => v2_call (dv n) ps d m.

Definition dsc_of (s : st) (dv : nat -> Divider) : Discipline :=
  let ins := map (fun p => (p, mk_Input opaque_some false)) (prios s) in
  mk_Discipline (mk_Opts (Some (lift_dv dv)) (H s) (Some (map (fun p => (p, opaque_some)) (prios s))))
    opaque_some (Some ins) opaque_some (prios s) (Some (actual s)) (Some (strategic s)) (Some (tactic s)) [] []
    (N.of_nat (fblimit s)) opaque_some opaque_some.

Definition with_dv (cf : cfgT) (dv : nat -> Divider) : cfgT :=
  let '(v, k) := cf in
  (set_st_dsc (set_Discipline_opts (set_Opts_Divider (Some (lift_dv dv)) (Discipline_opts (st_dsc v))) (st_dsc v)) v, k).

Record csim := mkCsim { cs_cf : cfgT; cs_env : cenv; cs_held : list N; cs_next : N; cs_fault : option (nat * Z * bool) }.

Definition capply_op (cap : chan_id -> Z) (base : Divider) (all : list N) (fuel : nat) (sm : csim) (code arg : Z) (settle : bool)
  : csim * (N * N) :=
  let c := cs_env sm in
  let e := ce_st c in
  let env e' := mkCenv e' (ce_err c) (ce_closed_out c) in
  let '(sm1, res) :=
    if (code =? 1)%Z then
      match env_step e (Prio2.Put (Z.to_N arg) (cs_next sm)) with
      | Some e' => (mkCsim (cs_cf sm) (env e') (cs_held sm) (cs_next sm + 1) (cs_fault sm), (0, 0))
      | None => (sm, (0, 0))
      end
    else if (code =? 2)%Z then
      match env_step e (Prio2.Close (Z.to_N arg)) with
      | Some e' => (mkCsim (cs_cf sm) (env e') (cs_held sm) (cs_next sm) (cs_fault sm), (0, 0))
      | None => (sm, (0, 0))
      end
    else if (code =? 3)%Z then
      match outq e with
      | (p, x) :: _ =>
          match env_step e Prio2.Take with
          | Some e' => (mkCsim (cs_cf sm) (env e') (cs_held sm ++ [p]) (cs_next sm) (cs_fault sm), (p, x))
          | None => (sm, (0, 0))
          end
      | [] => (sm, if ce_closed_out c then (closed_mark, 0) else (0, 0))
      end
    else if (code =? 4)%Z then
      match nth_mod (Z.to_N arg) (cs_held sm) with
      | Some (p, rest) =>
          match env_step e (Prio2.Release p) with
          | Some e' => (mkCsim (cs_cf sm) (env e') rest (cs_next sm) (cs_fault sm), (0, 0))
          | None => (sm, (0, 0))
          end
      | None => (sm, (0, 0))
      end
    else if (code =? 5)%Z then
      (mkCsim (cs_cf sm) c (cs_held sm) (cs_next sm) (Some (st_w (fst (cs_cf sm)), arg, false)), (0, 0))
    else if (code =? 7)%Z then
      (mkCsim (cs_cf sm) c (cs_held sm) (cs_next sm) (Some (st_w (fst (cs_cf sm)), arg, true)), (0, 0))
    else (sm, (0, 0)) in
  let cf1 := with_dv (cs_cf sm1) (sim_dv base all (cs_fault sm1)) in
  let '(cf2, c2, _) := crun cap fuel settle None cf1 (cs_env sm1) in
  (mkCsim cf2 c2 (cs_held sm1) (cs_next sm1) (cs_fault sm1), res).

Definition pair_eqb (a b : N * N) : bool := (fst a =? fst b) && (snd a =? snd b).
Fixpoint pairs_eqb (a b : list (N * N)) : bool :=
  match a, b with [] , [] => true | x :: a', y :: b' => pair_eqb x y && pairs_eqb a' b' | _, _ => false end.

Definition derr_code (e : option derr) : N := match e with None => 0 | Some DividerBad => 1 | Some SumOverflow => 2 end.
Definition gerr_code (e : option err_V2Prio) : N :=
  match e with None => 0 | Some ErrDividerBad => 1 | Some ErrValueOverflow => 2 | Some _ => 9 end.

(* both machines, operation by operation *)
Fixpoint both (cap : chan_id -> Z) (base : Divider) (all : list N) (fuel : nat) (sm : psim) (cm : csim) (sc : list (Z * Z * bool)) : bool * psim * csim :=
  match sc with
  | [] => (true, sm, cm)
  | (code, arg, settle) :: r =>
      let '(sm', res) := apply_op base fuel sm code arg settle in
      let '(cm', cres) := capply_op cap base all fuel cm code arg settle in
      if pair_eqb res cres && Prio2Sim.list_eqb (digest (ps_st sm')) (cdigest (cs_cf cm') (cs_env cm'))
      then both cap base all fuel sm' cm' r else (false, sm', cm')
  end.

Definition run_scenario (sc : scenario) : bool * bool :=     (* (agree, reached the end of the goroutine) *)
  let '(ps, h, buf, rate_, script) := sc in
  let base := base_of rate_ in
  match new_v2 (fun _ => base) ps h buf with
  | inr _ => (false, false)
  | inl s0 =>
      let cap := fun c => match c with CInput p => if buf p then 1%Z else 0%Z | _ => 1%Z end in
      let cf0 : cfgT := start (table cap) (dsc_of s0 (fun _ => base), zero_G, ncalls s0) F_main in
      let fuel := 3000%nat in
      let sm0 := mkPsim (sched_run (fun _ => base) fuel false None s0) [] 0 None in
      let '(cf1, c1, _) := crun cap fuel false None cf0 (mkCenv s0 None false) in
      let cm0 := mkCsim cf1 c1 [] 0 None in
      let '(ok, sm, cm) := both cap base (prios s0) fuel sm0 cm0 script in
      let s := ps_st sm in
      let finished := match pcs s with Done _ => true | _ => false end in
      let cdone := match run_to_request (table cap) ifuel (cs_cf cm) with Some (_, RqDone) => true | _ => false end in
      (ok && pairs_eqb (delivered s) (delivered (ce_st (cs_env cm)))
          && Bool.eqb finished cdone
          && match pcs s with
             | Done e => (derr_code e =? match ce_err (cs_env cm) with Some x => gerr_code x | None => 0 end)
                         && Bool.eqb (match e with Some _ => true | None => false end)
                                     (match ce_err (cs_env cm) with Some _ => true | None => false end)
             | _ => true
             end
          && Nat.eqb (ncalls s) (st_w (fst (cs_cf cm))),
       finished)
  end.

Definition results := Eval vm_compute in map run_scenario scenarios.
Lemma conc_ok : forallb fst results = true.     Proof. vm_compute. reflexivity. Qed.
Definition n_conc := Eval vm_compute in (length results, length (filter snd results)).
Print n_conc.    (* (scenarios, of which run to the end of the goroutine) *)
