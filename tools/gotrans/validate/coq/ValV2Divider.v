(* gotrans validation: generated Fair/Rate (v2) against the results of the Go functions (CasesV2Divider.v) and against
   the hand-written models Divider.fair / Divider.rate part_f on the cases without wrap-around *)
From Coq Require Import List NArith ZArith Bool.
From Cqos Require Import Base Float64 Divider GoSem GenV2Divider ValCommon CasesV2Divider.
Import ListNotations.
Open Scope N_scope.

Definition case := (list N * N * option (list (N * N)) * option (list (N * N)) * bool)%type.

Definition check_gen (f : nat -> list N -> N -> gmap N -> nat * gmap N * unit) (c : case) : bool :=
  let '(ps, d, init, expect, small) := c in
  let '(w', m', _) := f 7%nat ps d init in
  Nat.eqb w' 7 && map_eqb m' expect.
Definition check_model (dv : Divider) (c : case) : bool :=
  let '(ps, d, init, expect, small) := c in
  if small then map_eqb (v2_call dv ps d init) expect else true.
(* the v2 functions return at once for an empty list; the model functions do the same (fair/rate of [] = id) *)

Lemma fair_gen_ok : forallb (check_gen gen_Fair) fair_cases = true.     Proof. vm_compute. reflexivity. Qed.
Lemma fair_model_ok : forallb (check_model fair) fair_cases = true.     Proof. vm_compute. reflexivity. Qed.
Lemma rate_gen_ok : forallb (check_gen gen_Rate) rate_cases = true.     Proof. vm_compute. reflexivity. Qed.
Lemma rate_model_ok : forallb (check_model (rate part_f)) rate_cases = true.  Proof. vm_compute. reflexivity. Qed.
Definition n_fair := Eval vm_compute in (length fair_cases, count_true (map (fun c => snd c) fair_cases)).
Definition n_rate := Eval vm_compute in (length rate_cases, count_true (map (fun c => snd c) rate_cases)).
Print n_fair. Print n_rate.
