(* gotrans validation: generated FairDivider/RateDivider (v1) against the results of the Go functions (CasesV1Divider.v)
   and against the hand-written models (Divider.v1_call) on the cases without wrap-around *)
From Coq Require Import List NArith ZArith Bool.
From Cqos Require Import Base Float64 Divider GoSem GenV1Divider ValCommon CasesV1Divider.
Import ListNotations.
Open Scope N_scope.

Definition case := (list N * N * option (list (N * N)) * option (list (N * N)) * option (list (N * N)) * bool)%type.

(* the returned map and the state of the argument after the call *)
Definition check_gen (f : nat -> list N -> N -> gmap N -> nat * gmap N * gmap N) (c : case) : bool :=
  let '(ps, d, init, after, res, small) := c in
  let '(w', m', r') := f 7%nat ps d init in
  Nat.eqb w' 7 && map_eqb m' after && map_eqb r' res.
Definition check_model (dv : Divider) (c : case) : bool :=
  let '(ps, d, init, after, res, small) := c in
  if small then map_eqb (v1_call dv ps d init) res else true.

Lemma fair_gen_ok : forallb (check_gen gen_FairDivider) fair_cases = true.   Proof. vm_compute. reflexivity. Qed.
Lemma fair_model_ok : forallb (check_model fair) fair_cases = true.          Proof. vm_compute. reflexivity. Qed.
Lemma rate_gen_ok : forallb (check_gen gen_RateDivider) rate_cases = true.   Proof. vm_compute. reflexivity. Qed.
Lemma rate_model_ok : forallb (check_model (rate part_f)) rate_cases = true. Proof. vm_compute. reflexivity. Qed.
Definition n_fair := Eval vm_compute in (length fair_cases, count_true (map (fun c => snd c) fair_cases)).
Definition n_rate := Eval vm_compute in (length rate_cases, count_true (map (fun c => snd c) rate_cases)).
Print n_fair. Print n_rate.
