(* gotrans validation, part 2: the generated program of the v2 unite goroutine (GenConcUnite.v, run by GoConc.v) against the
   hand-written model Join.jstep (variant UniteV2; the items are slices), both driven by the deterministic environment of JoinSim.v (producer,
   consumer with hold / release, ticker grid, clock) on the same scenarios, step by step. *)
From Coq Require Import List NArith ZArith Bool.
From RecordUpdate Require Import RecordSet.
From Cqos Require Import Join JoinSim GoSem GoConc GenJoinUniteV2 GenConcUnite CasesConcUnite.
Import ListNotations RecordSetNotations.
Open Scope Z_scope.

Definition cfgT := config cstate payload chan_id fname.
Definition rqT := request payload chan_id.
Definition ifuel := 300%nat.

(* run to the next request that involves a channel; the clock is read without time passing; making / stopping the ticker
   and closing channels are immediate *)
Fixpoint settle (fuel : nat) (t : Z) (cf : cfgT) : option (cfgT * rqT) :=
  match fuel with
  | O => None
  | S f =>
      match run_to_request table ifuel cf with
      | Some (cf1, RqNow) => settle f t (resume cf1 (AnsTime t))
      | Some (cf1, RqClose _) | Some (cf1, RqNewTicker _) | Some (cf1, RqTickerStop) => settle f t (resume cf1 AnsOk)
      | r => r
      end
  end.

Definition vals (l : list N) : list elem := map (fun v => (Z.of_N v, 0)) l.
Fixpoint ns_eqb (a b : list N) : bool :=
  match a, b with [], [] => true | x :: a', y :: b' => N.eqb x y && ns_eqb a' b' | _, _ => false end.
(* own: the slice that is sent is the accumulation buffer (pass) and not a forwarded slice of the producer *)
Definition abs_pc (cf : cfgT) (rq : rqT) : jpc :=
  match rq with
  | RqSelect _ _ | RqRecv CInput => Loop
  | RqSend COutput (PList l) => Sending (vals l) (ns_eqb l (Discipline_join (st_dsc (fst cf)))) Full Join.KLoop
  | RqRecv CRelease => AwaitRel Join.KLoop
  | _ => Closed
  end.
Definition abs_st (cf : cfgT) (rq : rqT) : jst := {| buf := []; passAt := 0; pc := abs_pc cf rq; unrel := false; stopped := false |}.

Record csim := mkCsim { cs_cf : cfgT; cs_rq : rqT; cs_sim : jsim }.

Definition cfire (x : csim) (s : jsim) (a : answer payload) : option csim :=
  match settle 30 (now s) (GoConc.resume (cs_cf x) a) with
  | Some (cf', rq) => Some (mkCsim cf' rq (s <| d := abs_st cf' rq |>))
  | None => None
  end.
Definition upd (f : jsim -> jsim) (x : option csim) : option csim :=
  option_map (fun y => mkCsim (cs_cf y) (cs_rq y) (f (cs_sim y))) x.
Definition is_select (rq : rqT) : bool := match rq with RqSelect _ _ => true | _ => false end.
Definition ans_in (x : csim) (item : list Z) : answer payload :=
  let v := Some (PList (map Z.to_N item)) in if is_select (cs_rq x) then AnsSel 1 v else AnsRecv v.
Definition ans_close (x : csim) : answer payload := if is_select (cs_rq x) then AnsSel 1 None else AnsRecv None.

Definition cstep_consumer (c : jcfg) (x : csim) : option csim :=
  let s := cs_sim x in
  let t := now s in
  if cons_done s then None else
  match holding s with
  | Some (until, pause) =>
      if until <=? t then
        if nocopy c then
          match pc (d s) with
          | AwaitRel _ => upd (fun s1 => s1 <| holding := None |> <| cons_at := t + pause |>) (cfire x s (AnsRecv (Some (PList []))))
          | _ => None
          end
        else Some (mkCsim (cs_cf x) (cs_rq x) (s <| holding := None |> <| cons_at := t + pause |>))
      else None
  | None => option_map (mkCsim (cs_cf x) (cs_rq x)) (step_consumer c s)
  end.

Definition cstep_disc (c : jcfg) (x : csim) : option csim :=
  let s := cs_sim x in
  let t := now s in
  match pc (d s) with
  | Sending b own _ _ =>
      if (length (obuf s) <? ocap s)%nat then upd (fun s1 => s1 <| obuf := obuf s ++ [(b, own)] |>) (cfire x s AnsOk) else None
  | AwaitRel _ => None
  | Loop =>
      let tick_due := (0 <? interval c) && (next_tick s =? t) in
      let buffered := match ibuf s with [] => false | _ => true end in
      let direct := (icap s =? 0)%nat && negb buffered && producer_offers s in
      let closed_now := iclosed s && negb buffered in
      if tick_due then
        upd (fun s1 => s1 <| next_tick := t + interval c |> <| ambiguous := ambiguous s || buffered || direct || closed_now |>)
            (cfire x s (AnsSel 0 None))
      else
        match ibuf s with
        | item :: rest => upd (fun s1 => s1 <| ibuf := rest |>) (cfire x s (ans_in x item))
        | [] =>
            if direct then
              match prod s with
              | (_, item) :: rest =>
                  upd (fun s1 => s1 <| prod := rest |> <| prod_at := next_prod_at s rest |> <| putlog := t :: putlog s |>)
                      (cfire x s (ans_in x item))
              | [] => None
              end
            else if closed_now then cfire x s (ans_close x) else None
        end
  | Closed => None
  end.

Definition csim_step (c : jcfg) (x : csim) : option csim :=
  let s := cs_sim x in
  orelse (cstep_consumer c x) (fun _ => orelse (cstep_disc c x) (fun _ =>
  option_map (mkCsim (cs_cf x) (cs_rq x)) (orelse (step_producer s) (fun _ => advance c s)))).

Fixpoint zs_eqb (a b : list Z) : bool :=
  match a, b with [], [] => true | x :: a', y :: b' => (x =? y) && zs_eqb a' b' | _, _ => false end.
Fixpoint list_eqb {A} (e : A -> A -> bool) (a b : list A) : bool :=
  match a, b with [], [] => true | x :: a', y :: b' => e x y && list_eqb e a' b' | _, _ => false end.
Definition pc_eqb (p q : jpc) : bool :=
  match p, q with
  | Loop, Loop | Closed, Closed | AwaitRel _, AwaitRel _ => true
  | Sending b o _ _, Sending b' o' _ _ => zs_eqb (map fst b) (map fst b') && Bool.eqb o o'
  | _, _ => false
  end.
Definition same (a b : jsim) : bool :=
  (now a =? now b) && pc_eqb (pc (d a)) (pc (d b)) && list_eqb zs_eqb (ibuf a) (ibuf b) &&
  list_eqb (fun x y => zs_eqb (map fst (fst x)) (map fst (fst y)) && Bool.eqb (snd x) (snd y)) (obuf a) (obuf b) &&
  list_eqb (fun x y => let '(t, al, v) := x in let '(t', al', v') := y in (t =? t') && (al =? al') && zs_eqb v v') (outlog a) (outlog b) &&
  zs_eqb (putlog a) (putlog b) && (tclose a =? tclose b) && Bool.eqb (cons_done a) (cons_done b) && (next_tick a =? next_tick b).

Fixpoint both (c : jcfg) (fuel : nat) (sm : jsim) (x : csim) : bool * bool * nat :=
  match fuel with
  | O => (same sm (cs_sim x), false, length (outlog sm))
  | S f =>
      if negb (same sm (cs_sim x)) then (false, false, 0%nat) else
      match sim_step c sm, csim_step c x with
      | Some sm', Some x' => both c f sm' x'
      | None, None => (true, true, length (outlog sm))
      | _, _ => (false, false, 0%nat)
      end
  end.

Fixpoint mk_items (next : Z) (script : list (Z * Z)) : list (Z * list Z) :=
  match script with
  | [] => []
  | (dl, len) :: r => (dl, map (fun i => next + Z.of_nat i) (seq 0 (Z.to_nat len))) :: mk_items (next + len) r
  end.

(* a scenario: (JoinSize, nocopy, timeout, interval, input capacity, close_after, producer script (delay, length), consumer script) *)
Definition run_scenario (sc : Z * bool * Z * Z * Z * Z * list (Z * Z) * list (Z * Z)) : bool * bool * nat :=
  let '(j, nc, tmo, ivl, icp, closeafter, ds, cs) := sc in
  let c := {| variant_of := UniteV2; jsize := Z.to_nat j; timeout := tmo; interval := ivl; nocopy := nc |} in
  let items := mk_items 1 ds in
  let s0 := {| now := 0; d := jinit 0; ibuf := []; icap := Z.to_nat icp; iclosed := false; prod := items;
               prod_at := match items with [] => closeafter | (dl, _) :: _ => dl end; close_after := closeafter;
               prod_done := false; obuf := []; ocap := S (Z.to_nat icp); cons_at := 0; cons_n := 0;
               cons_script := cs; holding := None; cons_done := false; first_own := None; next_tick := ivl;
               stop_at := -1; stop_called := false; stop_ret := -1; oracle := [];
               outlog := []; putlog := []; tclose := -1; ambiguous := false |} in
  let dsc := mk_Discipline (mk_Opts opaque_some (Z.to_N j) nc tmo 25%N) ivl [] opaque_some tt opaque_some in
  match settle 30 0 (start table (dsc, zero_G, 0%nat) F_main) with
  | Some (cf0, rq) => both c 4000 s0 (mkCsim cf0 rq (s0 <| d := abs_st cf0 rq |>))
  | None => (false, false, 0%nat)
  end.

Definition results := Eval vm_compute in map run_scenario scenarios.
Lemma conc_unite_ok : forallb (fun r => fst (fst r)) results = true.   Proof. vm_compute. reflexivity. Qed.
Definition n_conc_unite := Eval vm_compute in
  (length results, length (filter (fun r => snd (fst r)) results), fold_left Nat.add (map snd results) 0%nat).
Print n_conc_unite.   (* (scenarios, of which finished, slices delivered in total) *)
