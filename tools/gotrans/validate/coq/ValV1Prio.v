(* gotrans validation: generated sequential methods of the v1 Discipline (priority) against the results of the Go
   methods on hand-built Discipline values (CasesV1Prio.v) *)
From Coq Require Import List NArith ZArith Bool.
From Cqos Require Import Base GoSem ValCommon CasesV1Prio.
From Cqos Require GenV1Divider.
From Cqos Require Import GenV1Prio.
Import ListNotations.
Open Scope N_scope.

(* the five dividers of gotrans_val_prio_test.go *)
Definition gfair : divider_fn := fun _ ps d m => let '(_, _, r) := GenV1Divider.gen_FairDivider 0%nat ps d m in r.
Definition grate : divider_fn := fun _ ps d m => let '(_, _, r) := GenV1Divider.gen_RateDivider 0%nat ps d m in r.
Definition alloc (m : gmap N) : gmap N := match m with None => mmake | Some _ => m end.
Definition gdiv (kind : N) : divfn :=
  Some (fun w ps d m =>
    match kind with
    | 0 => gfair w ps d m
    | 1 => grate w ps d m
    | 2 => match ps with [] => alloc m | p0 :: _ => mset (alloc m) p0 (u_add (mget 0 (alloc m) p0) (u_add d 1)) end
    | 3 => if Nat.even w then gfair w ps d m else grate w ps d m
    | _ => match ps with [] => alloc m | p0 :: _ => mset (mset (alloc m) p0 (2 ^ 63)) (u_add p0 1000) (2 ^ 63) end
    end).

Definition input := (N * N * N * N * list N * M * M * M * I)%type.
Definition output := (nat * bool * N * M * option M * M * list N * list N * list N * I)%type.

Definition code (e : option err_V1Prio) : N :=
  match e with None => 0 | Some ErrDividerBad => 1 | Some ErrValueOverflow => 2 | Some ErrQuantityExceeded => 3 | Some _ => 99 end.
Definition ns_eqb := list_eqb N.eqb.
Definition mk_inputs (i : I) : gmap Input :=
  Some (map (fun kv : N * (bool * bool) => (fst kv, mk_Input (if fst (snd kv) then opaque_some else None) (snd (snd kv)))) i).
Definition inputs_eqb (m : gmap Input) (i : I) : bool :=
  match m with
  | None => false
  | Some l => list_eqb (fun (a : N * Input) (b : N * (bool * bool)) => (fst a =? fst b) && Bool.eqb (negb (is_nil (Input_Channel (snd a)))) (fst (snd b))
                                   && Bool.eqb (Input_Drained (snd a)) (snd (snd b))) (sort_keys l) i
  end.

Definition check_gen (c : input * output) : bool :=
  let '((kind, op, arg, h, ps, strategic, actual, tactic, inputs),
        (calls, proceed, ecode, tactic', strategic', actual', ps', uncrowded', useful', inputs')) := c in
  let dsc :=
    set_Discipline_opts (set_Opts_Divider (gdiv kind) (set_Opts_HandlersQuantity h zero_Opts))
    (set_Discipline_inputs (mk_inputs inputs) (set_Discipline_priorities ps
    (set_Discipline_actual (Some actual) (set_Discipline_strategic (Some strategic)
    (set_Discipline_tactic (Some tactic) zero_Discipline))))) in
  let '(w', dsc', (proceed', e')) :=
    match op with
    | 0 => gen_calcTactic 0%nat dsc
    | 1 => gen_recalcTactic 0%nat dsc
    | 2 => let '(w', d', _) := gen_removeInput 0%nat dsc arg in (w', d', (false, None))
    | 3 => let '(w', d', _) := gen_addInput 0%nat dsc opaque_some arg in (w', d', (false, None))
    | _ => let '(w', d', _) := gen_clearActual 0%nat dsc in (w', d', (false, None))
    end in
  Nat.eqb w' calls && Bool.eqb proceed' proceed && (code e' =? ecode) &&
  map_eqb (Discipline_tactic dsc') (Some tactic') && map_eqb (Discipline_strategic dsc') strategic' &&
  map_eqb (Discipline_actual dsc') (Some actual') &&
  ns_eqb (Discipline_priorities dsc') ps' &&
  ns_eqb (Discipline_uncrowded dsc') uncrowded' && ns_eqb (Discipline_useful dsc') useful' &&
  inputs_eqb (Discipline_inputs dsc') inputs'.

Lemma prio_gen_ok : forallb check_gen prio_cases = true.       Proof. vm_compute. reflexivity. Qed.
Definition n_prio := Eval vm_compute in
  (length prio_cases,
   map (fun k => count_true (map (fun c : input * output => let '((_, op, _, _, _, _, _, _, _), _) := c in op =? k) prio_cases)) [0; 1; 2; 3; 4],
   count_true (map (fun c : input * output => let '(_, (_, _, e, _, _, _, _, _, _, _)) := c in negb (e =? 0)) prio_cases)).
Print n_prio.   (* (cases, [calcTactic; recalcTactic; removeInput; addInput; clearActual], cases with an error) *)
