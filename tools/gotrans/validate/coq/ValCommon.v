(* helpers of the differential validation of gotrans *)
From Coq Require Import List NArith ZArith Bool.
From Cqos Require Import GoSem.
Import ListNotations.
Open Scope N_scope.

Fixpoint ins_key {T} (kv : N * T) (l : list (N * T)) : list (N * T) :=
  match l with
  | [] => [kv]
  | kv' :: r => if fst kv <=? fst kv' then kv :: l else kv' :: ins_key kv r
  end.
Fixpoint sort_keys {T} (l : list (N * T)) : list (N * T) :=
  match l with [] => [] | kv :: r => ins_key kv (sort_keys r) end.
Fixpoint list_eqb {A B} (eqb : A -> B -> bool) (a : list A) (b : list B) : bool :=
  match a, b with
  | [], [] => true
  | x :: a', y :: b' => eqb x y && list_eqb eqb a' b'
  | _, _ => false
  end.
Definition pair_eqb (a b : N * N) : bool := (fst a =? fst b) && (snd a =? snd b).
(* a map of the model against Go's map printed sorted by key *)
Definition map_eqb (m : gmap N) (e : option (list (N * N))) : bool :=
  match m, e with
  | None, None => true
  | Some l, Some l' => list_eqb pair_eqb (sort_keys l) l'
  | _, _ => false
  end.
Definition count_true (l : list bool) : nat := length (filter (fun b => b) l).
