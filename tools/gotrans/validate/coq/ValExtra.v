(* gotrans validation: the synthetic package (rarely used constructs of the supported fragment) *)
From Coq Require Import List NArith ZArith Bool.
From Cqos Require Import GoSem ValCommon GenExtra CasesExtra.
Import ListNotations.
Open Scope N_scope.

Definition zs := list_eqb Z.eqb.
Definition ns := list_eqb N.eqb.
Definition isSome {A} (o : option A) := negb (is_nil o).
Definition fuel := 500%nat.

Lemma ok_IndexSum : forallb (fun c => let '(l, r) := c in Z.eqb (snd (gen_IndexSum 0%nat l)) r) c_IndexSum = true.
Proof. vm_compute. reflexivity. Qed.
Lemma ok_CountTo : forallb (fun c => let '(k, r) := c in snd (gen_CountTo 0%nat k) =? r) c_CountTo = true.
Proof. vm_compute. reflexivity. Qed.
Lemma ok_Lookup : forallb (fun c => let '(m, k, r, ok) := c in
  let '(_, m', (r', ok')) := gen_Lookup 0%nat m k in map_eqb m' m && (r' =? r) && Bool.eqb ok' ok) c_Lookup = true.
Proof. vm_compute. reflexivity. Qed.
Lemma ok_Swap : forallb (fun c => let '(x, y, p, q) := c in
  let '(_, (p', q')) := gen_Swap 0%nat x y in Z.eqb p' p && Z.eqb q' q) c_Swap = true.
Proof. vm_compute. reflexivity. Qed.
Lemma ok_Literal : forallb (fun c => let '(k, m) := c in map_eqb (snd (gen_Literal 0%nat k)) m) c_Literal = true.
Proof. vm_compute. reflexivity. Qed.
Lemma ok_MinMax : forallb (fun c => let '(x, y, a, b, p, q) := c in
  let '(_, (p', q')) := gen_MinMax 0%nat x y a b in (p' =? p) && Z.eqb q' q) c_MinMax = true.
Proof. vm_compute. reflexivity. Qed.
Lemma ok_Search : forallb (fun c => let '(l, x, r) := c in
  match gen_Search fuel 0%nat l x with Some (_, r') => Z.eqb r' r | None => false end) c_Search = true.
Proof. vm_compute. reflexivity. Qed.
Lemma ok_Check : forallb (fun c => let '(x, y, e) := c in Bool.eqb (isSome (snd (gen_Check 0%nat x y))) e) c_Check = true.
Proof. vm_compute. reflexivity. Qed.
Lemma ok_UsePair : forallb (fun c => let '(k, a, b, m, e) := c in
  let '(_, (p, e')) := gen_UsePair 0%nat k in
  (Pair_A p =? a) && Z.eqb (Pair_B p) b && map_eqb (Pair_M p) m && Bool.eqb (isSome e') e) c_UsePair = true.
Proof. vm_compute. reflexivity. Qed.
Lemma ok_Tail : forallb (fun c => let '(l, k, r) := c in ns (snd (gen_Tail 0%nat l k)) r) c_Tail = true.
Proof. vm_compute. reflexivity. Qed.
Lemma ok_Collatz : forallb (fun c => let '(k, r) := c in
  match gen_Collatz fuel 0%nat k with Some (_, r') => r' =? r | None => false end) c_Collatz = true.
Proof. vm_compute. reflexivity. Qed.
Lemma ok_Nested : forallb (fun c => let '(rows, r) := c in snd (gen_Nested 0%nat rows) =? r) c_Nested = true.
Proof. vm_compute. reflexivity. Qed.
Lemma ok_Neg : forallb (fun c => let '(x, y, r) := c in Z.eqb (snd (gen_Neg 0%nat x y)) r) c_Neg = true.
Proof. vm_compute. reflexivity. Qed.
Definition n_extra := Eval vm_compute in
  (length c_IndexSum + length c_CountTo + length c_Lookup + length c_Swap + length c_Literal + length c_MinMax + length c_Search +
   length c_Check + length c_UsePair + length c_Tail + length c_Collatz + length c_Nested + length c_Neg)%nat.
Print n_extra.
