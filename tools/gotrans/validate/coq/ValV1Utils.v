(* gotrans validation: generated helpers of priority/utils.go (v1) against the results of the Go functions (CasesV1Utils.v)
   and against the hand-written model Utils.v *)
From Coq Require Import List NArith ZArith Bool.
From Cqos Require Import Base Float64 Divider Sched Utils GoSem ValCommon CasesV1Utils.
From Cqos Require GenV1Divider.
From Cqos Require Import GenV1Utils.
Import ListNotations.
Open Scope N_scope.

Definition gdiv (kind : N) : divfn :=
  Some (fun _ ps d m =>
    if kind =? 0 then let '(_, _, r) := GenV1Divider.gen_FairDivider 0%nat ps d m in r
    else let '(_, _, r) := GenV1Divider.gen_RateDivider 0%nat ps d m in r).
Definition mdiv (kind : N) : Divider := if kind =? 0 then fair else rate part_f.

Definition b2n (b : bool) : N := if b then 1 else 0.
Definition opt (x : option (nat * N)) : N := match x with Some (_, r) => r | None => 12345 end.  (* out of fuel *)

Definition check_gen (c : N * N * list N * N * N * N) : bool :=
  let '(fn, kind, ps, q, limit, res) := c in
  let lim := of_Z (Z.of_N limit) in
  let got :=
    match fn with
    | 0 => b2n (snd (gen_IsNonFatalConfig 0%nat ps (gdiv kind) q))
    | 1 => opt (gen_PickUpMinNonFatalQuantity 100%nat 0%nat ps (gdiv kind) q)
    | 2 => opt (gen_PickUpMaxNonFatalQuantity 100%nat 0%nat ps (gdiv kind) q)
    | 3 => b2n (snd (gen_IsSuitableConfig 0%nat ps (gdiv kind) q lim))
    | 4 => opt (gen_PickUpMinSuitableQuantity 100%nat 0%nat ps (gdiv kind) q lim)
    | _ => opt (gen_PickUpMaxSuitableQuantity 100%nat 0%nat ps (gdiv kind) q lim)
    end in
  got =? res.

Definition check_model (c : N * N * list N * N * N * N) : bool :=
  let '(fn, kind, ps, q, limit, res) := c in
  let lim := of_Z (Z.of_N limit) in
  let got :=
    match fn with
    | 0 => b2n (is_nonfatal ps (mdiv kind) q)
    | 1 => pick_min_nonfatal ps (mdiv kind) q
    | 2 => pick_max_nonfatal ps (mdiv kind) q
    | 3 => b2n (is_suitable ps (mdiv kind) q lim)
    | 4 => pick_min_suitable ps (mdiv kind) q lim
    | _ => pick_max_suitable ps (mdiv kind) q lim
    end in
  got =? res.

Lemma utils_gen_ok : forallb check_gen utils_cases = true.       Proof. vm_compute. reflexivity. Qed.
Lemma utils_model_ok : forallb check_model utils_cases = true.   Proof. vm_compute. reflexivity. Qed.
Definition n_utils := Eval vm_compute in length utils_cases.
Print n_utils.
