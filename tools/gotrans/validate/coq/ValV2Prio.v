(* gotrans validation: generated calcTactic / recalcTactic (v2/priority) against the results of the Go methods on
   hand-built Discipline values (CasesV2Prio.v) and against the hand-written model Prio2.step_calc / step_recalc *)
From Coq Require Import List NArith ZArith Bool.
From Cqos Require Import Base Float64 Divider Sched Prio2 GoSem ValCommon CasesV2Prio.
From Cqos Require GenV2Divider.
From Cqos Require Import GenV2Prio.
Import ListNotations.
Open Scope N_scope.

(* ---- the five dividers of gotrans_val_test.go, for the generated code (function values of GoSem) ... *)
Definition gfair : divider_fn := fun _ ps d m => let '(_, m', _) := GenV2Divider.gen_Fair 0%nat ps d m in m'.
Definition grate : divider_fn := fun _ ps d m => let '(_, m', _) := GenV2Divider.gen_Rate 0%nat ps d m in m'.
Definition gdiv (kind : N) : divfn :=
  Some (fun w ps d m =>
    match kind with
    | 0 => gfair w ps d m
    | 1 => grate w ps d m
    | 2 => match ps with [] => m | p0 :: _ => mset m p0 (u_add (mget 0 m p0) (u_add d 1)) end
    | 3 => if Nat.even w then gfair w ps d m else grate w ps d m
    | _ => match ps with [] => m | p0 :: _ => mset (mset m p0 (2 ^ 63)) (u_add p0 1000) (2 ^ 63) end
    end).
(* ... and for the hand-written model *)
Definition mdiv (kind : N) (w : nat) : Divider :=
  match kind with
  | 0 => fair
  | 1 => rate part_f
  | 2 => fun ps d m => match ps with [] => m | p0 :: _ => add m p0 (d + 1) end
  | 3 => if Nat.even w then fair else rate part_f
  | _ => fun ps d m => match ps with [] => m | p0 :: _ => set (set m p0 (2 ^ 63)) (p0 + 1000) (2 ^ 63) end
  end.

Definition input := (N * N * N * list N * M * M * M)%type.
Definition output := (nat * bool * N * M * list N * list N)%type.

Definition code (e : option err_V2Prio) : N :=
  match e with None => 0 | Some ErrDividerBad => 1 | Some ErrValueOverflow => 2 | Some _ => 99 end.

Definition ns_eqb := list_eqb N.eqb.

Definition check_gen (c : input * output * bool) : bool :=
  let '((kind, op, h, ps, strategic, actual, tactic), (calls, proceed, ecode, tactic', uncrowded', useful'), _) := c in
  let dsc := mk_Discipline (mk_Opts (gdiv kind) h None) None None None ps (Some actual) (Some strategic) (Some tactic) [] [] 0 None None in
  let '(w', dsc', (proceed', e')) := if op =? 0 then gen_calcTactic 0%nat dsc else gen_recalcTactic 0%nat dsc in
  Nat.eqb w' calls && Bool.eqb proceed' proceed && (code e' =? ecode) &&
  map_eqb (Discipline_tactic dsc') (Some tactic') &&
  ns_eqb (Discipline_uncrowded dsc') uncrowded' && ns_eqb (Discipline_useful dsc') useful' &&
  map_eqb (Discipline_actual dsc') (Some actual) && map_eqb (Discipline_strategic dsc') (Some strategic) &&
  ns_eqb (Discipline_priorities dsc') ps.

(* the model keeps no `uncrowded` / `useful` fields and resets the tactic on an error: compare the outcome (next
   program counter), the number of divider calls and, without an error, the tactic *)
Definition nonzero (d : dist) : dist := filter (fun kv => negb (snd kv =? 0)) d.
Definition check_model (c : input * output * bool) : bool :=
  let '((kind, op, h, ps, strategic, actual, tactic), (calls, proceed, ecode, tactic', uncrowded', useful'), model) := c in
  if negb model then true else
  let s := mkSt h ps strategic actual tactic (fun _ => []) (fun _ => false) (fun _ => false) (fun _ => true)
                [] 0 [] [] 0%nat (if op =? 0 then Calc else Recalc 5) 0%nat [] [] (fun _ => []) in
  let s' := if op =? 0 then step_calc (mdiv kind) s else step_recalc (mdiv kind) s 5 in
  Nat.eqb (ncalls s') calls &&
  match pcs s' with
  | Drain (Some DividerBad) => ecode =? 1
  | Drain (Some SumOverflow) => ecode =? 2
  | WaitFb => (ecode =? 0) && negb proceed && (op =? 0)
  | EndBase 5 => (ecode =? 0) && negb proceed && (op =? 1)
  | Prio P1 l 0 => (ecode =? 0) && proceed && (op =? 0) && ns_eqb l ps
  | Prio P2 l 5 => (ecode =? 0) && proceed && (op =? 1) && ns_eqb l ps
  | _ => false
  end &&
  ((negb (ecode =? 0)) || list_eqb pair_eqb (sort_keys (nonzero (Prio2.tactic s'))) (nonzero tactic')).

Lemma prio_gen_ok : forallb check_gen prio_cases = true.       Proof. vm_compute. reflexivity. Qed.
Lemma prio_model_ok : forallb check_model prio_cases = true.   Proof. vm_compute. reflexivity. Qed.
Definition n_prio := Eval vm_compute in
  (length prio_cases, count_true (map (fun c => snd c) prio_cases),
   count_true (map (fun c => let '((_, op, _, _, _, _, _), _, _) := c in op =? 0) prio_cases),
   count_true (map (fun c => let '(_, (_, _, e, _, _, _), _) := c in negb (e =? 0)) prio_cases)).
Print n_prio.   (* (cases, compared with the model too, calcTactic cases, cases with an error) *)
