(* gotrans validation, part 2: the generated program of the v1 join goroutine (GenConcJoinV1.v, run by GoConc.v) against the
   hand-written model Join.jstep (variant JoinV1: Stop() and the oracle that resolves selects with several ready cases included), both driven by the deterministic environment of JoinSim.v (producer,
   consumer with hold / release, ticker grid, clock) on the same scenarios, step by step. *)
From Coq Require Import List NArith ZArith Bool.
From RecordUpdate Require Import RecordSet.
From Cqos Require Import Join JoinSim GoSem GoConc GenJoinV1 GenConcJoinV1 CasesConcJoinV1.
Import ListNotations RecordSetNotations.
Open Scope Z_scope.

Definition cfgT := config cstate payload chan_id fname.
Definition rqT := request payload chan_id.
Definition ifuel := 300%nat.

(* run to the next request that involves a channel; the clock is read without time passing; making / stopping the ticker
   and closing channels are immediate *)
Fixpoint settle (fuel : nat) (t : Z) (cf : cfgT) : option (cfgT * rqT) :=
  match fuel with
  | O => None
  | S f =>
      match run_to_request table ifuel cf with
      | Some (cf1, RqNow) => settle f t (resume cf1 (AnsTime t))
      | Some (cf1, RqClose _) | Some (cf1, RqNewTicker _) | Some (cf1, RqTickerStop) => settle f t (resume cf1 AnsOk)
      | r => r
      end
  end.

Definition vals (l : list N) : list elem := map (fun v => (Z.of_N v, 0)) l.
Fixpoint sent (alts : list (chan_id * option payload)) : option (list N) :=
  match alts with [] => None | (COutput, Some (PList l)) :: _ => Some l | _ :: r => sent r end.
Fixpoint offers (c : chan_id -> bool) (alts : list (chan_id * option payload)) : option nat :=
  match alts with [] => None | (ch, _) :: r => if c ch then Some 0%nat else option_map S (offers c r) end.
Definition is_in (c : chan_id) : bool := match c with CInput => true | _ => false end.
Definition is_tick (c : chan_id) : bool := match c with CTick => true | _ => false end.
Definition is_rel (c : chan_id) : bool := match c with CReleased => true | _ => false end.
Definition is_out (c : chan_id) : bool := match c with COutput => true | _ => false end.
Definition abs_pc (rq : rqT) : jpc :=
  match rq with
  | RqSelect alts _ =>
      match sent alts with
      | Some l => Sending (vals l) true Full Join.KLoop
      | None => match offers is_rel alts with Some _ => AwaitRel Join.KLoop | None => Loop end
      end
  | _ => Closed
  end.
(* the stopped flag of the model state is the environment's (the breaker) *)
Definition abs_st (stp : bool) (rq : rqT) : jst := {| buf := []; passAt := 0; pc := abs_pc rq; unrel := false; stopped := stp |}.
Definition alts_of (rq : rqT) : list (chan_id * option payload) := match rq with RqSelect a _ => a | _ => [] end.
Definition sel (c : chan_id -> bool) (rq : rqT) (v : option payload) : answer payload :=
  match offers c (alts_of rq) with Some i => AnsSel i v | None => AnsDefault end.

Record csim := mkCsim { cs_cf : cfgT; cs_rq : rqT; cs_sim : jsim }.

Definition cfire (x : csim) (s : jsim) (a : answer payload) : option csim :=
  match settle 30 (now s) (GoConc.resume (cs_cf x) a) with
  | Some (cf', rq) => Some (mkCsim cf' rq (s <| d := abs_st (stopped (d s)) rq |>))
  | None => None
  end.
Definition upd (f : jsim -> jsim) (x : option csim) : option csim :=
  option_map (fun y => mkCsim (cs_cf y) (cs_rq y) (f (cs_sim y))) x.
Definition ans_in (x : csim) (item : list Z) : answer payload := sel is_in (cs_rq x) (Some (PN (Z.to_N (hd 0 item)))).
Definition ans_close (x : csim) : answer payload := sel is_in (cs_rq x) None.
Definition ans_stop : answer payload := AnsSel 0 None.       (* the breaker alternative is the first one of every select *)

(* A. Stop(): the breaker is broken; it returns once the discipline is closed (the caller then drains the output) *)
Definition cstep_stop (c : jcfg) (x : csim) : option csim :=
  let s := cs_sim x in
  let t := now s in
  let keep s' := Some (mkCsim (cs_cf x) (cs_rq x) s') in
  if negb (stop_called s) && (0 <=? stop_at s) && (stop_at s <=? t) then
    keep (s <| d := {| buf := buf (d s); passAt := passAt (d s); pc := pc (d s); unrel := unrel (d s); stopped := true |} |> <| stop_called := true |>)
  else if stop_called s && (stop_ret s <? 0) && match pc (d s) with Closed => true | _ => false end then
    let drained := map (fun p => (t, -1, map fst (fst p))) (obuf s) in
    if cons_done s then keep (s <| stop_ret := t |>) else
    keep (s <| obuf := [] |> <| holding := None |> <| cons_done := true |> <| stop_ret := t |>
            <| outlog := rev drained ++ outlog s |> <| tclose := t |>
            <| ambiguous := ambiguous s || (match obuf s with [] => false | _ => true end &&
                                            ((cons_at s =? t) || match holding s with Some (u, _) => u =? t | None => false end)) |>)
  else None.

Definition cstep_consumer (c : jcfg) (x : csim) : option csim :=
  let s := cs_sim x in
  let t := now s in
  if cons_done s then None else
  match holding s with
  | Some (until, pause) =>
      if until <=? t then
        if nocopy c then
          match pc (d s) with
          | AwaitRel _ => upd (fun s1 => s1 <| holding := None |> <| cons_at := t + pause |>) (cfire x s (sel is_rel (cs_rq x) (Some (PN 0))))
          | _ => None
          end
        else Some (mkCsim (cs_cf x) (cs_rq x) (s <| holding := None |> <| cons_at := t + pause |>))
      else None
  | None => option_map (mkCsim (cs_cf x) (cs_rq x)) (step_consumer c s)
  end.

Definition cstep_disc (c : jcfg) (x : csim) : option csim :=
  let s := cs_sim x in
  let t := now s in
  let stopped_v1 := stopped (d s) in
  let '(ob, orest) := pop_oracle s in
  match pc (d s) with
  | Sending b own _ _ =>
      let room := (length (obuf s) <? ocap s)%nat in
      if stopped_v1 && (negb room || ob) then
        upd (fun s1 => s1 <| oracle := if room then orest else oracle s |>) (cfire x s ans_stop)
      else if room then
        upd (fun s1 => s1 <| obuf := obuf s ++ [(b, own)] |> <| oracle := if stopped_v1 then orest else oracle s |>)
            (cfire x s (sel is_out (cs_rq x) None))
      else None
  | AwaitRel _ => if stopped_v1 then cfire x s ans_stop else None
  | Loop =>
      let tick_due := (0 <? interval c) && (next_tick s =? t) in
      let buffered := match ibuf s with [] => false | _ => true end in
      let direct := (icap s =? 0)%nat && negb buffered && producer_offers s in
      let closed_now := iclosed s && negb buffered in
      let other := tick_due || buffered || direct || closed_now in
      if stopped_v1 && (ob || negb other) then
        upd (fun s1 => s1 <| oracle := if other then orest else oracle s |>) (cfire x s ans_stop)
      else if tick_due then
        upd (fun s1 => s1 <| next_tick := t + interval c |> <| oracle := if stopped_v1 then orest else oracle s |>
                           <| ambiguous := ambiguous s || buffered || direct || closed_now |>)
            (cfire x s (sel is_tick (cs_rq x) None))
      else
        match ibuf s with
        | item :: rest => upd (fun s1 => s1 <| ibuf := rest |> <| oracle := if stopped_v1 then orest else oracle s |>) (cfire x s (ans_in x item))
        | [] =>
            if direct then
              match prod s with
              | (_, item) :: rest =>
                  upd (fun s1 => s1 <| prod := rest |> <| prod_at := next_prod_at s rest |> <| putlog := t :: putlog s |>
                                   <| oracle := if stopped_v1 then orest else oracle s |>)
                      (cfire x s (ans_in x item))
              | [] => None
              end
            else if closed_now then upd (fun s1 => s1 <| oracle := if stopped_v1 then orest else oracle s |>) (cfire x s (ans_close x)) else None
        end
  | Closed => None
  end.

Definition csim_step (c : jcfg) (x : csim) : option csim :=
  let s := cs_sim x in
  orelse (cstep_stop c x) (fun _ => orelse (cstep_consumer c x) (fun _ => orelse (cstep_disc c x) (fun _ =>
  option_map (mkCsim (cs_cf x) (cs_rq x)) (orelse (step_producer s) (fun _ => advance c s))))).

Fixpoint zs_eqb (a b : list Z) : bool :=
  match a, b with [], [] => true | x :: a', y :: b' => (x =? y) && zs_eqb a' b' | _, _ => false end.
Fixpoint list_eqb {A} (e : A -> A -> bool) (a b : list A) : bool :=
  match a, b with [], [] => true | x :: a', y :: b' => e x y && list_eqb e a' b' | _, _ => false end.
Definition pc_eqb (p q : jpc) : bool :=
  match p, q with
  | Loop, Loop | Closed, Closed | AwaitRel _, AwaitRel _ => true
  | Sending b _ _ _, Sending b' _ _ _ => zs_eqb (map fst b) (map fst b')
  | _, _ => false
  end.
Definition same (a b : jsim) : bool :=
  (now a =? now b) && pc_eqb (pc (d a)) (pc (d b)) && list_eqb zs_eqb (ibuf a) (ibuf b) &&
  list_eqb (fun x y => zs_eqb (map fst (fst x)) (map fst (fst y))) (obuf a) (obuf b) &&
  list_eqb (fun x y => let '(t, al, v) := x in let '(t', al', v') := y in (t =? t') && (al =? al') && zs_eqb v v') (outlog a) (outlog b) &&
  zs_eqb (putlog a) (putlog b) && (tclose a =? tclose b) && Bool.eqb (cons_done a) (cons_done b) && (next_tick a =? next_tick b) &&
  (stop_ret a =? stop_ret b) && Bool.eqb (stopped (d a)) (stopped (d b)).

Fixpoint both (c : jcfg) (fuel : nat) (sm : jsim) (x : csim) : bool * bool * nat :=
  match fuel with
  | O => (same sm (cs_sim x), false, length (outlog sm))
  | S f =>
      if negb (same sm (cs_sim x)) then (false, false, 0%nat) else
      match sim_step c sm, csim_step c x with
      | Some sm', Some x' => both c f sm' x'
      | None, None => (true, true, length (outlog sm))
      | _, _ => (false, false, 0%nat)
      end
  end.

Fixpoint mk_items (next : Z) (script : list (Z * Z)) : list (Z * list Z) :=
  match script with
  | [] => []
  | (dl, len) :: r => (dl, map (fun i => next + Z.of_nat i) (seq 0 (Z.to_nat len))) :: mk_items (next + len) r
  end.

(* a scenario: (JoinSize, nocopy, timeout, interval, input capacity, close_after, stop_at, oracle, producer delays, consumer script) *)
Definition run_scenario (sc : Z * bool * Z * Z * Z * Z * Z * list bool * list Z * list (Z * Z)) : bool * bool * nat :=
  let '(j, nc, tmo, ivl, icp, closeafter, stopat, orc, ds, cs) := sc in
  let c := {| variant_of := JoinV1; jsize := Z.to_nat j; timeout := tmo; interval := ivl; nocopy := nc |} in
  let items := mk_items 1 (map (fun dl => (dl, 1)) ds) in
  let s0 := {| now := 0; d := jinit 0; ibuf := []; icap := Z.to_nat icp; iclosed := false; prod := items;
               prod_at := match items with [] => closeafter | (dl, _) :: _ => dl end; close_after := closeafter;
               prod_done := false; obuf := []; ocap := 1%nat; cons_at := 0; cons_n := 0;
               cons_script := cs; holding := None; cons_done := false; first_own := None; next_tick := ivl;
               stop_at := stopat; stop_called := false; stop_ret := -1; oracle := orc;
               outlog := []; putlog := []; tclose := -1; ambiguous := false |} in
  let dsc := mk_Discipline (mk_Opts opaque_some opaque_some (Z.to_N j) (if nc then opaque_some else None) tmo 25%N) opaque_some ivl [] opaque_some tt false in
  match settle 30 0 (start table (dsc, zero_G, 0%nat) F_main) with
  | Some (cf0, rq) => both c 4000 s0 (mkCsim cf0 rq (s0 <| d := abs_st false rq |>))
  | None => (false, false, 0%nat)
  end.

Definition results := Eval vm_compute in map run_scenario scenarios.
Lemma conc_joinv1_ok : forallb (fun r => fst (fst r)) results = true.   Proof. vm_compute. reflexivity. Qed.
Definition n_conc_joinv1 := Eval vm_compute in
  (length results, length (filter (fun r => snd (fst r)) results), fold_left Nat.add (map snd results) 0%nat).
Print n_conc_joinv1.   (* (scenarios, of which finished, slices delivered in total) *)
