#!/usr/bin/env python3
"""Random scenarios (fixed seed) for validate/coq/ValConcV1Prio.v: (initial inputs (priority, channel), H, output capacity,
unbuffered priorities, rate?, script (code, a, b, settle)); codes as in Prio1Sim.apply_op: 1 put ch, 2 close ch, 3 take,
4 release k, 5/7 divider fault, 8 AddInput ch prio, 9 RemoveInput prio, 10 GracefulStop, 11 Stop, 12 cancel.
Channel ids >= 1000 are unbuffered; all channels of one priority have the same buffering."""
import random
import sys

rng = random.Random(20261006)
rows = []
for i in range(50):
    n = rng.randint(1, 3)
    ps = rng.sample(range(1, 7), n)
    unbuf = [p for p in range(1, 9) if rng.random() < 0.25]
    nextch = {True: 1000, False: 1}
    chans = {}
    def newchan(p):
        u = p in unbuf
        ch = nextch[u]
        nextch[u] += 1
        chans.setdefault(p, []).append(ch)
        return ch
    cfg = [(p, newchan(p)) for p in ps]
    h = rng.randint(n, n + 6)
    ocap = rng.randint(1, 4)
    rate = i % 7 == 6
    if rate:
        h = max(h, sum(ps))
    ops = []
    live = list(ps)
    allch = lambda: [c for p in chans for c in chans[p]]
    for _ in range(rng.randint(15, 40)):
        r = rng.random()
        settle = rng.random() < 0.5
        if r < 0.35:
            ops.append((1, rng.choice(allch()), 0, settle))
        elif r < 0.60:
            ops.append((3, 0, 0, settle))
        elif r < 0.80:
            ops.append((4, rng.randint(0, 5), 0, settle))
        elif r < 0.85:
            ops.append((2, rng.choice(allch()), 0, settle))
        elif r < 0.91:
            p = rng.randint(1, 8)
            ops.append((8, newchan(p), p, True))
        elif r < 0.95:
            ops.append((9, rng.randint(1, 8), 0, True))
        elif r < 0.97 and i % 5 == 3:
            ops.append((5, rng.choice([1, -1]), 0, False))
        else:
            ops.append((3, 0, 0, settle))
    end = i % 4
    if end == 0:      # graceful: close everything, take and release everything
        ops.append((10, 0, 0, True))
        for c in allch():
            ops.append((2, c, 0, True))
        for _ in range(30):
            ops.append((3, 0, 0, True)); ops.append((4, 0, 0, True))
    elif end == 1:    # Stop
        ops.append((11, 0, 0, True))
        for _ in range(12):
            ops.append((3, 0, 0, True)); ops.append((4, 0, 0, True))
    elif end == 2:    # cancel
        ops.append((12, 0, 0, True))
        for _ in range(12):
            ops.append((4, 0, 0, True))
    z = lambda x: "(%d)" % x if x < 0 else str(x)
    opl = "; ".join("(%s, %s, %s, %s)" % (z(c), z(a), z(b), "true" if s else "false") for c, a, b, s in ops)
    rows.append("  ([%s], %d, %d, [%s], %s, [%s]%%Z)" % ("; ".join("(%d, %d%%nat)" % (p, c) for p, c in cfg), h, ocap,
                "; ".join(map(str, unbuf)), "true" if rate else "false", opl))
out = ["(* written by validate/gen_conc_v1prio_cases.py: random scenarios for ValConcV1Prio.v *)",
       "From Coq Require Import List NArith ZArith.", "Import ListNotations.", "Open Scope N_scope.",
       "Definition scenarios : list (list (N * nat) * N * N * list N * bool * list (Z * Z * Z * bool)) := [", ";\n".join(rows), "]."]
open(sys.argv[1], "w").write("\n".join(out) + "\n")
