#!/usr/bin/env python3
"""Random scenarios (fixed seed) for validate/coq/ValConcJoinV1.v: (JoinSize, nocopy, timeout, interval, input capacity,
close_after, stop_at (-1: no Stop()), oracle bits, producer delays, consumer script (hold, pause)).  interval = timeout / (100 / 25) as calcInterruptInterval
gives for the default inaccuracy; timeout 0 means no timeout (loopUntimeouted)."""
import random
import sys

rng = random.Random(20261007)
rows = []
for i in range(50):
    j = rng.randint(1, 5)
    nocopy = rng.random() < 0.4
    tmo = rng.choice([0, 0, 4, 8, 20, 40, 100])
    ivl = tmo // 4
    icap = rng.randint(0, 3)
    close_after = rng.randint(0, 30)
    stop_at = rng.choice([-1, -1, 0, 3, 10, 25, 60])
    orc = [rng.random() < 0.5 for _ in range(8)]
    n = rng.randint(0, 25)
    ds = [rng.choice([0, 0, 1, 2, 3, 7, 15, 50]) for _ in range(n)]
    cs = [(rng.choice([0, 0, 1, 5, 20]), rng.choice([0, 0, 2, 9, 33])) for _ in range(rng.randint(0, 12))]
    rows.append("  (%d, %s, %d, %d, %d, %d, %d, [%s], [%s], [%s])" % (j, "true" if nocopy else "false", tmo, ivl, icap, close_after, stop_at,
                "; ".join("true" if b else "false" for b in orc),
                "; ".join(map(str, ds)), "; ".join("(%d, %d)" % c for c in cs)))
out = ["(* written by validate/gen_conc_joinv1_cases.py: random scenarios for ValConcJoinV1.v *)",
       "From Coq Require Import List ZArith Bool.", "Import ListNotations.", "Open Scope Z_scope.",
       "Definition scenarios : list (Z * bool * Z * Z * Z * Z * Z * list bool * list Z * list (Z * Z)) := [", ";\n".join(rows), "]."]
open(sys.argv[1], "w").write("\n".join(out) + "\n")
