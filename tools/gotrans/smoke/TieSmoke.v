(* Smoke test of the proof-friendliness of the gotrans output: tie lemmas between generated functions
   (GenV2Divider.v) and the hand-written model (Divider.v).  Recipe: `unfold gen_f; cbn` exposes the loop,
   a lemma about `range_loop gen_f_loop<i>` proved by induction over the list (state = explicit record
   constructor) rewrites it, `cbn` finishes. *)
From Coq Require Import List NArith ZArith Bool Lia.
From Cqos Require Import Base Divider GoSem GenV2Divider.
Import ListNotations.
Open Scope N_scope.

(* ---- SumPriorities = sum_list, when the sum does not overflow.
   The range variable stays in the state: its final value is irrelevant, so it is quantified existentially. *)
Lemma SumPriorities_loop ps : forall ps0 s p0 w,
  s + sum_list ps < u_modulus ->
  exists p', range_loop gen_SumPriorities_loop1 ps (mk_SumPriorities_vars ps0 s p0 w) =
             Next (mk_SumPriorities_vars ps0 (s + sum_list ps) p' w).
Proof.
  induction ps as [|p r IH]; intros ps0 s p0 w H; cbn in *.
  - exists p0. now rewrite N.add_0_r.
  - rewrite u_add_small by lia. destruct (IH ps0 (s + p) p w) as [p' ->]; [lia|].
    exists p'. do 2 f_equal. lia.
Qed.

Lemma tie_SumPriorities w ps : sum_list ps < u_modulus -> gen_SumPriorities w ps = (w, sum_list ps).
Proof.
  intros H. unfold gen_SumPriorities. cbn.
  now destruct (SumPriorities_loop ps ps 0 0 w) as [p' ->].
Qed.

(* ---- IsDistributionFilledFor = is_filled_for (no hypothesis) *)
(* the loop variable of the failing iteration is irrelevant for the function's value: state the loop lemma on the
   observable part *)
Definition filled_for_obs (c : ctl IsDistributionFilledFor_vars bool) : option (nat * gmap N * option bool) :=
  match c with
  | Next v => Some (IsDistributionFilledFor_w v, IsDistributionFilledFor_distribution v, None)
  | Ret v r => Some (IsDistributionFilledFor_w v, IsDistributionFilledFor_distribution v, Some r)
  | _ => None
  end.
Lemma IsDistributionFilledFor_loop ps : forall ps0 m p0 w,
  filled_for_obs (range_loop gen_IsDistributionFilledFor_loop1 ps (mk_IsDistributionFilledFor_vars ps0 (Some m) p0 w)) =
  Some (w, Some m, if is_filled_for ps m then None else Some false).
Proof.
  induction ps as [|p r IH]; intros ps0 m p0 w; cbn; [reflexivity|].
  rewrite aget_get. destruct (get m p =? 0); cbn; [reflexivity|]. apply IH.
Qed.

Lemma tie_IsDistributionFilledFor w ps m :
  gen_IsDistributionFilledFor w ps (Some m) = (w, Some m, is_filled_for ps m).
Proof.
  unfold gen_IsDistributionFilledFor. cbn.
  pose proof (IsDistributionFilledFor_loop ps ps m 0 w) as H.
  destruct (range_loop _ _ _) as [v|v r|v|v|v]; cbn in *; try discriminate;
    destruct (is_filled_for ps m); now inversion H.
Qed.

(* the nil map: every read is 0 *)
Lemma tie_IsDistributionFilledFor_nil w ps :
  gen_IsDistributionFilledFor w ps None = (w, None, match ps with [] => true | _ => false end).
Proof. unfold gen_IsDistributionFilledFor. destruct ps; reflexivity. Qed.

(* ---- Fair = Divider.fair, when no entry can overflow: every entry plus the dividend stays below 2^64 *)
Lemma Fair_loop ps : forall ps0 dd m dv base rem p0 w,
  (forall k, get m k + base * len ps + rem < u_modulus) ->
  exists p', range_loop gen_Fair_loop1 ps (mk_Fair_vars ps0 dd (Some m) dv base rem p0 w) =
             Next (mk_Fair_vars ps0 dd (Some (fair_loop ps base rem m)) dv base (rem - len ps) p' w).
Proof.
  induction ps as [|p r IH]; intros ps0 dd m dv base rem p0 w H.
  - exists p0. cbn. now rewrite N.sub_0_r.
  - rewrite len_cons in *.
    cbn. rewrite !aget_get, !aset_set.
    rewrite u_add_small by (specialize (H p); nia).
    destruct (N.eqb_spec rem 0) as [->|Hrem]; cbn; unfold add.
    + destruct (IH ps0 dd (set m p (get m p + base)) dv base 0 p w) as [p' E].
      * intros k. destruct (N.eq_dec p k) as [->|Hne].
        -- rewrite get_set_same. specialize (H k). nia.
        -- rewrite get_set_other by auto. specialize (H k). nia.
      * exists p'. exact E.
    + rewrite !aget_get, !aset_set.
      rewrite u_add_small by (rewrite get_set_same; specialize (H p); nia).
      rewrite u_sub_small by (specialize (H p); nia).
      destruct (IH ps0 dd (set (set m p (get m p + base)) p (get (set m p (get m p + base)) p + 1)) dv base (rem - 1) p w)
        as [p' E].
      * intros k. destruct (N.eq_dec p k) as [->|Hne].
        -- rewrite !get_set_same. specialize (H k). nia.
        -- rewrite !get_set_other by auto. specialize (H k). nia.
      * exists p'. replace (rem - (len r + 1)) with (rem - 1 - len r) by lia. exact E.
Qed.

Lemma tie_Fair w ps dd m :
  (forall k, get m k + dd < u_modulus) ->
  gen_Fair w ps dd (Some m) = (w, Some (fair ps dd m), tt).
Proof.
  intros H. unfold gen_Fair, fair. destruct ps as [|p r]; [reflexivity|].
  set (ps := p :: r) in *.
  assert (Hn : len ps <> 0) by (unfold ps; rewrite len_cons; lia).
  assert (Hdd : dd < u_modulus) by (specialize (H 0); lia).
  pose proof (N.mul_div_le dd (len ps) Hn) as Hle.
  cbn -[ps]. unfold ps at 1. rewrite len_cons_neq0. cbn -[ps].
  rewrite u_mul_small by (rewrite N.mul_comm; lia).
  rewrite u_sub_small by (rewrite 1?N.mul_comm; lia).
  fold (len ps).
  edestruct Fair_loop as [p' ->]; [|reflexivity].
  intros k. specialize (H k). rewrite (N.mul_comm (dd / len ps)) in *. lia.
Qed.

(* ---- Rate = Divider.rate part_f (the float64 expression is literally Float64.part_f): a function that calls another
   generated function (SumPriorities: rewritten with its tie lemma) and returns from inside the loop *)
Definition rate_obs (c : ctl Rate_vars unit) : option (nat * list N * gmap N * option N) :=
  match c with
  | Next v => Some (Rate_w v, Rate_priorities v, Rate_distribution v, Some (Rate_remainder v))
  | Ret v _ => Some (Rate_w v, Rate_priorities v, Rate_distribution v, None)
  | _ => None
  end.

Lemma Rate_loop ps : forall ps0 dd m S rem p0 pt0 w,
  (forall k, get m k + rem < u_modulus) ->
  rate_obs (range_loop gen_Rate_loop1 ps
              (mk_Rate_vars ps0 dd (Some m) S (Float64.fdiv (f_of_u dd) (f_of_u S)) rem p0 pt0 w)) =
  Some (w, ps0, Some (fst (rate_loop Float64.part_f dd S ps rem m)), snd (rate_loop Float64.part_f dd S ps rem m)).
Proof.
  induction ps as [|p r IH]; intros ps0 dd m S rem p0 pt0 w H; [reflexivity|].
  cbn. rewrite <- part_f_eq. rewrite !aget_get, !aset_set.
  destruct (N.ltb_spec rem (Float64.part_f dd S p)) as [Hlt|Hge]; cbn.
  - rewrite u_add_small by apply H. reflexivity.
  - rewrite !aget_get, !aset_set.
    rewrite u_add_small by (specialize (H p); lia).
    rewrite u_sub_small by (specialize (H p); lia).
    unfold add. apply IH.
    intros k. destruct (N.eq_dec p k) as [->|Hne].
    + rewrite get_set_same. specialize (H k). lia.
    + rewrite get_set_other by auto. specialize (H k). lia.
Qed.

Lemma rate_loop_bound part d0 S ps : forall rem m m' rem',
  (forall k, get m k + rem < u_modulus) ->
  rate_loop part d0 S ps rem m = (m', Some rem') ->
  forall k, get m' k + rem' < u_modulus.
Proof.
  induction ps as [|p r IH]; intros rem m m' rem' H E; cbn in E.
  - now injection E as <- <-.
  - destruct (N.ltb_spec rem (part d0 S p)); [discriminate|].
    eapply IH; [|exact E]. intros k. unfold add. destruct (N.eq_dec p k) as [->|Hne].
    + rewrite get_set_same. specialize (H k). lia.
    + rewrite get_set_other by auto. specialize (H k). lia.
Qed.

Lemma tie_Rate w ps dd m :
  sum_list ps < u_modulus ->
  (forall k, get m k + dd < u_modulus) ->
  gen_Rate w ps dd (Some m) = (w, Some (rate Float64.part_f ps dd m), tt).
Proof.
  intros HS H. unfold gen_Rate, rate. destruct ps as [|p0 r]; [reflexivity|].
  set (ps := p0 :: r) in *.
  cbn -[ps]. unfold ps at 1. rewrite len_cons_neq0. cbn -[ps].
  rewrite tie_SumPriorities by assumption. cbn -[ps].
  pose proof (Rate_loop ps ps dd m (sum_list ps) dd 0 0 w H) as L.
  destruct (rate_loop Float64.part_f dd (sum_list ps) ps dd m) as [m' [rem'|]] eqn:E;
    destruct (range_loop gen_Rate_loop1 ps _) as [v|v u|v|v|v]; cbn in L; try discriminate.
  - injection L as Hw Hps Hm Hr. cbn -[ps]. rewrite Hw, Hm, Hps, Hr. cbn. rewrite aget_get, aset_set.
    (* the final `distribution[priorities[0]] += remainder` is bounded like every other addition *)
    rewrite u_add_small by (eapply rate_loop_bound; [exact H|exact E]).
    reflexivity.
  - injection L as Hw Hps Hm. cbn -[ps]. destruct u. now rewrite Hw, Hm.
Qed.
