#!/bin/bash
# Differential validation of gotrans (SPEC.md section 4, items 1-3), from scratch.
#
#   validate.sh [repo] [workdir]
#
#   repo     a clean checkout of the cqos sources (default /root/gt/repo); it is only read
#   workdir  scratch directory, wiped and recreated (default /root/gt/val)
#
# Steps: build gotrans; translate a scratch copy of the repo; compile all generated files; let Go tests (added to the
# scratch copy of the repo only) run the real functions on random inputs and print the inputs and results as Coq
# files; evaluate the generated functions and the hand-written models on the same inputs with vm_compute.
set -euo pipefail
export GOFLAGS=-mod=mod GOPROXY=off GOSUMDB=off GOTOOLCHAIN=local

HERE=$(cd "$(dirname "$0")" && pwd)
REPO=${1:-/root/gt/repo}
WORK=${2:-/root/gt/val}
COQSRC=${COQSRC:-$HERE/../../coq}

rm -rf "$WORK"
mkdir -p "$WORK/out"
rsync -a --exclude .git "$REPO/" "$WORK/repo/"
rsync -a --exclude '*.vo' --exclude '*.vok' --exclude '*.vos' --exclude '*.glob' --exclude '.*.aux' "$COQSRC/" "$WORK/coq/"

echo "== build and run the translator"
(cd "$HERE" && timeout 600 go build -o "$WORK/gotrans" .)
# the synthetic package (constructs that the cqos sources use rarely) is translated as the extra unit GenExtra.v
mkdir -p "$WORK/repo/v2/internal/synth"
cp "$HERE/validate/go/v2/internal/synth/synth.go" "$WORK/repo/v2/internal/synth/"
export GOTRANS_EXTRA=v2/internal/synth
timeout 600 "$WORK/gotrans" "$WORK/repo" "$WORK/out" > "$WORK/gotrans.log"
grep -c ' generated ' "$WORK/gotrans.log" | sed 's/^/generated functions: /'
grep -c ' skipped: ' "$WORK/gotrans.log" | sed 's/^/skipped functions:   /'
# determinism: a second run gives byte-identical output
mkdir -p "$WORK/out2"
timeout 600 "$WORK/gotrans" "$WORK/repo" "$WORK/out2" > /dev/null
diff -r "$WORK/out" "$WORK/out2" > /dev/null && echo "second run: byte-identical output"

coqc_() { (cd "$WORK/coq" && timeout 1800 coqc -Q theories Cqos -w -notation-overridden "theories/$1.v"); }

echo "== compile the models, GoSem and every generated file"
for f in Base Float64 Divider Sched RateConv Prio2 Prio2Sim Utils Limit LimitSim Join JoinSim Prio1 Prio1Sim GoSem GoConc; do coqc_ $f; done
cp "$WORK"/out/Gen*.v "$WORK/coq/theories/"
for f in "$WORK"/out/Gen[!C]*.v "$WORK"/out/GenConc*.v; do    # part 1 first: GenConc*.v import it
  n=$(basename "$f" .v)
  /usr/bin/time -f "$n.v: %es" bash -c "cd '$WORK/coq' && timeout 1800 coqc -Q theories Cqos theories/$n.v"
  if grep -E '^(Axiom|Parameter|Admitted)|Admitted\.' "$f" > /dev/null; then echo "axiom in $n.v"; exit 1; fi
done
cp "$HERE/smoke/TieSmoke.v" "$WORK/coq/theories/" && coqc_ TieSmoke && echo "TieSmoke.v: ok"

echo "== run the Go functions on random inputs (scratch copy of the repo)"
cp -r "$HERE/validate/go/." "$WORK/repo/"
gotest() { # module-dir package out-file [test name]
  (cd "$WORK/repo/$1" && GOTRANS_VAL_OUT="$WORK/coq/theories/$3.v" timeout 900 go test -count=1 -run "${4:-TestGotransVal}\$" "$2" > "$WORK/gotest.log" 2>&1) || { cat "$WORK/gotest.log"; exit 1; }
  test -s "$WORK/coq/theories/$3.v"
}
gotest v2 ./priority/divider/ CasesV2Divider
gotest v2 ./limit/ CasesRate
gotest v2 ./priority/ CasesV2Prio
gotest v2 ./priority/utils/ CasesV2Utils
gotest v2 ./internal/synth/ CasesExtra
gotest . ./priority/ CasesV1Divider TestGotransValDivider
gotest . ./priority/ CasesV1Prio TestGotransValPrio
gotest . ./priority/ CasesV1Utils TestGotransValUtils

echo "== evaluate the generated functions and the models in Coq"
cp "$HERE"/validate/coq/*.v "$WORK/coq/theories/"
coqc_ ValCommon
for v in V2Divider Rate V2Prio V1Divider V1Prio V2Utils V1Utils Extra; do
  coqc_ Cases$v
  /usr/bin/time -f "Val$v.v: %es" bash -c "cd '$WORK/coq' && timeout 3600 coqc -Q theories Cqos theories/Val$v.v"
done
echo "== part 2: the generated goroutine program against Prio2Sim on scripted environments"
python3 "$HERE/validate/gen_conc_cases.py" "$WORK/coq/theories/CasesConcV2Prio.v"
coqc_ CasesConcV2Prio
/usr/bin/time -f "ValConcV2Prio.v: %es" bash -c "cd '$WORK/coq' && timeout 3600 coqc -Q theories Cqos theories/ValConcV2Prio.v"
python3 "$HERE/validate/gen_conc_limit_cases.py" "$WORK/coq/theories/CasesConcLimit.v"
coqc_ CasesConcLimit
/usr/bin/time -f "ValConcLimit.v: %es" bash -c "cd '$WORK/coq' && timeout 3600 coqc -Q theories Cqos theories/ValConcLimit.v"
python3 "$HERE/validate/gen_conc_join_cases.py" "$WORK/coq/theories/CasesConcJoinV2.v"
coqc_ CasesConcJoinV2
/usr/bin/time -f "ValConcJoinV2.v: %es" bash -c "cd '$WORK/coq' && timeout 3600 coqc -Q theories Cqos theories/ValConcJoinV2.v"
python3 "$HERE/validate/gen_conc_unite_cases.py" "$WORK/coq/theories/CasesConcUnite.v"
coqc_ CasesConcUnite
/usr/bin/time -f "ValConcUnite.v: %es" bash -c "cd '$WORK/coq' && timeout 3600 coqc -Q theories Cqos theories/ValConcUnite.v"
python3 "$HERE/validate/gen_conc_v1prio_cases.py" "$WORK/coq/theories/CasesConcV1Prio.v"
coqc_ CasesConcV1Prio
/usr/bin/time -f "ValConcV1Prio.v: %es" bash -c "cd '$WORK/coq' && timeout 3600 coqc -Q theories Cqos theories/ValConcV1Prio.v"
python3 "$HERE/validate/gen_conc_joinv1_cases.py" "$WORK/coq/theories/CasesConcJoinV1.v"
coqc_ CasesConcJoinV1
/usr/bin/time -f "ValConcJoinV1.v: %es" bash -c "cd '$WORK/coq' && timeout 3600 coqc -Q theories Cqos theories/ValConcJoinV1.v"
echo "== validation passed"
