// srcconsts translates named integer constants of the Go sources into a Coq file (SrcConsts.v), evaluating their
// defining expressions from the AST (integer literals, + - * /, parentheses, conversions, references to other constants of
// the same or of another package of the two modules, the duration units of package time).  The hand-written ConstsTie.v
// proves, by computation, that the model uses exactly these values: a changed constant breaks a proof obligation.
//
// usage: srcconsts <repo> <out.v>
package main

import (
	"fmt"
	"go/ast"
	"go/constant"
	"go/parser"
	"go/token"
	"os"
	"path/filepath"
	"sort"
	"strconv"
	"strings"
)

const (
	modV1 = "github.com/akramarenkov/cqos"
	modV2 = "github.com/akramarenkov/cqos/v2"
)

type wanted struct{ dir, name, coq string }

var list = []wanted{
	{"priority", "defaultFeedbackLimitDivider", "v1_prio_feedback_limit_divider"},
	{"priority", "defaultIdleDelay", "v1_prio_idle_delay"},
	{"priority", "defaultInterruptTimeout", "v1_prio_interrupt_timeout"},
	{"priority/internal/common", "DefaultCapacityDivider", "v1_prio_capacity_divider"},
	{"v2/priority", "defaultFeedbackLimitDivider", "v2_prio_feedback_limit_divider"},
	{"v2/priority", "defaultIdleDelay", "v2_prio_idle_delay"},
	{"v2/priority", "defaultInterruptTimeout", "v2_prio_interrupt_timeout"},
	{"v2/priority/internal/common", "DefaultCapacityDivider", "v2_prio_capacity_divider"},
	{"v2/limit", "OptimizationInterval", "v2_limit_optimization_interval"},
	{"v2/internal/consts", "HundredPercent", "v2_hundred_percent"},
	{"internal/general", "HundredPercent", "v1_hundred_percent"},
	{"internal/general", "ReliablyMeasurableDuration", "v1_reliably_measurable_duration"},
	{"v2/join/defaults", "TimeoutInaccuracy", "v2_join_default_timeout_inaccuracy"},
	{"join/internal/common", "DefaultTimeoutInaccuracy", "v1_join_default_timeout_inaccuracy"},
	{"join/internal/common", "DefaultMinTimeout", "v1_join_default_min_timeout"},
	{"v2/join/internal/defs", "MinTimeout", "v2_join_min_timeout"},
}

var timeUnits = map[string]int64{
	"Nanosecond": 1, "Microsecond": 1e3, "Millisecond": 1e6, "Second": 1e9, "Minute": 60e9, "Hour": 3600e9,
}

type pkg struct {
	consts  map[string]ast.Expr
	imports map[string]map[string]string // const name -> (alias -> import path) of the file that declares it
}

type evaluator struct {
	repo  string
	pkgs  map[string]*pkg
	stack map[string]bool
}

func (ev *evaluator) load(dir string) (*pkg, error) {
	if p, ok := ev.pkgs[dir]; ok {
		return p, nil
	}
	fset := token.NewFileSet()
	entries, err := os.ReadDir(filepath.Join(ev.repo, dir))
	if err != nil {
		return nil, err
	}
	p := &pkg{consts: map[string]ast.Expr{}, imports: map[string]map[string]string{}}
	for _, e := range entries {
		n := e.Name()
		if e.IsDir() || !strings.HasSuffix(n, ".go") || strings.HasSuffix(n, "_test.go") {
			continue
		}
		f, err := parser.ParseFile(fset, filepath.Join(ev.repo, dir, n), nil, parser.ParseComments)
		if err != nil {
			return nil, err
		}
		tagged := false
		for _, cg := range f.Comments {
			if cg.Pos() < f.Package && strings.Contains(cg.Text(), "go:build") {
				tagged = true // build-tagged files (hooks) never define the library's constants
			}
		}
		if tagged {
			continue
		}
		imps := map[string]string{}
		for _, is := range f.Imports {
			path, _ := strconv.Unquote(is.Path.Value)
			alias := filepath.Base(path)
			if is.Name != nil {
				alias = is.Name.Name
			}
			imps[alias] = path
		}
		for _, d := range f.Decls {
			gd, ok := d.(*ast.GenDecl)
			if !ok || gd.Tok != token.CONST {
				continue
			}
			for _, s := range gd.Specs {
				vs := s.(*ast.ValueSpec)
				for i, name := range vs.Names {
					if i < len(vs.Values) {
						p.consts[name.Name] = vs.Values[i]
						p.imports[name.Name] = imps
					}
				}
			}
		}
	}
	ev.pkgs[dir] = p
	return p, nil
}

func (ev *evaluator) dirOf(path string) (string, bool) {
	switch {
	case path == modV2 || strings.HasPrefix(path, modV2+"/"):
		return filepath.Join("v2", strings.TrimPrefix(strings.TrimPrefix(path, modV2), "/")), true
	case path == modV1 || strings.HasPrefix(path, modV1+"/"):
		return strings.TrimPrefix(strings.TrimPrefix(path, modV1), "/"), true
	}
	return "", false
}

func (ev *evaluator) constOf(dir, name string) (constant.Value, error) {
	key := dir + "." + name
	if ev.stack[key] {
		return nil, fmt.Errorf("cyclic constant %s", key)
	}
	ev.stack[key] = true
	defer delete(ev.stack, key)
	p, err := ev.load(dir)
	if err != nil {
		return nil, err
	}
	e, ok := p.consts[name]
	if !ok {
		return nil, fmt.Errorf("constant %s not found in %s", name, dir)
	}
	return ev.eval(dir, p.imports[name], e)
}

func (ev *evaluator) eval(dir string, imps map[string]string, e ast.Expr) (constant.Value, error) {
	switch x := e.(type) {
	case *ast.BasicLit:
		if x.Kind != token.INT {
			return nil, fmt.Errorf("unsupported literal %s", x.Value)
		}
		return constant.MakeFromLiteral(x.Value, token.INT, 0), nil
	case *ast.ParenExpr:
		return ev.eval(dir, imps, x.X)
	case *ast.Ident:
		return ev.constOf(dir, x.Name)
	case *ast.SelectorExpr:
		id, ok := x.X.(*ast.Ident)
		if !ok {
			return nil, fmt.Errorf("unsupported selector")
		}
		path, ok := imps[id.Name]
		if !ok {
			return nil, fmt.Errorf("unknown package alias %s", id.Name)
		}
		if path == "time" {
			u, ok := timeUnits[x.Sel.Name]
			if !ok {
				return nil, fmt.Errorf("unsupported time.%s", x.Sel.Name)
			}
			return constant.MakeInt64(u), nil
		}
		d, ok := ev.dirOf(path)
		if !ok {
			return nil, fmt.Errorf("constant from a foreign package %s", path)
		}
		return ev.constOf(d, x.Sel.Name)
	case *ast.CallExpr: // a conversion such as time.Duration(x) or uint(x)
		if len(x.Args) != 1 {
			return nil, fmt.Errorf("unsupported call")
		}
		return ev.eval(dir, imps, x.Args[0])
	case *ast.BinaryExpr:
		a, err := ev.eval(dir, imps, x.X)
		if err != nil {
			return nil, err
		}
		b, err := ev.eval(dir, imps, x.Y)
		if err != nil {
			return nil, err
		}
		switch x.Op {
		case token.ADD, token.SUB, token.MUL:
			return constant.BinaryOp(a, x.Op, b), nil
		case token.QUO:
			if constant.Sign(b) == 0 {
				return nil, fmt.Errorf("division by zero")
			}
			return constant.BinaryOp(a, token.QUO_ASSIGN, b), nil // integer division
		}
		return nil, fmt.Errorf("unsupported operator %s", x.Op)
	}
	return nil, fmt.Errorf("unsupported expression %T", e)
}

func main() {
	if len(os.Args) != 3 {
		fmt.Fprintln(os.Stderr, "usage: srcconsts <repo> <out.v>")
		os.Exit(2)
	}
	ev := &evaluator{repo: os.Args[1], pkgs: map[string]*pkg{}, stack: map[string]bool{}}
	var b strings.Builder
	b.WriteString("(* GENERATED by tools/srcconsts from the Go sources of /repo on every run -- do not edit.\n")
	b.WriteString("   Named integer constants of the library, evaluated from their defining expressions (durations in nanoseconds). *)\n")
	b.WriteString("From Coq Require Import ZArith.\nOpen Scope Z_scope.\n\n")
	sort.SliceStable(list, func(i, j int) bool { return list[i].coq < list[j].coq })
	failed := false
	for _, w := range list {
		v, err := ev.constOf(w.dir, w.name)
		if err != nil {
			// a constant that disappeared or is no longer a plain integer expression: the tie lemma that mentions it will not check
			fmt.Fprintf(&b, "(* %s.%s: %v *)\n", w.dir, w.name, err)
			fmt.Fprintf(os.Stderr, "srcconsts: %s.%s: %v\n", w.dir, w.name, err)
			failed = true
			continue
		}
		fmt.Fprintf(&b, "Definition %s : Z := %s.   (* %s.%s *)\n", w.coq, v.ExactString(), w.dir, w.name)
	}
	if err := os.WriteFile(os.Args[2], []byte(b.String()), 0o644); err != nil {
		fmt.Fprintln(os.Stderr, err)
		os.Exit(1)
	}
	if failed {
		os.Exit(3)
	}
}
