module verif/srcconsts

go 1.22
