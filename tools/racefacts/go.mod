module verif/racefacts

go 1.22
