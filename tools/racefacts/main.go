// racefacts: a small Go-AST translator that regenerates, from the current source of the discipline packages, the facts the
// confinement proof (coq/theories/Conf.v) is about:
//   - the fields of every struct type, with a kind: chan / sync (sync.*, breaker, ticker, context, func values: immutable
//     or internally synchronised) / plain (everything else: maps, slices, numbers, structs)
//   - every function and method: which receiver fields it reads / writes, which functions of the package it calls, whether the
//     access or call happens before the first `go` statement of a constructor (construction time)
//   - the roots: every `go` statement (with its target; inside a loop or not) and every exported function / method
// Output: a Coq file defining `facts : Facts.table` (see Conf.v).  Only go/parser + go/ast; no type checker: field kinds are
// read off the syntax of the declared type.
package main

import (
	"fmt"
	"go/ast"
	"go/parser"
	"go/token"
	"os"
	"path/filepath"
	"sort"
	"strings"
)

type access struct {
	field string
	write bool
	early bool // before the first go statement of the function (construction time)
}

type fn struct {
	name     string // Type.method or func
	recvType string
	recvName string
	exported bool
	accesses []access
	calls    []call
	gos      []goStmt
	ctor     bool
	ptrRecv  bool
}

type call struct {
	target string
	early  bool
}

type goStmt struct {
	target string
	inLoop bool
}

type pkgFacts struct {
	mutable map[string]map[string]bool // struct -> field -> declared as map or slice
	path   string
	fields map[string]map[string]string // struct -> field -> kind
	order  map[string][]string
	funcs  []*fn
}

func kindOf(expr ast.Expr) string {
	switch t := expr.(type) {
	case *ast.ChanType:
		return "KChan"
	case *ast.FuncType:
		return "KSync"
	case *ast.StarExpr:
		return kindOf(t.X)
	case *ast.SelectorExpr:
		if id, ok := t.X.(*ast.Ident); ok {
			switch id.Name + "." + t.Sel.Name {
			case "sync.WaitGroup", "sync.Mutex", "sync.RWMutex", "sync.Once", "breaker.Breaker", "time.Ticker", "context.Context", "context.CancelFunc", "divider.Divider":
				return "KSync"
			}
		}
		return "KPlain"
	case *ast.IndexExpr: // generic instantiation, e.g. Opts[Type], Handle[Type], priority.Discipline[Type]
		if id, ok := t.X.(*ast.Ident); ok && (id.Name == "Handle") {
			return "KSync"
		}
		return "KPlain"
	case *ast.Ident:
		if t.Name == "Divider" {
			return "KSync"
		}
		return "KPlain"
	default:
		return "KPlain"
	}
}

func recvOf(fd *ast.FuncDecl) (string, string) {
	if fd.Recv == nil || len(fd.Recv.List) == 0 {
		return "", ""
	}
	lastRecvPtr = false
	f := fd.Recv.List[0]
	name := ""
	if len(f.Names) > 0 {
		name = f.Names[0].Name
	}
	t := f.Type
	if s, ok := t.(*ast.StarExpr); ok {
		t = s.X
		lastRecvPtr = true
	}
	if ix, ok := t.(*ast.IndexExpr); ok {
		t = ix.X
	}
	if ix, ok := t.(*ast.IndexListExpr); ok {
		t = ix.X
	}
	if id, ok := t.(*ast.Ident); ok {
		return id.Name, name
	}
	return "", name
}

var lastRecvPtr bool

// root field of an expression rooted at the receiver: dsc.f, dsc.f[k], dsc.f.g, dsc.f[:0] ...
func rootField(e ast.Expr, recv string) (string, bool) {
	for {
		switch t := e.(type) {
		case *ast.SelectorExpr:
			if id, ok := t.X.(*ast.Ident); ok && id.Name == recv {
				return t.Sel.Name, true
			}
			e = t.X
		case *ast.IndexExpr:
			e = t.X
		case *ast.SliceExpr:
			e = t.X
		case *ast.StarExpr:
			e = t.X
		case *ast.ParenExpr:
			e = t.X
		default:
			return "", false
		}
	}
}

type walker struct {
	mutable map[string]map[string]bool
	f       *fn
	methods map[string]bool
	funcs   map[string]bool
	seenGo  bool
	loop    int
}

func (w *walker) write(e ast.Expr) {
	if w.f.recvName == "" {
		return
	}
	if !w.f.ptrRecv && !w.f.ctor {
		// a value receiver is a copy: assigning to its fields changes nothing shared, unless it goes through a map or slice element
		if _, isIndex := e.(*ast.IndexExpr); !isIndex {
			return
		}
	}
	if name, ok := rootField(e, w.f.recvName); ok {
		w.f.accesses = append(w.f.accesses, access{name, true, !w.seenGo})
	}
}

func (w *walker) read(e ast.Expr) {
	ast.Inspect(e, func(n ast.Node) bool {
		switch t := n.(type) {
		case *ast.FuncLit:
			w.stmts(t.Body.List)
			return false
		case *ast.CallExpr:
			w.call(t, false)
			return false
		case *ast.SelectorExpr:
			if id, ok := t.X.(*ast.Ident); ok && w.f.recvName != "" && id.Name == w.f.recvName {
				if !w.methods[w.f.recvType+"."+t.Sel.Name] {
					w.f.accesses = append(w.f.accesses, access{t.Sel.Name, false, !w.seenGo})
				}
				return false
			}
		}
		return true
	})
}

func (w *walker) call(c *ast.CallExpr, isGo bool) {
	target := ""
	switch fun := c.Fun.(type) {
	case *ast.SelectorExpr:
		if id, ok := fun.X.(*ast.Ident); ok && w.f.recvName != "" && id.Name == w.f.recvName && w.methods[w.f.recvType+"."+fun.Sel.Name] {
			target = w.f.recvType + "." + fun.Sel.Name
		} else {
			w.read(fun.X)
		}
	case *ast.Ident:
		if w.funcs[fun.Name] {
			target = fun.Name
		}
		if fun.Name == "delete" && len(c.Args) > 0 {
			w.write(c.Args[0])
		}
		if fun.Name == "append" && len(c.Args) > 0 {
			// the result is assigned by the caller (a write there); the first argument is read
		}
		if fun.Name == "close" && len(c.Args) > 0 {
			// closing a channel: channel operation
		}
	case *ast.FuncLit:
		if isGo {
			w.f.gos = append(w.f.gos, goStmt{w.f.name + ".func", w.loop > 0})
			w.seenGo = true
		}
		w.stmts(fun.Body.List)
	case *ast.IndexExpr:
		if id, ok := fun.X.(*ast.Ident); ok && w.funcs[id.Name] {
			target = id.Name
		}
	}
	if target != "" {
		if isGo {
			w.f.gos = append(w.f.gos, goStmt{target, w.loop > 0})
			w.seenGo = true
		} else {
			w.f.calls = append(w.f.calls, call{target, !w.seenGo})
		}
	}
	for _, a := range c.Args {
		// a map or slice field handed to another function may be modified there
		if sel, isSel := a.(*ast.SelectorExpr); isSel && w.f.recvName != "" {
			if id, ok := sel.X.(*ast.Ident); ok && id.Name == w.f.recvName && w.mutable[w.f.recvType][sel.Sel.Name] {
				w.f.accesses = append(w.f.accesses, access{sel.Sel.Name, true, !w.seenGo})
				continue
			}
		}
		w.read(a)
	}
}

func (w *walker) stmts(list []ast.Stmt) {
	for _, s := range list {
		w.stmt(s)
	}
}

func (w *walker) stmt(s ast.Stmt) {
	switch t := s.(type) {
	case nil:
	case *ast.AssignStmt:
		for _, l := range t.Lhs {
			w.write(l)
			if ix, ok := l.(*ast.IndexExpr); ok {
				w.read(ix.Index)
			}
		}
		for _, r := range t.Rhs {
			w.read(r)
		}
	case *ast.IncDecStmt:
		w.write(t.X)
	case *ast.ExprStmt:
		w.read(t.X)
	case *ast.GoStmt:
		w.call(t.Call, true)
	case *ast.DeferStmt:
		w.call(t.Call, false)
	case *ast.SendStmt:
		w.read(t.Chan)
		w.read(t.Value)
	case *ast.ReturnStmt:
		for _, r := range t.Results {
			w.read(r)
		}
	case *ast.BlockStmt:
		w.stmts(t.List)
	case *ast.IfStmt:
		w.stmt(t.Init)
		w.read(t.Cond)
		w.stmt(t.Body)
		w.stmt(t.Else)
	case *ast.ForStmt:
		w.stmt(t.Init)
		if t.Cond != nil {
			w.read(t.Cond)
		}
		w.stmt(t.Post)
		w.loop++
		w.stmt(t.Body)
		w.loop--
	case *ast.RangeStmt:
		if t.Key != nil {
			w.write(t.Key)
		}
		if t.Value != nil {
			w.write(t.Value)
		}
		w.read(t.X)
		w.loop++
		w.stmt(t.Body)
		w.loop--
	case *ast.SelectStmt:
		w.stmt(t.Body)
	case *ast.CommClause:
		w.stmt(t.Comm)
		w.stmts(t.Body)
	case *ast.SwitchStmt:
		w.stmt(t.Init)
		if t.Tag != nil {
			w.read(t.Tag)
		}
		w.stmt(t.Body)
	case *ast.CaseClause:
		for _, e := range t.List {
			w.read(e)
		}
		w.stmts(t.Body)
	case *ast.DeclStmt:
		if gd, ok := t.Decl.(*ast.GenDecl); ok {
			for _, sp := range gd.Specs {
				if vs, ok := sp.(*ast.ValueSpec); ok {
					for _, v := range vs.Values {
						w.read(v)
					}
				}
			}
		}
	case *ast.LabeledStmt:
		w.stmt(t.Stmt)
	}
}

func analyse(dir, rel string) (*pkgFacts, error) {
	fset := token.NewFileSet()
	pkgs, err := parser.ParseDir(fset, dir, func(fi os.FileInfo) bool {
		return !strings.HasSuffix(fi.Name(), "_test.go") && fi.Name() != "verif_hooks.go"
	}, 0)
	if err != nil {
		return nil, err
	}
	pf := &pkgFacts{path: rel, fields: map[string]map[string]string{}, order: map[string][]string{}, mutable: map[string]map[string]bool{}}
	var decls []*ast.FuncDecl
	names := []string{}
	for n := range pkgs {
		names = append(names, n)
	}
	sort.Strings(names)
	for _, n := range names {
		files := []string{}
		for fname := range pkgs[n].Files {
			files = append(files, fname)
		}
		sort.Strings(files)
		for _, fname := range files {
			for _, d := range pkgs[n].Files[fname].Decls {
				switch t := d.(type) {
				case *ast.GenDecl:
					for _, sp := range t.Specs {
						ts, ok := sp.(*ast.TypeSpec)
						if !ok {
							continue
						}
						st, ok := ts.Type.(*ast.StructType)
						if !ok {
							continue
						}
						pf.fields[ts.Name.Name] = map[string]string{}
						for _, f := range st.Fields.List {
							for _, nm := range f.Names {
								pf.fields[ts.Name.Name][nm.Name] = kindOf(f.Type)
								switch f.Type.(type) {
								case *ast.MapType, *ast.ArrayType:
									if pf.mutable[ts.Name.Name] == nil {
										pf.mutable[ts.Name.Name] = map[string]bool{}
									}
									pf.mutable[ts.Name.Name][nm.Name] = true
								}
								pf.order[ts.Name.Name] = append(pf.order[ts.Name.Name], nm.Name)
							}
						}
					}
				case *ast.FuncDecl:
					decls = append(decls, t)
				}
			}
		}
	}
	methods, funcs := map[string]bool{}, map[string]bool{}
	for _, d := range decls {
		if rt, _ := recvOf(d); rt != "" {
			methods[rt+"."+d.Name.Name] = true
		} else {
			funcs[d.Name.Name] = true
		}
	}
	for _, d := range decls {
		rt, rn := recvOf(d)
		f := &fn{name: d.Name.Name, recvType: rt, recvName: rn, exported: ast.IsExported(d.Name.Name), ptrRecv: lastRecvPtr || rt == ""}
		if rt != "" {
			f.name = rt + "." + d.Name.Name
		}
		// constructors build the value in a local variable (dsc := &Discipline{...}): treat that variable as the receiver
		if rt == "" && d.Body != nil {
			for _, s := range d.Body.List {
				if as, ok := s.(*ast.AssignStmt); ok && len(as.Lhs) == 1 && len(as.Rhs) == 1 {
					if ue, ok := as.Rhs[0].(*ast.UnaryExpr); ok && ue.Op == token.AND {
						if cl, ok := ue.X.(*ast.CompositeLit); ok {
							t := cl.Type
							if ix, ok := t.(*ast.IndexExpr); ok {
								t = ix.X
							}
							if id, ok := t.(*ast.Ident); ok {
								if _, isStruct := pf.fields[id.Name]; isStruct {
									if lid, ok := as.Lhs[0].(*ast.Ident); ok {
										f.recvType, f.recvName, f.ctor = id.Name, lid.Name, true
									}
								}
							}
						}
					}
				}
			}
		}
		if d.Body != nil {
			w := &walker{f: f, methods: methods, funcs: funcs, mutable: pf.mutable}
			w.stmts(d.Body.List)
		}
		pf.funcs = append(pf.funcs, f)
	}
	sort.Slice(pf.funcs, func(i, j int) bool { return pf.funcs[i].name < pf.funcs[j].name })
	return pf, nil
}

func q(s string) string { return "\"" + s + "\"" }

func main() {
	if len(os.Args) < 3 {
		fmt.Fprintln(os.Stderr, "usage: racefacts <repo> <out.v> pkg...")
		os.Exit(2)
	}
	repo, out := os.Args[1], os.Args[2]
	var b strings.Builder
	b.WriteString("(* GENERATED by tools/racefacts from the current source of /repo -- do not edit *)\n")
	b.WriteString("From Coq Require Import List String.\nFrom Cqos Require Import Conf.\nImport ListNotations.\nOpen Scope string_scope.\n\n")
	b.WriteString("Definition facts : list package :=\n  [\n")
	for pi, rel := range os.Args[3:] {
		pf, err := analyse(filepath.Join(repo, rel), rel)
		if err != nil {
			fmt.Fprintln(os.Stderr, err)
			os.Exit(1)
		}
		b.WriteString("   {| pkg_path := " + q(rel) + ";\n      pkg_fields := [")
		structs := []string{}
		for s := range pf.fields {
			structs = append(structs, s)
		}
		sort.Strings(structs)
		first := true
		for _, s := range structs {
			for _, f := range pf.order[s] {
				if !first {
					b.WriteString("; ")
				}
				first = false
				b.WriteString("(" + q(s) + ", " + q(f) + ", " + pf.fields[s][f] + ")")
			}
		}
		b.WriteString("];\n      pkg_funcs := [\n")
		for fi, f := range pf.funcs {
			b.WriteString("        {| fn_name := " + q(f.name) + "; fn_recv := " + q(f.recvType) + "; fn_exported := " + fmt.Sprint(f.exported) + "; fn_ctor := " + fmt.Sprint(f.ctor) + ";\n           fn_accesses := [")
			seen := map[string]bool{}
			firstA := true
			for _, a := range f.accesses {
				k := fmt.Sprint(a)
				if seen[k] {
					continue
				}
				seen[k] = true
				if !firstA {
					b.WriteString("; ")
				}
				firstA = false
				b.WriteString("(" + q(a.field) + ", " + fmt.Sprint(a.write) + ", " + fmt.Sprint(a.early) + ")")
			}
			b.WriteString("];\n           fn_calls := [")
			seenC := map[string]bool{}
			firstC := true
			for _, c := range f.calls {
				k := fmt.Sprint(c)
				if seenC[k] {
					continue
				}
				seenC[k] = true
				if !firstC {
					b.WriteString("; ")
				}
				firstC = false
				b.WriteString("(" + q(c.target) + ", " + fmt.Sprint(c.early) + ")")
			}
			b.WriteString("];\n           fn_gos := [")
			for gi, g := range f.gos {
				if gi > 0 {
					b.WriteString("; ")
				}
				b.WriteString("(" + q(g.target) + ", " + fmt.Sprint(g.inLoop) + ")")
			}
			b.WriteString("] |}")
			if fi < len(pf.funcs)-1 {
				b.WriteString(";")
			}
			b.WriteString("\n")
		}
		b.WriteString("      ] |}")
		if pi < len(os.Args[3:])-1 {
			b.WriteString(";")
		}
		b.WriteString("\n")
	}
	b.WriteString("  ].\n")
	if err := os.WriteFile(out, []byte(b.String()), 0o644); err != nil {
		fmt.Fprintln(os.Stderr, err)
		os.Exit(1)
	}
}
