// Correspondence harness for akramarenkov/cqos (this file is shared by harness/v1 and harness/v2; it is copied
// into the module directory when the harness is built).
//
// Reads scenarios (one per line: family followed by integer arguments, the same encoding the Coq model's
// Run.run decodes), executes each one on the real library code and appends one result line per scenario:
// "<index> ok <integers...>" or "<index> <verdict> ...".  Results are flushed per scenario so that a crash of
// the test binary loses only the scenario that caused it; the caller restarts after that index.
package harness

import (
	"bufio"
	"fmt"
	"math/big"
	"os"
	"runtime"
	"strconv"
	"strings"
	"testing"
)

type scenario struct {
	index int
	args  []*big.Int
}

func (s scenario) i64(k int) int64  { return s.args[k].Int64() }
func (s scenario) u64(k int) uint64 { return s.args[k].Uint64() }
func (s scenario) int(k int) int    { return int(s.args[k].Int64()) }
func (s scenario) uint(k int) uint  { return uint(s.args[k].Uint64()) }
func (s scenario) rest(k int) []int64 {
	out := make([]int64, 0, len(s.args)-k)
	for _, a := range s.args[k:] {
		out = append(out, a.Int64())
	}
	return out
}

type result struct {
	verdict string
	vals    []string
}

func okInts(vals ...int64) result {
	r := result{verdict: "ok"}
	for _, v := range vals {
		r.vals = append(r.vals, strconv.FormatInt(v, 10))
	}
	return r
}

func (r *result) addU(v uint64) { r.vals = append(r.vals, strconv.FormatUint(v, 10)) }
func (r *result) addI(v int64)  { r.vals = append(r.vals, strconv.FormatInt(v, 10)) }

func TestHarness(t *testing.T) {
	inPath, outPath := os.Getenv("VERIF_IN"), os.Getenv("VERIF_OUT")
	if inPath == "" || outPath == "" {
		t.Skip("VERIF_IN / VERIF_OUT not set")
	}
	from, _ := strconv.Atoi(os.Getenv("VERIF_FROM"))

	in, err := os.Open(inPath)
	if err != nil {
		t.Fatal(err)
	}
	defer in.Close()

	out, err := os.OpenFile(outPath, os.O_APPEND|os.O_CREATE|os.O_WRONLY, 0o644)
	if err != nil {
		t.Fatal(err)
	}
	defer out.Close()

	scanner := bufio.NewScanner(in)
	scanner.Buffer(make([]byte, 1<<20), 1<<26)

	index := -1
	for scanner.Scan() {
		line := strings.TrimSpace(scanner.Text())
		if line == "" {
			continue
		}
		index++
		if index < from {
			continue
		}
		sc := scenario{index: index}
		for _, tok := range strings.Fields(line) {
			v, ok := new(big.Int).SetString(tok, 10)
			if !ok {
				t.Fatalf("bad token %q", tok)
			}
			sc.args = append(sc.args, v)
		}
		// announce the scenario before running it: if the binary dies the caller knows which one it was
		fmt.Fprintf(out, "%d begin\n", index)
		res := dispatch(t, sc)
		fmt.Fprintf(out, "%d %s %s\n", index, res.verdict, strings.Join(res.vals, " "))
	}
}

// libGoroutines counts the goroutines that were started by the library (created by a function of akramarenkov/cqos) and
// still exist.  Call it after synctest.Wait(): whatever is left then is blocked, not merely on its way out.
func libGoroutines() int {
	buf := make([]byte, 1<<20)
	for {
		n := runtime.Stack(buf, true)
		if n < len(buf) {
			buf = buf[:n]
			break
		}
		buf = make([]byte, 2*len(buf))
	}
	count := 0
	for _, g := range strings.Split(string(buf), "\n\n") {
		if strings.Contains(g, "created by github.com/akramarenkov/cqos") {
			count++
		}
	}
	return count
}
