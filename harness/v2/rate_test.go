package harness

import (
	"errors"
	"time"

	"github.com/akramarenkov/cqos/v2/limit"
)

// family 1: [1, which, Interval, Quantity, minimum] -> [code, Interval', Quantity']
func runRate(sc scenario) result {
	which := sc.int(1)
	rate := limit.Rate{Interval: time.Duration(sc.i64(2)), Quantity: sc.u64(3)}
	minimum := time.Duration(sc.i64(4))

	var (
		got limit.Rate
		err error
	)

	switch which {
	case 1:
		got, err = rate.Optimize()
	case 2:
		got, err = rate.Flatten()
	default:
		got, err = rate.Recalculate(minimum)
	}

	code := int64(0)
	switch {
	case err == nil:
	case errors.Is(err, limit.ErrIntervalNegative):
		code = 1
	case errors.Is(err, limit.ErrIntervalZero):
		code = 2
	case errors.Is(err, limit.ErrQuantityZero):
		code = 3
	case errors.Is(err, limit.ErrMinimumIntervalNegative):
		code = 4
	case errors.Is(err, limit.ErrConvertedIntervalZero):
		code = 5
	case errors.Is(err, limit.ErrConvertedQuantityUnrepresentable):
		code = 6
	default:
		code = 99
	}

	res := okInts(code, int64(got.Interval))
	res.addU(got.Quantity)

	return res
}
