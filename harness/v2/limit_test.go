package harness

import (
	"errors"
	"strconv"
	"sync"
	"testing"
	"testing/synctest"
	"time"

	"github.com/akramarenkov/cqos/v2/limit"
)

// family 6: [6, Q, I, icap, close_after, fuel, n, delays.., 2m, (index pause)*m]
func runLimit(t *testing.T, sc scenario) result {
	var res result
	synctest.Test(t, func(t *testing.T) {
		res = runLimitBubble(sc)
	})
	return res
}

func runLimitBubble(sc scenario) result {
	quantity := sc.u64(1)
	interval := time.Duration(sc.i64(2))
	icap := sc.int(3)
	closeAfter := time.Duration(sc.i64(4))
	n := sc.int(6)
	delays := make([]time.Duration, 0, n)
	for i := 0; i < n; i++ {
		delays = append(delays, time.Duration(sc.i64(7+i)))
	}
	pos := 7 + n
	m := sc.int(pos)
	pauses := map[int]time.Duration{}
	for i := 0; i < m; i += 2 {
		pauses[sc.int(pos+1+i)] = time.Duration(sc.i64(pos + 2 + i))
	}

	input := make(chan int, icap)
	t0 := time.Now()
	dsc, err := limit.New(limit.Opts[int]{Input: input, Limit: limit.Rate{Interval: interval, Quantity: quantity}})
	if err != nil {
		switch {
		case errors.Is(err, limit.ErrIntervalNegative):
			return okInts(-1)
		case errors.Is(err, limit.ErrIntervalZero):
			return okInts(-2)
		case errors.Is(err, limit.ErrQuantityZero):
			return okInts(-3)
		default:
			return okInts(-98)
		}
	}

	var (
		mu     sync.Mutex
		puts   []time.Duration
		outs   [][2]int64
		tclose = time.Duration(-1)
	)
	go func() {
		next := 1
		for _, d := range delays {
			time.Sleep(d)
			input <- next
			next++
			mu.Lock()
			puts = append(puts, time.Since(t0))
			mu.Unlock()
		}
		time.Sleep(closeAfter)
		close(input)
	}()
	done := make(chan struct{})
	go func() {
		defer close(done)
		idx := 0
		for v := range dsc.Output() {
			mu.Lock()
			outs = append(outs, [2]int64{int64(time.Since(t0)), int64(v)})
			mu.Unlock()
			if p, ok := pauses[idx]; ok {
				time.Sleep(p)
			}
			idx++
		}
		mu.Lock()
		tclose = time.Since(t0)
		mu.Unlock()
	}()
	<-done
	synctest.Wait()
	mu.Lock()
	defer mu.Unlock()
	res := okInts(0, 0, 1, int64(len(puts)))
	for _, p := range puts {
		res.addI(int64(p))
	}
	res.addI(int64(len(outs)))
	for _, o := range outs {
		res.addI(o[0])
		res.addI(o[1])
	}
	res.addI(int64(tclose))
	res.vals = append(res.vals, "goroutines", strconv.Itoa(libGoroutines()))
	return res
}
