package harness

import (
	"math/rand"
	"os"
	"strconv"
	"sync"
	"testing"
	"time"

	"github.com/akramarenkov/cqos/v2/join"
	"github.com/akramarenkov/cqos/v2/join/unite"
	"github.com/akramarenkov/cqos/v2/limit"
	"github.com/akramarenkov/cqos/v2/priority"
	"github.com/akramarenkov/cqos/v2/priority/divider"
	"github.com/akramarenkov/cqos/v2/priority/simple"
	"github.com/akramarenkov/cqos/v2/priority/utils"
)

// Free-running stress of the documented concurrent use, meant for the race detector (C20) -- real goroutines, real time.
func stressSeed() int64 {
	s, _ := strconv.ParseInt(os.Getenv("VERIF_SEED"), 10, 64)
	return s + 1
}

func stressRounds() int {
	n, _ := strconv.Atoi(os.Getenv("VERIF_STRESS"))
	if n <= 0 {
		n = 3
	}
	return n
}

func TestStressPriority(t *testing.T) {
	for round := 0; round < stressRounds(); round++ {
		rng := rand.New(rand.NewSource(stressSeed() + int64(round)))
		handlers := uint(6 + rng.Intn(6))
		inputs := map[uint]<-chan int{}
		chans := map[uint]chan int{}
		for _, p := range []uint{3, 2, 1} {
			ch := make(chan int, rng.Intn(3))
			chans[p] = ch
			inputs[p] = ch
		}
		dv := divider.Fair
		if round%2 == 1 {
			dv = divider.Rate
		}
		dsc, err := priority.New(priority.Opts[int]{Divider: dv, HandlersQuantity: handlers, Inputs: inputs})
		if err != nil {
			t.Fatal(err)
		}
		var wg sync.WaitGroup
		for p, ch := range chans {
			wg.Add(1)
			go func(p uint, ch chan int) {
				defer wg.Done()
				defer close(ch)
				for i := 0; i < 300; i++ {
					ch <- i
				}
			}(p, ch)
		}
		inFlight := make(chan struct{}, 4*int(handlers))
		for h := 0; h < 2*int(handlers); h++ {
			wg.Add(1)
			go func(h int) {
				defer wg.Done()
				for item := range dsc.Output() {
					inFlight <- struct{}{}
					if h%3 == 0 {
						time.Sleep(time.Microsecond)
					}
					<-inFlight
					dsc.Release(item.Priority)
				}
			}(h)
		}
		wg.Wait()
		if e := <-dsc.Err(); e != nil {
			t.Fatal(e)
		}
	}
}

func TestStressSimple(t *testing.T) {
	for round := 0; round < stressRounds(); round++ {
		inputs := map[uint]<-chan int{}
		chans := []chan int{}
		for _, p := range []uint{7, 5, 1} {
			ch := make(chan int, 2)
			chans = append(chans, ch)
			inputs[p] = ch
		}
		var mu sync.Mutex
		handled := 0
		dsc, err := simple.New(simple.Opts[int]{Divider: divider.Rate, HandlersQuantity: 13, Inputs: inputs, Handle: func(item int) {
			mu.Lock()
			handled++
			mu.Unlock()
		}})
		if err != nil {
			t.Fatal(err)
		}
		var wg sync.WaitGroup
		for _, ch := range chans {
			wg.Add(1)
			go func(ch chan int) {
				defer wg.Done()
				defer close(ch)
				for i := 0; i < 300; i++ {
					ch <- i
				}
			}(ch)
		}
		wg.Wait()
		if e := <-dsc.Err(); e != nil {
			t.Fatal(e)
		}
		mu.Lock()
		if handled != 900 {
			t.Fatalf("handled %d of 900", handled)
		}
		mu.Unlock()
	}
}

// join / unite in copy mode: the consumer keeps every slice and writes into it; the producer of unite keeps reading the
// slices it has sent (it still owns them in copy mode); in no-copy mode the consumer reads, then releases.
func TestStressJoin(t *testing.T) {
	for round := 0; round < stressRounds(); round++ {
		for _, noCopy := range []bool{false, true} {
			input := make(chan int, 3)
			dsc, err := join.New(join.Opts[int]{Input: input, JoinSize: 5, NoCopy: noCopy, Timeout: 200 * time.Microsecond})
			if err != nil {
				t.Fatal(err)
			}
			go func() {
				defer close(input)
				for i := 0; i < 2000; i++ {
					input <- i
					if i%97 == 0 {
						time.Sleep(300 * time.Microsecond)
					}
				}
			}()
			kept := [][]int{}
			sum := 0
			for s := range dsc.Output() {
				for _, v := range s {
					sum += v
				}
				if noCopy {
					dsc.Release()
				} else {
					// the consumer owns a copy-mode slice, spare capacity included (what append would write to)
					s = s[:cap(s)]
					for i := range s {
						s[i] = -1
					}
					kept = append(kept, s)
				}
			}
			for _, s := range kept {
				for _, v := range s {
					if v != -1 {
						t.Fatal("a retained copy-mode slice was modified")
					}
				}
			}
			if sum != 1999*2000/2 {
				t.Fatalf("sum %d", sum)
			}
		}
	}
}

func TestStressUnite(t *testing.T) {
	for round := 0; round < stressRounds(); round++ {
		for _, noCopy := range []bool{false, true} {
			input := make(chan []int, 2)
			dsc, err := unite.New(unite.Opts[int]{Input: input, JoinSize: 6, NoCopy: noCopy, Timeout: 200 * time.Microsecond})
			if err != nil {
				t.Fatal(err)
			}
			var wg sync.WaitGroup
			wg.Add(1)
			go func() {
				defer wg.Done()
				defer close(input)
				sent := [][]int{}
				check := 0
				for i := 0; i < 600; i++ {
					n := []int{0, 1, 3, 5, 6, 7, 12}[i%7]
					s := make([]int, n, n+i%3)
					for k := range s {
						s[k] = 1
					}
					input <- s
					if !noCopy {
						// in copy mode the producer still owns what it sent: it may read (and reuse) it
						sent = append(sent, s)
						for _, old := range sent[len(sent)/2:] {
							for _, v := range old {
								check += v
							}
						}
					}
				}
				_ = check
			}()
			total := 0
			keptU := [][]int{}
			for s := range dsc.Output() {
				total += len(s)
				if noCopy {
					dsc.Release()
				} else {
					s = s[:cap(s)]
					for i := range s {
						s[i] = 7 // the consumer owns a copy-mode slice, spare capacity included
					}
					keptU = append(keptU, s)
				}
			}
			wg.Wait()
			for _, s := range keptU {
				for _, v := range s {
					if v != 7 {
						t.Fatal("a retained copy-mode slice was modified")
					}
				}
			}
			exp := 0
			for i := 0; i < 600; i++ {
				exp += []int{0, 1, 3, 5, 6, 7, 12}[i%7]
			}
			if total != exp {
				t.Fatalf("total %d != %d", total, exp)
			}
		}
	}
}

func TestStressLimit(t *testing.T) {
	input := make(chan int, 4)
	dsc, err := limit.New(limit.Opts[int]{Input: input, Limit: limit.Rate{Interval: 200 * time.Microsecond, Quantity: 50}})
	if err != nil {
		t.Fatal(err)
	}
	go func() {
		defer close(input)
		for i := 0; i < 1000; i++ {
			input <- i
		}
	}()
	n := 0
	for v := range dsc.Output() {
		if v != n {
			t.Fatalf("got %d, want %d", v, n)
		}
		n++
	}
}

// The pure functions (rate conversion, dividers, handler-quantity helpers) called from many goroutines at once, each on its own
// arguments: no shared state may exist behind them (C20), and every concurrent result equals the sequential one.
func TestStressPure(t *testing.T) {
	type rateCase struct {
		rate limit.Rate
		min  time.Duration
	}
	for round := 0; round < stressRounds(); round++ {
		rng := rand.New(rand.NewSource(stressSeed() + int64(round)))
		cases := make([]rateCase, 64)
		for i := range cases {
			q := uint64(1 + rng.Int63n(1<<uint(1+rng.Intn(40))))
			iv := time.Duration(1 + rng.Int63n(1<<uint(1+rng.Intn(40))))
			cases[i] = rateCase{limit.Rate{Interval: iv, Quantity: q}, time.Duration(rng.Int63n(1 << uint(1+rng.Intn(30))))}
			if i%2 == 0 { // the slow (big-integer) path: Interval/Quantity below the minimum
				cases[i] = rateCase{limit.Rate{Interval: time.Second, Quantity: uint64(200 + rng.Intn(1<<20))}, limit.OptimizationInterval}
			}
		}
		type rateRes struct {
			r   limit.Rate
			err error
		}
		seq := make([]rateRes, len(cases))
		for i, c := range cases {
			r, err := c.rate.Recalculate(c.min)
			seq[i] = rateRes{r, err}
		}
		priorities := []uint{70, 20, 10, 5, 1}
		seqFair, seqRate := map[uint]uint{}, map[uint]uint{}
		divider.Fair(priorities, 1000+uint(round), seqFair)
		divider.Rate(priorities, 1000+uint(round), seqRate)
		seqNonFatal := utils.IsNonFatalConfig(priorities, divider.Rate, 200)
		seqMin := utils.PickUpMinNonFatalQuantity(priorities, divider.Rate, 300)
		var wg sync.WaitGroup
		for g := 0; g < 16; g++ {
			wg.Add(1)
			go func(g int) {
				defer wg.Done()
				for rep := 0; rep < 20; rep++ {
					for i, c := range cases {
						r, err := c.rate.Recalculate(c.min)
						if r != seq[i].r || (err == nil) != (seq[i].err == nil) {
							t.Errorf("concurrent Recalculate(%v, %v) = %v, %v; sequential %v, %v", c.rate, c.min, r, err, seq[i].r, seq[i].err)
							return
						}
						if _, err := c.rate.Optimize(); false && err != nil {
							return
						}
						_, _ = c.rate.Flatten()
					}
					f, r := map[uint]uint{}, map[uint]uint{}
					divider.Fair(priorities, 1000+uint(round), f)
					divider.Rate(priorities, 1000+uint(round), r)
					for _, p := range priorities {
						if f[p] != seqFair[p] || r[p] != seqRate[p] {
							t.Errorf("concurrent divider result differs from the sequential one")
							return
						}
					}
					if g%4 == 0 && rep%5 == 0 {
						if utils.IsNonFatalConfig(priorities, divider.Rate, 200) != seqNonFatal || utils.PickUpMinNonFatalQuantity(priorities, divider.Rate, 300) != seqMin {
							t.Errorf("concurrent helper result differs from the sequential one")
							return
						}
						_ = utils.IsSuitableConfig(priorities, divider.Fair, 200, 10)
					}
				}
			}(g)
		}
		wg.Wait()
	}
}
