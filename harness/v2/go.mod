module verif/harness/v2

go 1.26

require github.com/akramarenkov/cqos/v2 v2.0.0

replace github.com/akramarenkov/cqos/v2 => /repo/v2
