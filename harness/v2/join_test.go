package harness

import (
	"strconv"
	"sync"
	"testing"
	"testing/synctest"
	"time"
	"unsafe"

	"github.com/akramarenkov/cqos/v2/join"
	"github.com/akramarenkov/cqos/v2/join/unite"
)

type joinScenario struct {
	variant    int
	joinSize   uint
	noCopy     bool
	timeout    time.Duration
	inaccuracy uint
	icap       int
	closeAfter time.Duration
	stopAt     time.Duration
	capExtra   int
	prod       [][2]int64 // (delay, len)
	cons       [][2]int64 // (hold, pause)
}

func decodeJoin(sc scenario) joinScenario {
	js := joinScenario{
		variant:    sc.int(1),
		joinSize:   sc.uint(2),
		noCopy:     sc.int(3) != 0,
		timeout:    time.Duration(sc.i64(4)),
		inaccuracy: sc.uint(5),
		icap:       sc.int(6),
		closeAfter: time.Duration(sc.i64(7)),
		stopAt:     time.Duration(sc.i64(8)),
	}
	js.capExtra = sc.int(10)
	pos := 11
	n := sc.int(pos)
	for i := 0; i < n; i += 2 {
		js.prod = append(js.prod, [2]int64{sc.i64(pos + 1 + i), sc.i64(pos + 2 + i)})
	}
	pos += 1 + n
	m := sc.int(pos)
	for i := 0; i < m; i += 2 {
		js.cons = append(js.cons, [2]int64{sc.i64(pos + 1 + i), sc.i64(pos + 2 + i)})
	}
	return js
}

type emission struct {
	at     time.Duration
	alias  int64
	vals   []int
	ptr    unsafe.Pointer
	kept   []int // the slice itself, retained
	atRecv []int // contents when received
	mode   int   // 0 copy (scribbled afterwards), 1 no-copy
}

type joinLog struct {
	mu        sync.Mutex
	puts      []time.Duration
	outs      []emission
	tclose    time.Duration
	flags     []string
	prodSlice map[unsafe.Pointer]int64 // unite: base pointer of each producer slice -> first value
}

func (l *joinLog) flag(s string) {
	l.mu.Lock()
	l.flags = append(l.flags, s)
	l.mu.Unlock()
}

func basePtr(s []int) unsafe.Pointer {
	if cap(s) == 0 {
		return nil
	}
	return unsafe.Pointer(unsafe.SliceData(s))
}

const scribble = -7777

// the consumer side shared by join, unite and v1 join
func consume(log *joinLog, t0 time.Time, out <-chan []int, js joinScenario, release func() bool, quit <-chan struct{}) {
	idx := 0
	for {
		var (
			s  []int
			ok bool
		)
		select {
		case s, ok = <-out:
		case <-quit:
			return
		}
		if !ok {
			log.mu.Lock()
			log.tclose = time.Since(t0)
			log.mu.Unlock()
			return
		}
		em := emission{at: time.Since(t0), vals: append([]int(nil), s...), ptr: basePtr(s), kept: s, atRecv: append([]int(nil), s...)}
		if js.noCopy {
			em.mode = 1
		}
		log.mu.Lock()
		log.outs = append(log.outs, em)
		log.mu.Unlock()
		hold, pause := time.Duration(0), time.Duration(0)
		if idx < len(js.cons) {
			hold, pause = time.Duration(js.cons[idx][0]), time.Duration(js.cons[idx][1])
		}
		idx++
		if hold > 0 {
			select {
			case <-time.After(hold):
			case <-quit:
				return
			}
		}
		if js.noCopy {
			// the slice must be unchanged from delivery until the release
			for i := range s {
				if i >= len(em.atRecv) || s[i] != em.atRecv[i] {
					log.flag("nocopy-slice-changed-before-release")
					break
				}
			}
			// no further output is produced before the release signal: nothing may be waiting in the output channel now
			if len(out) > 0 {
				log.flag("nocopy-output-before-release")
			}
			if !release() {
				return
			}
		} else {
			// the consumer owns a copy-mode slice: overwrite it, later outputs must not be affected
			// (the whole capacity: what an append by the consumer may write to)
			full := s[:cap(s)]
			for i := range full {
				full[i] = scribble
			}
			log.mu.Lock()
			log.outs[len(log.outs)-1].kept = full
			log.mu.Unlock()
		}
		if pause > 0 {
			select {
			case <-time.After(pause):
			case <-quit:
				return
			}
		}
	}
}

func encodeJoin(log *joinLog, stopRet time.Duration, finished bool) result {
	log.mu.Lock()
	defer log.mu.Unlock()
	res := okInts(0, 0, boolInt(finished), int64(len(log.puts)))
	for _, p := range log.puts {
		res.addI(int64(p))
	}
	res.addI(int64(len(log.outs)))
	firstSeen := map[unsafe.Pointer]int{}
	for i, em := range log.outs {
		alias := int64(i)
		if em.alias == -1 {
			alias = -1
		} else if fv, isProd := log.prodSlice[em.ptr]; isProd && em.ptr != nil {
			alias = -fv
		} else if j, seen := firstSeen[em.ptr]; seen {
			alias = int64(j)
		} else {
			firstSeen[em.ptr] = i
		}
		res.addI(int64(em.at))
		res.addI(alias)
		res.addI(int64(len(em.vals)))
		for _, v := range em.vals {
			res.addI(int64(v))
		}
	}
	res.addI(int64(log.tclose))
	res.addI(int64(stopRet))
	// retained copy-mode slices must still hold what the consumer wrote into them
	for _, em := range log.outs {
		if em.mode == 0 && em.alias != -1 {
			for _, v := range em.kept {
				if v != scribble {
					log.flags = append(log.flags, "copy-slice-modified-after-delivery")
					break
				}
			}
		}
	}
	if len(log.flags) != 0 {
		res.vals = append(res.vals, "flags")
		res.vals = append(res.vals, log.flags...)
	}
	return res
}

// family 5, variants 0 (join) and 1 (unite)
func runJoin(t *testing.T, sc scenario) result {
	js := decodeJoin(sc)
	var res result
	synctest.Test(t, func(t *testing.T) {
		res = runJoinBubble(js)
	})
	return res
}

func runJoinBubble(js joinScenario) result {
	log := &joinLog{tclose: -1, prodSlice: map[unsafe.Pointer]int64{}}
	t0 := time.Now()
	quit := make(chan struct{})
	done := make(chan struct{})
	var (
		out     <-chan []int
		release func() bool
		putItem func(vals []int)
		closeIn func()
		err     error
	)
	if js.variant == 0 {
		input := make(chan int, js.icap)
		dsc, e := join.New(join.Opts[int]{Input: input, JoinSize: js.joinSize, NoCopy: js.noCopy, Timeout: js.timeout, TimeoutInaccuracy: js.inaccuracy})
		err = e
		if e == nil {
			out = dsc.Output()
			release = func() bool { dsc.Release(); return true }
		}
		putItem = func(vals []int) { input <- vals[0] }
		closeIn = func() { close(input) }
	} else {
		input := make(chan []int, js.icap)
		dsc, e := unite.New(unite.Opts[int]{Input: input, JoinSize: js.joinSize, NoCopy: js.noCopy, Timeout: js.timeout, TimeoutInaccuracy: js.inaccuracy})
		err = e
		if e == nil {
			out = dsc.Output()
			release = func() bool { dsc.Release(); return true }
		}
		putItem = func(vals []int) {
			if len(vals) > 0 {
				log.mu.Lock()
				log.prodSlice[basePtr(vals)] = int64(vals[0])
				log.mu.Unlock()
			}
			input <- vals
		}
		closeIn = func() { close(input) }
	}
	if err != nil {
		return okInts(-errCodeJoin(err))
	}
	producerDone := make(chan [2][]int, 1)
	go func() {
		next := 1
		// capExtra == -2: the producer's slices are windows buf[a:b] of ONE backing array (so each has the rest of the array as
		// hidden capacity), laid out in an order that differs from the order in which they are sent (items 2k+1 and 2k+2
		// swapped); the array is compared with what the producer wrote into it at the end
		var block, blockRef []int
		offsets := make([]int, len(js.prod))
		if js.capExtra == -2 {
			layout := make([]int, len(js.prod))
			for i := range layout {
				layout[i] = i
			}
			for i := 1; i+1 < len(layout); i += 3 {
				layout[i], layout[i+1] = layout[i+1], layout[i]
			}
			total := 0
			for _, idx := range layout {
				offsets[idx] = total
				total += int(js.prod[idx][1])
			}
			block = make([]int, total)
			blockRef = make([]int, total)
		}
		for idx, p := range js.prod {
			time.Sleep(time.Duration(p[0]))
			// capExtra == -1: no spare capacity and an empty input slice is a nil slice (an ordinary empty slice)
			var vals []int
			if js.capExtra >= 0 {
				vals = make([]int, p[1], int(p[1])+js.capExtra)
			} else if js.capExtra == -2 {
				vals = block[offsets[idx] : offsets[idx]+int(p[1])]
			} else if p[1] > 0 {
				vals = make([]int, p[1])
			}
			for i := range vals {
				vals[i] = next
				if block != nil {
					blockRef[offsets[idx]+i] = next
				}
				next++
			}
			putItem(vals)
			log.mu.Lock()
			log.puts = append(log.puts, time.Since(t0))
			log.mu.Unlock()
		}
		time.Sleep(js.closeAfter)
		closeIn()
		producerDone <- [2][]int{block, blockRef}
	}()
	go func() {
		consume(log, t0, out, js, release, quit)
		close(done)
	}()
	<-done
	close(quit)
	synctest.Wait()
	select {
	case bb := <-producerDone:
		// what the producer wrote into its own array is still there, except where it was overwritten by a later item of its own
		for i := range bb[0] {
			if bb[0][i] != bb[1][i] {
				log.flag("producer-memory-modified")
				break
			}
		}
	default:
	}
	res := encodeJoin(log, -1, true)
	res.vals = append(res.vals, "goroutines", strconv.Itoa(libGoroutines()))
	return res
}

func errCodeJoin(err error) int64 {
	switch err {
	case join.ErrTimeoutInaccuracyZero, unite.ErrTimeoutInaccuracyZero:
		return 1
	case join.ErrTimeoutInaccuracyTooBig, unite.ErrTimeoutInaccuracyTooBig:
		return 2
	case join.ErrTimeoutTooSmall, unite.ErrTimeoutTooSmall:
		return 3
	default:
		return 98
	}
}
