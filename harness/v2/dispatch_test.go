package harness

import "testing"

func dispatch(t *testing.T, sc scenario) result {
	switch sc.int(0) {
	case 1:
		return runRate(sc)
	case 2:
		return runDivider(sc)
	case 3:
		return runUtils(sc)
	case 4:
		return runNew(sc)
	case 5:
		return runJoin(t, sc)
	case 6:
		return runLimit(t, sc)
	case 7:
		return runPrio2(t, sc)
	case 9:
		return runSimple2(t, sc)
	default:
		return result{verdict: "unknown-family"}
	}
}
