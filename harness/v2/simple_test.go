package harness

import (
	"errors"
	"sort"
	"sync"
	"testing"
	"testing/synctest"
	"time"

	"github.com/akramarenkov/cqos/v2/priority"
	"github.com/akramarenkov/cqos/v2/priority/divider"
	"github.com/akramarenkov/cqos/v2/priority/simple"
)

// family 9: v2 simplified discipline  [9, divider, H, fuel, 2n, (priority buffered)*n, 3m, (code arg settle)*m]
// codes: 1 p put, 2 p close, 4 k let the k-th running Handle call return.  Handle blocks until the driver lets it go.
// per operation: [running Handle calls, total started, k, started items of this operation (sorted)...]; final: [terminated, errcode]
func runSimple2(t *testing.T, sc scenario) result {
	var res result
	synctest.Test(t, func(t *testing.T) {
		res = runSimple2Bubble(sc)
	})
	return res
}

type handleCall struct {
	item uint
	gate chan struct{}
}

func runSimple2Bubble(sc scenario) result {
	kind := sc.int(1)
	handlers := sc.uint(2)
	n := sc.int(4)
	type inputCfg struct {
		ch      chan uint
		pending *sync.WaitGroup
		closed  bool
	}
	inputs := map[uint]*inputCfg{}
	roInputs := map[uint]<-chan uint{}
	order := []uint{}
	for i := 0; i < n; i += 2 {
		p := sc.uint(5 + i)
		capacity := 0
		if sc.int(6+i) != 0 {
			capacity = 3
		}
		ch := make(chan uint, capacity)
		inputs[p] = &inputCfg{ch: ch, pending: &sync.WaitGroup{}}
		roInputs[p] = ch
		order = append(order, p)
	}
	pos := 5 + n
	m := sc.int(pos)
	var dv divider.Divider = divider.Fair
	if kind != 0 {
		dv = divider.Rate
	}
	var (
		mu       sync.Mutex
		running  []*handleCall
		started  []uint
		total    int
		maxRun   int
		doubles  int
		seen     = map[uint]bool{}
		finished int
	)
	handle := func(item uint) {
		call := &handleCall{item: item, gate: make(chan struct{})}
		mu.Lock()
		running = append(running, call)
		started = append(started, item)
		total++
		if seen[item] {
			doubles++
		}
		seen[item] = true
		if len(running) > maxRun {
			maxRun = len(running)
		}
		mu.Unlock()
		<-call.gate
		mu.Lock()
		finished++
		mu.Unlock()
	}
	dsc, err := simple.New(simple.Opts[uint]{Divider: dv, Handle: handle, HandlersQuantity: handlers, Inputs: roInputs})
	swallow := func() {
		for _, p := range order {
			in := inputs[p]
			if !in.closed {
				in.closed = true
				go func() {
					in.pending.Wait()
					close(in.ch)
				}()
			}
			go func() {
				for range in.ch {
				}
			}()
		}
		synctest.Wait()
	}
	if err != nil {
		swallow()
		switch {
		case errors.Is(err, priority.ErrHandlersQuantityZero):
			return okInts(-2)
		case errors.Is(err, priority.ErrInputEmpty):
			return okInts(-3)
		case errors.Is(err, priority.ErrHandlersQuantityTooSmall):
			return okInts(-4)
		default:
			return okInts(-6)
		}
	}
	synctest.Wait()
	res := okInts(0)
	next := uint(1)
	terminated, errCode := false, int64(-1)
	runningAtTermination := -1
	atTermination := 0
	poll := func() {
		if terminated {
			return
		}
		select {
		case e, ok := <-dsc.Err():
			terminated = true
			errCode = 0
			if ok && e != nil {
				errCode = 1
			}
			mu.Lock()
			runningAtTermination = len(running) - 0
			mu.Unlock()
			// quiescent (poll follows synctest.Wait): a terminated discipline has no goroutine left, handlers included
			atTermination = libGoroutines()
		default:
		}
	}
	letGo := func(k int) {
		mu.Lock()
		if len(running) == 0 {
			mu.Unlock()
			return
		}
		sort.Slice(running, func(a, b int) bool { return running[a].item < running[b].item })
		idx := k % len(running)
		call := running[idx]
		running = append(running[:idx], running[idx+1:]...)
		mu.Unlock()
		close(call.gate)
	}
	for i := 0; i < m; i += 3 {
		code, arg := sc.int(pos+1+i), sc.i64(pos+2+i)
		switch code {
		case 1:
			in := inputs[uint(arg)]
			if in != nil && !in.closed {
				v := next
				next++
				in.pending.Add(1)
				go func() {
					in.ch <- v
					in.pending.Done()
				}()
			}
		case 2:
			in := inputs[uint(arg)]
			if in != nil && !in.closed {
				in.closed = true
				go func() {
					in.pending.Wait()
					close(in.ch)
				}()
			}
		case 4:
			letGo(int(arg))
		}
		synctest.Wait()
		time.Sleep(300 * time.Nanosecond)
		synctest.Wait()
		poll()
		mu.Lock()
		res.addI(int64(len(running)))
		res.addI(int64(total))
		seg := append([]uint(nil), started...)
		started = nil
		mu.Unlock()
		sort.Slice(seg, func(a, b int) bool { return seg[a] < seg[b] })
		res.addI(int64(len(seg)))
		for _, v := range seg {
			res.addU(uint64(v))
		}
	}
	res.addI(boolInt(terminated))
	res.addI(errCode)
	mu.Lock()
	res.vals = append(res.vals, "extra", itoa(maxRun), itoa(doubles), itoa(runningAtTermination))
	mu.Unlock()
	// cleanup: close the inputs, let every Handle call return, wait for termination
	for _, p := range order {
		in := inputs[p]
		if !in.closed {
			in.closed = true
			go func() {
				in.pending.Wait()
				close(in.ch)
			}()
		}
	}
	for i := 0; i < 5000 && !terminated; i++ {
		for {
			mu.Lock()
			k := len(running)
			mu.Unlock()
			if k == 0 {
				break
			}
			letGo(0)
		}
		time.Sleep(50 * time.Nanosecond)
		synctest.Wait()
		poll()
	}
	if !terminated {
		res.vals = append(res.vals, "no-termination")
	}
	swallow()
	res.vals = append(res.vals, "goroutines", itoa(max(libGoroutines(), atTermination)))
	return res
}

func itoa(v int) string {
	return okInts(int64(v)).vals[0]
}
