package harness

import (
	"errors"
	"time"

	"github.com/akramarenkov/cqos/v2/priority"
	"github.com/akramarenkov/cqos/v2/priority/divider"
	"github.com/akramarenkov/cqos/v2/priority/utils"
)

func boolInt(v bool) int64 {
	if v {
		return 1
	}

	return 0
}

func dividerOf(kind int) divider.Divider {
	if kind == 0 {
		return divider.Fair
	}

	return divider.Rate
}

// family 3: [3, fn, divider, n, ps.., q (or max), limit_num, limit_den] -> [value]
func runUtils(sc scenario) result {
	fn := sc.int(1)
	dv := dividerOf(sc.int(2))
	priorities, next := sc.list(3)
	quantity := sc.uint(next)
	limit := float64(sc.i64(next+1)) / float64(sc.i64(next+2))

	before := append([]uint(nil), priorities...)

	var res result

	switch fn {
	case 0:
		res = okInts(boolInt(utils.IsNonFatalConfig(priorities, dv, quantity)))
	case 1:
		res = okInts(int64(utils.PickUpMinNonFatalQuantity(priorities, dv, quantity)))
	case 2:
		res = okInts(int64(utils.PickUpMaxNonFatalQuantity(priorities, dv, quantity)))
	case 3:
		res = okInts(boolInt(utils.IsSuitableConfig(priorities, dv, quantity, limit)))
	case 4:
		res = okInts(int64(utils.PickUpMinSuitableQuantity(priorities, dv, quantity, limit)))
	case 5:
		res = okInts(int64(utils.PickUpMaxSuitableQuantity(priorities, dv, quantity, limit)))
	case 7:
		res = okInts(boolInt(utils.IsNonFatalConfig(priorities, dv, quantity)))
		sub := scenario{index: sc.index}
		sub.args = append(sub.args, sc.args[0], sc.args[2], sc.args[next])
		sub.args = append(sub.args, sc.args[3:next]...)
		nr := runNew(sub)
		if nr.verdict != "ok" {
			return nr
		}
		res.vals = append(res.vals, nr.vals...)
	case 8:
		res = okInts(int64(utils.PickUpMinNonFatalQuantity(priorities, dv, quantity)), int64(utils.PickUpMaxNonFatalQuantity(priorities, dv, quantity)))
		for q := uint(1); q <= quantity; q++ {
			res.addI(boolInt(utils.IsNonFatalConfig(priorities, dv, q)))
		}
	case 9:
		res = okInts(int64(utils.PickUpMinSuitableQuantity(priorities, dv, quantity, limit)), int64(utils.PickUpMaxSuitableQuantity(priorities, dv, quantity, limit)))
		for q := uint(1); q <= quantity; q++ {
			res.addI(boolInt(utils.IsSuitableConfig(priorities, dv, q, limit)))
		}
	case 10:
		res = okInts(boolInt(utils.IsNonFatalConfig(priorities, dv, quantity)))
		for _, l := range []float64{0, 1, 2, 5, 10, 20, 33, 50, 75, 100, 101, 150, 400, 100000} {
			res.addI(boolInt(utils.IsSuitableConfig(priorities, dv, quantity, l)))
		}
	default:
		return result{verdict: "unknown-fn"}
	}

	for i := range before {
		if before[i] != priorities[i] {
			return result{verdict: "priorities-mutated"}
		}
	}

	return res
}

// family 4: [4, divider, H, n, ps..] -> [code]; an accepted discipline is terminated by closing its inputs
func runNew(sc scenario) result {
	dv := dividerOf(sc.int(1))
	handlers := sc.uint(2)
	priorities, next := sc.list(3)

	if len(sc.args) >= next+2 {
		// a custom divider that obeys the sum rule but not the order of the shares: the whole increment of the priority at
		// position `from` of the list it is given goes to the priority at position `to`
		base, from, to := dv, sc.int(next), sc.int(next+1)
		dv = func(ps []uint, dividend uint, distribution map[uint]uint) {
			if len(ps) == 0 || distribution == nil {
				base(ps, dividend, distribution)
				return
			}
			pf, pt := ps[from%len(ps)], ps[to%len(ps)]
			before := distribution[pf]
			base(ps, dividend, distribution)
			if pf == pt {
				return
			}
			inc := distribution[pf] - before
			distribution[pf] = before
			distribution[pt] += inc
		}
	}

	inputs := make(map[uint]<-chan int)
	channels := make([]chan int, 0, len(priorities))

	for _, p := range priorities {
		ch := make(chan int)
		inputs[p] = ch
		channels = append(channels, ch)
	}

	dsc, err := priority.New(priority.Opts[int]{Divider: dv, HandlersQuantity: handlers, Inputs: inputs})

	switch {
	case err == nil:
		for _, ch := range channels {
			close(ch)
		}

		finished := make(chan error, 1)

		go func() {
			for range dsc.Output() {
			}

			finished <- <-dsc.Err()
		}()

		select {
		case e := <-finished:
			if e != nil {
				return result{verdict: "error-after-accept"}
			}
		case <-time.After(3 * time.Second):
			// accepted, but the discipline does not terminate although every input is closed and empty
			return okInts(0, 1)
		}

		return okInts(0)
	case errors.Is(err, priority.ErrDividerEmpty):
		return okInts(1)
	case errors.Is(err, priority.ErrHandlersQuantityZero):
		return okInts(2)
	case errors.Is(err, priority.ErrInputEmpty):
		return okInts(3)
	case errors.Is(err, priority.ErrHandlersQuantityTooSmall):
		return okInts(4)
	case errors.Is(err, priority.ErrDividerBad):
		return okInts(5)
	default:
		return okInts(6)
	}
}
