package harness

import (
	"errors"
	"fmt"
	"sort"
	"strings"
	"sync"
	"testing"
	"testing/synctest"
	"time"

	"github.com/akramarenkov/cqos/v2/priority"
	"github.com/akramarenkov/cqos/v2/priority/divider"
)

// divider wrapper: logs the arguments of every call, can make one call misbehave
type dividerProbe struct {
	mu       sync.Mutex
	base     divider.Divider
	count    int
	faultAt  int
	delta    int64
	outside  bool
	all      []uint              // configured priorities, highest first
	seg      map[string]struct{} // distinct calls since the last driver operation
	order    []string
	bad      []string // contract violations seen (arguments not sorted/distinct, nil map)
	noop     bool
	harmless bool // the faulty call had nothing to perturb
}

func (dp *dividerProbe) divide(priorities []uint, dividend uint, distribution map[uint]uint) {
	dp.mu.Lock()
	idx := dp.count
	dp.count++
	parts := make([]string, 0, len(priorities)+2)
	parts = append(parts, fmt.Sprint(dividend), fmt.Sprint(len(priorities)))
	for i, p := range priorities {
		parts = append(parts, fmt.Sprint(p))
		if i > 0 && priorities[i-1] <= p {
			dp.bad = append(dp.bad, "priorities-not-sorted-desc-distinct")
		}
	}
	if distribution == nil {
		dp.bad = append(dp.bad, "nil-distribution")
	}
	key := strings.Join(parts, " ")
	if _, seen := dp.seg[key]; !seen {
		dp.seg[key] = struct{}{}
		dp.order = append(dp.order, key)
	}
	fault := idx == dp.faultAt
	if fault && ((len(priorities) == 0 && !dp.outside) || distribution == nil) {
		dp.noop = true
	}
	delta := dp.delta
	dp.mu.Unlock()

	before := uint(0)
	for _, q := range distribution {
		before += q
	}
	dp.base(priorities, dividend, distribution)

	if fault && (len(priorities) != 0 || dp.outside) && distribution != nil {
		p0 := uint(0)
		if len(priorities) != 0 {
			p0 = priorities[0]
		}
		found := len(priorities) != 0
		if dp.outside {
			for _, q := range dp.all {
				listed := false
				for _, p := range priorities {
					if p == q {
						listed = true
					}
				}
				if !listed {
					p0 = q
					found = true
					break
				}
			}
		}
		if !found {
			return
		}
		if delta >= 0 {
			distribution[p0] += uint(delta)
		} else if distribution[p0] >= uint(-delta) {
			distribution[p0] -= uint(-delta)
		} else {
			distribution[p0] = 0
		}
		after := uint(0)
		for _, q := range distribution {
			after += q
		}
		if after == 0 || after-before == dividend {
			dp.mu.Lock()
			dp.harmless = true // the perturbed result still passes the sum rule (e.g. +H on an empty list with dividend H)
			dp.mu.Unlock()
		}
	}
}

func (dp *dividerProbe) takeSegment() []string {
	dp.mu.Lock()
	defer dp.mu.Unlock()
	out := dp.order
	sort.Strings(out)
	dp.order = nil
	dp.seg = map[string]struct{}{}
	return out
}

const closedMark = 4294967296

// family 7: [7, divider, H, fuel, 2n, (priority buffered)*n, 3m, (code arg settle)*m]
func runPrio2(t *testing.T, sc scenario) result {
	var res result
	synctest.Test(t, func(t *testing.T) {
		res = runPrio2Bubble(sc)
	})
	return res
}

func runPrio2Bubble(sc scenario) result {
	kind := sc.int(1)
	handlers := sc.uint(2)
	n := sc.int(4)
	type inputCfg struct {
		ch      chan uint
		pending *sync.WaitGroup
		closed  bool
	}
	inputs := map[uint]*inputCfg{}
	roInputs := map[uint]<-chan uint{}
	order := []uint{}
	for i := 0; i < n; i += 2 {
		p := sc.uint(5 + i)
		capacity := 0
		if sc.int(6+i) != 0 {
			capacity = 3
		}
		ch := make(chan uint, capacity)
		inputs[p] = &inputCfg{ch: ch, pending: &sync.WaitGroup{}}
		roInputs[p] = ch
		order = append(order, p)
	}
	pos := 5 + n
	m := sc.int(pos)
	next := uint(1)
	first := 0
	for ; first < m && sc.int(pos+1+first) == 6; first += 3 {
		in := inputs[uint(sc.i64(pos+2+first))]
		if in == nil {
			continue
		}
		v := next
		next++
		in.pending.Add(1)
		go func() {
			in.ch <- v
			in.pending.Done()
		}()
		synctest.Wait()
	}
	sortedAll := append([]uint(nil), order...)
	sort.Slice(sortedAll, func(i, j int) bool { return sortedAll[i] > sortedAll[j] })
	probe := &dividerProbe{faultAt: -1, seg: map[string]struct{}{}, all: sortedAll}
	if kind == 0 {
		probe.base = divider.Fair
	} else {
		probe.base = divider.Rate
	}
	swallow := func() {
		// whatever is still waiting in (or for) the inputs is swallowed so that every helper goroutine ends
		for _, p := range order {
			in := inputs[p]
			if !in.closed {
				in.closed = true
				go func() {
					in.pending.Wait()
					close(in.ch)
				}()
			}
			go func() {
				for range in.ch {
				}
			}()
		}
		synctest.Wait()
	}
	dsc, err := priority.New(priority.Opts[uint]{Divider: probe.divide, HandlersQuantity: handlers, Inputs: roInputs})
	if err != nil {
		swallow()
		switch {
		case errors.Is(err, priority.ErrHandlersQuantityZero):
			return okInts(-2)
		case errors.Is(err, priority.ErrInputEmpty):
			return okInts(-3)
		case errors.Is(err, priority.ErrHandlersQuantityTooSmall):
			return okInts(-4)
		case errors.Is(err, priority.ErrDividerBad):
			return okInts(-5)
		default:
			return okInts(-6)
		}
	}
	synctest.Wait()
	probe.takeSegment()
	out := dsc.Output()
	res := okInts(0)
	held := []uint{}
	outClosed := false
	inFlightMax := 0
	settle := func() {
		time.Sleep(200 * time.Nanosecond)
		synctest.Wait()
	}
	// the library's goroutines that still exist at the moment the driver first sees the output closed (the discipline is quiescent
	// then: every driver operation is followed by synctest.Wait): a terminated discipline must have none
	atClose := 0
	take := func() (uint, uint, bool) {
		select {
		case v, ok := <-out:
			if !ok {
				if !outClosed {
					atClose = libGoroutines()
				}
				outClosed = true
				return closedMark, 0, false
			}
			held = append(held, v.Priority)
			return v.Priority, v.Item, true
		default:
			return 0, 0, false
		}
	}
	release := func(k int) {
		if len(held) == 0 {
			return
		}
		idx := k % len(held)
		p := held[idx]
		held = append(held[:idx], held[idx+1:]...)
		go dsc.Release(p)
	}
	for i := first; i < m; i += 3 {
		code, arg, stl := sc.int(pos+1+i), sc.i64(pos+2+i), sc.int(pos+3+i) != 0
		tp, tx := uint(0), uint(0)
		switch code {
		case 1:
			in := inputs[uint(arg)]
			if in != nil && !in.closed {
				v := next
				next++
				in.pending.Add(1)
				go func() {
					in.ch <- v
					in.pending.Done()
				}()
			}
		case 2:
			in := inputs[uint(arg)]
			if in != nil && !in.closed {
				in.closed = true
				go func() {
					in.pending.Wait()
					close(in.ch)
				}()
			}
		case 3:
			tp, tx, _ = take()
		case 4:
			release(int(arg))
		case 5, 7:
			probe.mu.Lock()
			probe.faultAt = probe.count
			probe.delta = arg
			probe.outside = code == 7
			probe.mu.Unlock()
		}
		synctest.Wait()
		if stl {
			settle()
		}
		if len(held)+len(out) > inFlightMax {
			inFlightMax = len(held) + len(out)
		}
		res.addU(uint64(tp))
		res.addU(uint64(tx))
		res.addI(int64(len(out)))
		seg := probe.takeSegment()
		res.addI(int64(len(seg)))
		for _, c := range seg {
			res.vals = append(res.vals, strings.Fields(c)...)
		}
		snapP, snapA, snapS, snapT := dsc.VerifSnapshot()
		appendSnapshot(&res, snapP, snapA, snapS, snapT)
	}
	// final observation: is the output closed, what does Err() yield
	closedFlag, errCode := int64(0), int64(-1)
	if !outClosed && len(out) == 0 {
		select {
		case _, ok := <-out:
			if !ok {
				outClosed = true
				atClose = libGoroutines()
			} else {
				closedFlag = -7 // an item appeared that len() did not show: impossible
			}
		default:
		}
	}
	if outClosed {
		closedFlag = 1
		select {
		case e, ok := <-dsc.Err():
			switch {
			case !ok || e == nil:
				errCode = 0
			case errors.Is(e, priority.ErrDividerBad):
				errCode = 1
			default:
				errCode = 2
			}
		default:
			errCode = -2
		}
	}
	res.addI(closedFlag)
	res.addI(errCode)
	faultHit := 0
	probe.mu.Lock()
	if probe.faultAt >= 0 && probe.count > probe.faultAt {
		faultHit = 1
		if probe.noop {
			faultHit = 2
		} else if probe.harmless {
			faultHit = 4
		}
	}
	probe.mu.Unlock()
	res.vals = append(res.vals, "extra", fmt.Sprint(inFlightMax), fmt.Sprint(len(probe.bad)), fmt.Sprint(faultHit))
	// cleanup (not compared): let the discipline terminate so that the bubble can end
	for _, p := range order {
		in := inputs[p]
		if !in.closed {
			in.closed = true
			go func() {
				in.pending.Wait()
				close(in.ch)
			}()
		}
	}
	for i := 0; i < 5000 && !outClosed; i++ {
		for {
			if _, _, ok := take(); !ok {
				break
			}
		}
		for len(held) > 0 {
			release(0)
		}
		settle()
	}
	if !outClosed {
		res.vals = append(res.vals, "no-termination")
	}
	swallow()
	res.vals = append(res.vals, "goroutines", fmt.Sprint(max(libGoroutines(), atClose)))
	return res
}

// the scheduling state at a quiescent point (hook, build tag verif): for every configured priority (highest first) and
// every other priority that still has items in flight: (priority, actual, strategic)
func appendSnapshot(res *result, priorities []uint, actual, strategic, _ map[uint]uint) {
	listed := map[uint]bool{}
	rows := [][3]uint{}
	for _, p := range priorities {
		listed[p] = true
		rows = append(rows, [3]uint{p, actual[p], strategic[p]})
	}
	extra := []uint{}
	for p, a := range actual {
		if !listed[p] && a != 0 {
			extra = append(extra, p)
		}
	}
	sort.Slice(extra, func(i, j int) bool { return extra[i] > extra[j] })
	for _, p := range extra {
		rows = append(rows, [3]uint{p, actual[p], strategic[p]})
	}
	res.addI(int64(len(rows)))
	for _, r := range rows {
		res.addU(uint64(r[0]))
		res.addU(uint64(r[1]))
		res.addU(uint64(r[2]))
	}
}
