package harness

import (
	"strconv"
	"sync"
	"testing"
	"testing/synctest"
	"time"
	"unsafe"

	"github.com/akramarenkov/cqos/join"
)

type joinScenario struct {
	variant    int
	joinSize   uint
	noCopy     bool
	timeout    time.Duration
	inaccuracy uint
	icap       int
	closeAfter time.Duration
	stopAt     time.Duration
	capExtra   int
	prod       [][2]int64 // (delay, len)
	cons       [][2]int64 // (hold, pause)
}

func decodeJoin(sc scenario) joinScenario {
	js := joinScenario{
		variant:    sc.int(1),
		joinSize:   sc.uint(2),
		noCopy:     sc.int(3) != 0,
		timeout:    time.Duration(sc.i64(4)),
		inaccuracy: sc.uint(5),
		icap:       sc.int(6),
		closeAfter: time.Duration(sc.i64(7)),
		stopAt:     time.Duration(sc.i64(8)),
	}
	js.capExtra = sc.int(10)
	pos := 11
	n := sc.int(pos)
	for i := 0; i < n; i += 2 {
		js.prod = append(js.prod, [2]int64{sc.i64(pos + 1 + i), sc.i64(pos + 2 + i)})
	}
	pos += 1 + n
	m := sc.int(pos)
	for i := 0; i < m; i += 2 {
		js.cons = append(js.cons, [2]int64{sc.i64(pos + 1 + i), sc.i64(pos + 2 + i)})
	}
	return js
}

type emission struct {
	at       time.Duration
	drained  bool
	vals     []int
	ptr      unsafe.Pointer
	kept     []int
	atRecv   []int
	mode     int
	released bool
}

type joinLog struct {
	mu     sync.Mutex
	puts   []time.Duration
	outs   []emission
	tclose time.Duration
	flags  []string
}

func (l *joinLog) flag(s string) {
	l.mu.Lock()
	l.flags = append(l.flags, s)
	l.mu.Unlock()
}

func basePtr(s []int) unsafe.Pointer {
	if cap(s) == 0 {
		return nil
	}
	return unsafe.Pointer(unsafe.SliceData(s))
}

const scribble = -7777

func sleepOrQuit(d time.Duration, quit <-chan struct{}) bool {
	if d <= 0 {
		return true
	}
	select {
	case <-time.After(d):
		return true
	case <-quit:
		return false
	}
}

// family 5, variant 2: v1 join (optionally with a Stop() call at a scripted instant)
func runJoin(t *testing.T, sc scenario) result {
	js := decodeJoin(sc)
	var res result
	synctest.Test(t, func(t *testing.T) {
		res = runJoinBubble(js)
	})
	return res
}

func runJoinBubble(js joinScenario) result {
	log := &joinLog{tclose: -1}
	t0 := time.Now()
	quit := make(chan struct{})
	consDone := make(chan struct{})
	stopDone := make(chan struct{})
	input := make(chan int, js.icap)
	var released chan struct{}
	var releasedRO <-chan struct{}
	if js.noCopy {
		released = make(chan struct{})
		releasedRO = released
	}
	dsc, err := join.New(join.Opts[int]{Input: input, JoinSize: js.joinSize, Released: releasedRO, Timeout: js.timeout, TimeoutInaccuracy: js.inaccuracy})
	if err != nil {
		switch err {
		case join.ErrTimeoutInaccuracyZero:
			return okInts(-1)
		case join.ErrTimeoutInaccuracyTooBig:
			return okInts(-2)
		case join.ErrTimeoutTooSmall:
			return okInts(-3)
		default:
			return okInts(-98)
		}
	}
	out := dsc.Output()
	go func() { // producer
		next := 1
		for _, p := range js.prod {
			if !sleepOrQuit(time.Duration(p[0]), quit) {
				return
			}
			select {
			case input <- next:
			case <-quit:
				return
			}
			next++
			log.mu.Lock()
			log.puts = append(log.puts, time.Since(t0))
			log.mu.Unlock()
		}
		if !sleepOrQuit(js.closeAfter, quit) {
			return
		}
		close(input)
	}()
	go func() { // consumer
		defer close(consDone)
		idx := 0
		for {
			var (
				s  []int
				ok bool
			)
			select {
			case s, ok = <-out:
			case <-quit:
				return
			}
			if !ok {
				log.mu.Lock()
				if log.tclose < 0 {
					log.tclose = time.Since(t0)
				}
				log.mu.Unlock()
				return
			}
			em := emission{at: time.Since(t0), vals: append([]int(nil), s...), ptr: basePtr(s), kept: s, atRecv: append([]int(nil), s...)}
			if js.noCopy {
				em.mode = 1
			}
			log.mu.Lock()
			log.outs = append(log.outs, em)
			emIdx := len(log.outs) - 1
			log.mu.Unlock()
			hold, pause := time.Duration(0), time.Duration(0)
			if idx < len(js.cons) {
				hold, pause = time.Duration(js.cons[idx][0]), time.Duration(js.cons[idx][1])
			}
			idx++
			if !sleepOrQuit(hold, quit) {
				return
			}
			if js.noCopy {
				for i := range s {
					if s[i] != em.atRecv[i] {
						log.flag("nocopy-slice-changed-before-release")
						break
					}
				}
				if len(out) > 0 {
					log.flag("nocopy-output-before-release")
				}
				select {
				case released <- struct{}{}:
					log.mu.Lock()
					log.outs[emIdx].released = true
					log.mu.Unlock()
				case <-quit:
					return
				}
			} else {
				// (the whole capacity: what an append by the consumer may write to)
				full := s[:cap(s)]
				for i := range full {
					full[i] = scribble
				}
				log.mu.Lock()
				log.outs[emIdx].kept = full
				log.mu.Unlock()
			}
			if !sleepOrQuit(pause, quit) {
				return
			}
		}
	}()
	stopRet := time.Duration(-1)
	if js.stopAt >= 0 {
		go func() {
			defer close(stopDone)
			time.Sleep(js.stopAt)
			dsc.Stop()
			log.mu.Lock()
			stopRet = time.Since(t0)
			log.mu.Unlock()
			close(quit) // the regular consumer and the producer give up; the caller of Stop looks at the output itself
			for {
				select {
				case s, ok := <-out:
					if !ok {
						log.mu.Lock()
						if log.tclose < 0 {
							log.tclose = time.Since(t0)
						}
						log.mu.Unlock()
						return
					}
					log.mu.Lock()
					log.outs = append(log.outs, emission{at: time.Since(t0), drained: true, vals: append([]int(nil), s...), ptr: basePtr(s), kept: s, mode: 2})
					log.mu.Unlock()
				default:
					log.flag("output-not-closed-when-stop-returned")
					return
				}
			}
		}()
		<-stopDone
		<-consDone
	} else {
		<-consDone
		close(quit)
	}
	synctest.Wait()
	// a slice delivered in no-copy mode and never released (Stop came first) must never be touched again:
	// give the discipline every opportunity, then re-read
	time.Sleep(10 * js.timeout)
	synctest.Wait()
	log.mu.Lock()
	defer log.mu.Unlock()
	res := okInts(0, 0, 1, int64(len(log.puts)))
	for _, p := range log.puts {
		res.addI(int64(p))
	}
	res.addI(int64(len(log.outs)))
	firstSeen := map[unsafe.Pointer]int{}
	for i, em := range log.outs {
		alias := int64(i)
		if em.drained {
			alias = -1
		} else if j, seen := firstSeen[em.ptr]; seen {
			alias = int64(j)
		} else {
			firstSeen[em.ptr] = i
		}
		res.addI(int64(em.at))
		res.addI(alias)
		res.addI(int64(len(em.vals)))
		for _, v := range em.vals {
			res.addI(int64(v))
		}
	}
	res.addI(int64(log.tclose))
	res.addI(int64(stopRet))
	for _, em := range log.outs {
		switch em.mode {
		case 0:
			for _, v := range em.kept {
				if v != scribble {
					log.flags = append(log.flags, "copy-slice-modified-after-delivery")
					break
				}
			}
		case 1:
			if em.released {
				continue
			}
			for i, v := range em.kept {
				if v != em.atRecv[i] {
					log.flags = append(log.flags, "nocopy-slice-modified-after-delivery")
					break
				}
			}
		}
	}
	if len(log.flags) != 0 {
		res.vals = append(res.vals, "flags")
		res.vals = append(res.vals, log.flags...)
	}
	res.vals = append(res.vals, "goroutines", strconv.Itoa(libGoroutines()))
	return res
}
