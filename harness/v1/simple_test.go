package harness

import (
	"context"
	"fmt"
	"sort"
	"sync"
	"testing"
	"testing/synctest"
	"time"

	"github.com/akramarenkov/cqos/priority"
)

// family 10: v1 simplified discipline (monitor only)
// [10, divider, H, linger, 2n, (priority buffered)*n, 3m, (code arg settle)*m]
// codes: 1 p put, 2 p close, 4 k let the k-th running Handle call (by item order) return, 10 GracefulStop, 11 Stop, 12 cancel.
// Handle honours its context: it returns `linger` fake ns after the context is done.
// per operation: [running, total, terminated, stops returned, graceful returned, library goroutines left when a stop call returned (max so far, -1 none yet), k, started items..]
func runSimple1(t *testing.T, sc scenario) result {
	var res result
	synctest.Test(t, func(t *testing.T) {
		res = runSimple1Bubble(sc)
	})
	return res
}

type handleCall1 struct {
	item uint
	gate chan struct{}
}

func runSimple1Bubble(sc scenario) result {
	kind := sc.int(1)
	handlers := sc.uint(2)
	linger := time.Duration(sc.i64(3))
	n := sc.int(4)
	type inputCfg struct {
		ch      chan uint
		pending *sync.WaitGroup
		closed  bool
	}
	inputs := map[uint]*inputCfg{}
	roInputs := map[uint]<-chan uint{}
	order := []uint{}
	for i := 0; i < n; i += 2 {
		p := sc.uint(5 + i)
		capacity := 0
		if sc.int(6+i) != 0 {
			capacity = 3
		}
		ch := make(chan uint, capacity)
		inputs[p] = &inputCfg{ch: ch, pending: &sync.WaitGroup{}}
		roInputs[p] = ch
		order = append(order, p)
	}
	pos := 5 + n
	m := sc.int(pos)
	dv := priority.FairDivider
	if kind%2 != 0 {
		dv = priority.RateDivider
	}
	if kind >= 2 {
		// a divider that breaks the sum rule from its k-th call on (k = 3 + (kind-2)/2): the discipline ends by itself
		base, faultFrom, callNo := dv, 3+(kind-2)/2, 0
		var dmu sync.Mutex
		dv = func(priorities []uint, dividend uint, distribution map[uint]uint) map[uint]uint {
			dmu.Lock()
			callNo++
			bad := callNo >= faultFrom
			dmu.Unlock()
			out := base(priorities, dividend, distribution)
			if bad && len(priorities) != 0 && out != nil {
				out[priorities[0]]++
			}
			return out
		}
	}
	var (
		mu          sync.Mutex
		running     []*handleCall1
		started     []uint
		total       int
		maxRun      int
		doubles     int
		seen        = map[uint]bool{}
		stopsRet    int
		gracefulRet int
		leakedMax   = -1
		runAtStop   = -1
		lateHandles int
		stopSeen    bool
	)
	handle := func(ctx context.Context, item uint) {
		call := &handleCall1{item: item, gate: make(chan struct{})}
		mu.Lock()
		running = append(running, call)
		started = append(started, item)
		total++
		if seen[item] {
			doubles++
		}
		seen[item] = true
		if stopSeen {
			lateHandles++
		}
		if len(running) > maxRun {
			maxRun = len(running)
		}
		mu.Unlock()
		select {
		case <-call.gate:
		case <-ctx.Done():
			time.Sleep(linger)
		}
		mu.Lock()
		for i, c := range running {
			if c == call {
				running = append(running[:i], running[i+1:]...)
				break
			}
		}
		mu.Unlock()
	}
	ctx, cancel := context.WithCancel(context.Background())
	defer cancel()
	smpl, err := priority.NewSimple(priority.SimpleOpts[uint]{Ctx: ctx, Divider: dv, Handle: handle, HandlersQuantity: handlers, Inputs: roInputs})
	swallow := func() {
		for _, p := range order {
			in := inputs[p]
			if !in.closed {
				in.closed = true
				go func() {
					in.pending.Wait()
					close(in.ch)
				}()
			}
			go func() {
				for range in.ch {
				}
			}()
		}
		synctest.Wait()
	}
	if err != nil {
		swallow()
		return okInts(-6)
	}
	synctest.Wait()
	res := okInts(0)
	next := uint(1)
	terminated := false
	poll := func() {
		if terminated {
			return
		}
		select {
		case _, ok := <-smpl.Err():
			if !ok {
				terminated = true
			}
		default:
		}
	}
	// what is observed at the instant a Stop()/GracefulStop() call returns
	atReturn := func(graceful bool) {
		mu.Lock()
		if graceful {
			gracefulRet++
		} else {
			stopsRet++
		}
		stopSeen = true
		if len(running) > runAtStop {
			runAtStop = len(running)
		}
		mu.Unlock()
	}
	var calls sync.WaitGroup
	letGo := func(k int) {
		mu.Lock()
		if len(running) == 0 {
			mu.Unlock()
			return
		}
		sort.Slice(running, func(a, b int) bool { return running[a].item < running[b].item })
		call := running[k%len(running)]
		mu.Unlock()
		select {
		case <-call.gate:
		default:
			close(call.gate)
		}
	}
	for i := 0; i < m; i += 3 {
		code, arg, stl := sc.int(pos+1+i), sc.i64(pos+2+i), sc.int(pos+3+i) != 0
		switch code {
		case 1:
			in := inputs[uint(arg)]
			if in != nil && !in.closed {
				v := next
				next++
				in.pending.Add(1)
				go func() {
					in.ch <- v
					in.pending.Done()
				}()
			}
		case 2:
			in := inputs[uint(arg)]
			if in != nil && !in.closed {
				in.closed = true
				go func() {
					in.pending.Wait()
					close(in.ch)
				}()
			}
		case 4:
			letGo(int(arg))
		case 10:
			calls.Add(1)
			go func() {
				defer calls.Done()
				smpl.GracefulStop()
				atReturn(true)
			}()
		case 11:
			calls.Add(1)
			go func() {
				defer calls.Done()
				smpl.Stop()
				atReturn(false)
			}()
		case 12:
			cancel()
		}
		synctest.Wait()
		// Err() closed is the discipline's announcement that it has terminated: at this quiescent point nothing it started may be left
		poll()
		mu.Lock()
		if stopSeen || terminated {
			// a stop call has returned (or termination was announced) and everything has settled: whatever the library started
			// and is still there, remains
			if l := libGoroutines(); l > leakedMax {
				leakedMax = l
			}
		}
		mu.Unlock()
		if stl {
			// a Handle call that honours its context needs `linger` to wind down
			time.Sleep(linger + 300*time.Nanosecond)
			synctest.Wait()
		}
		poll()
		mu.Lock()
		res.addI(int64(len(running)))
		res.addI(int64(total))
		res.addI(boolInt(terminated))
		res.addI(int64(stopsRet))
		res.addI(int64(gracefulRet))
		res.addI(int64(leakedMax))
		seg := append([]uint(nil), started...)
		started = nil
		mu.Unlock()
		sort.Slice(seg, func(a, b int) bool { return seg[a] < seg[b] })
		res.addI(int64(len(seg)))
		for _, v := range seg {
			res.addU(uint64(v))
		}
	}
	mu.Lock()
	res.vals = append(res.vals, "extra", fmt.Sprint(maxRun), fmt.Sprint(doubles), fmt.Sprint(runAtStop), fmt.Sprint(lateHandles))
	mu.Unlock()
	// cleanup
	cancel()
	for i := 0; i < 200; i++ {
		mu.Lock()
		k := len(running)
		mu.Unlock()
		if k == 0 {
			break
		}
		letGo(0)
		synctest.Wait()
	}
	time.Sleep(linger + 500*time.Nanosecond)
	synctest.Wait()
	poll()
	if !terminated {
		res.vals = append(res.vals, "no-termination")
	}
	final := libGoroutines()
	res.vals = append(res.vals, "final-goroutines", fmt.Sprint(final))
	swallow()
	calls.Wait()
	return res
}
