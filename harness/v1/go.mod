module verif/harness/v1

go 1.26

require github.com/akramarenkov/cqos v1.0.0

replace github.com/akramarenkov/cqos => /repo
