package harness

import (
	"context"
	"os"
	"strconv"
	"sync"
	"testing"
	"time"

	"github.com/akramarenkov/cqos/join"
	"github.com/akramarenkov/cqos/priority"
)

func stressRounds() int {
	n, _ := strconv.Atoi(os.Getenv("VERIF_STRESS"))
	if n <= 0 {
		n = 3
	}
	return n
}

// v1 priority with the control methods called from other goroutines while handlers receive and feed back
func TestStressPriorityV1(t *testing.T) {
	for round := 0; round < stressRounds(); round++ {
		for _, ending := range []string{"graceful", "stop", "cancel"} {
			ctx, cancel := context.WithCancel(context.Background())
			in1, in2, in3 := make(chan int, 2), make(chan int), make(chan int, 1)
			out := make(chan priority.Prioritized[int], 3)
			fb := make(chan uint, 3)
			// the map handed to New stays the caller's: it keeps reading (and, at the end, checks) it while inputs are added and removed
			userInputs := map[uint]<-chan int{3: in1, 2: in2}
			dsc, err := priority.New(priority.Opts[int]{Ctx: ctx, Divider: priority.RateDivider, Feedback: fb, HandlersQuantity: 12,
				Inputs: userInputs, Output: out})
			if err != nil {
				t.Fatal(err)
			}
			quit := make(chan struct{})
			var reader sync.WaitGroup
			reader.Add(1)
			go func() {
				defer reader.Done()
				for {
					n := 0
					for range userInputs {
						n++
					}
					if n != 2 {
						t.Errorf("the caller's Inputs map has %d entries, it was created with 2", n)
						return
					}
					select {
					case <-quit:
						return
					default:
						time.Sleep(20 * time.Microsecond)
					}
				}
			}()
			var producers, handlers sync.WaitGroup
			produce := func(ch chan int) {
				defer producers.Done()
				defer close(ch)
				for i := 0; i < 200; i++ {
					select {
					case ch <- i:
					case <-quit:
						return
					}
				}
			}
			producers.Add(3)
			go produce(in1)
			go produce(in2)
			go produce(in3)
			for h := 0; h < 12; h++ {
				handlers.Add(1)
				go func() {
					defer handlers.Done()
					for {
						select {
						case item := <-out:
							select {
							case fb <- item.Priority:
							case <-quit:
								return
							}
						case <-quit:
							return
						}
					}
				}()
			}
			time.Sleep(200 * time.Microsecond)
			dsc.AddInput(in3, 1)
			time.Sleep(100 * time.Microsecond)
			dsc.RemoveInput(2)
			dsc.AddInput(in2, 2)
			switch ending {
			case "graceful":
				producers.Wait()
				dsc.GracefulStop()
			case "stop":
				dsc.Stop()
			case "cancel":
				cancel()
				<-dsc.Err()
			}
			close(quit)
			handlers.Wait()
			producers.Wait()
			reader.Wait()
			cancel()
		}
	}
}

func TestStressSimpleV1(t *testing.T) {
	for round := 0; round < stressRounds(); round++ {
		for _, ending := range []string{"graceful", "stop"} {
			in1, in2 := make(chan int, 2), make(chan int)
			var mu sync.Mutex
			handled := 0
			smpl, err := priority.NewSimple(priority.SimpleOpts[int]{Divider: priority.FairDivider, HandlersQuantity: 7,
				Inputs: map[uint]<-chan int{2: in1, 1: in2}, Handle: func(ctx context.Context, item int) {
					mu.Lock()
					handled++
					mu.Unlock()
				}})
			if err != nil {
				t.Fatal(err)
			}
			quit := make(chan struct{})
			var producers sync.WaitGroup
			for _, ch := range []chan int{in1, in2} {
				producers.Add(1)
				go func(ch chan int) {
					defer producers.Done()
					defer close(ch)
					for i := 0; i < 300; i++ {
						select {
						case ch <- i:
						case <-quit:
							return
						}
					}
				}(ch)
			}
			if ending == "graceful" {
				producers.Wait()
				smpl.GracefulStop()
				mu.Lock()
				if handled != 600 {
					t.Fatalf("handled %d of 600", handled)
				}
				mu.Unlock()
			} else {
				time.Sleep(100 * time.Microsecond)
				go smpl.Stop()
				smpl.Stop()
			}
			close(quit)
			producers.Wait()
		}
	}
}

func TestStressJoinV1(t *testing.T) {
	for round := 0; round < stressRounds(); round++ {
		for _, noCopy := range []bool{false, true} {
			input := make(chan int, 2)
			var released chan struct{}
			var releasedRO <-chan struct{}
			if noCopy {
				released = make(chan struct{})
				releasedRO = released
			}
			dsc, err := join.New(join.Opts[int]{Input: input, JoinSize: 4, Released: releasedRO, Timeout: 40 * time.Millisecond})
			if err != nil {
				t.Fatal(err)
			}
			quit := make(chan struct{})
			go func() {
				for i := 0; ; i++ {
					select {
					case input <- i:
					case <-quit:
						return
					}
				}
			}()
			kept := [][]int{}
			n := 0
			for s := range dsc.Output() {
				n++
				if noCopy {
					if n == 40 {
						// Stop() arrives while the slice is not released: it must never be touched again
						// (the consumer owns the slice until it releases it: it keeps writing into it while Stop() runs, so that
						// the race detector sees any access the discipline still makes)
						stopped := make(chan struct{})
						go func() {
							dsc.Stop()
							close(stopped)
						}()
						deadline := time.Now().Add(3 * time.Millisecond)
						for time.Now().Before(deadline) {
							for i := range s {
								s[i] = -2
							}
						}
						<-stopped
						time.Sleep(time.Millisecond)
						for i := range s {
							if s[i] != -2 {
								t.Fatal("unreleased slice modified after Stop")
							}
						}
						break
					}
					released <- struct{}{}
				} else {
					s = s[:cap(s)] // the consumer owns a copy-mode slice, spare capacity included
					for i := range s {
						s[i] = -1
					}
					kept = append(kept, s)
					if n == 40 {
						go dsc.Stop()
					}
				}
			}
			close(quit)
			for _, s := range kept {
				for _, v := range s {
					if v != -1 {
						t.Fatal("a retained copy-mode slice was modified")
					}
				}
			}
		}
	}
}

// The pure functions (dividers, handler-quantity helpers) called from many goroutines at once, each on its own arguments: no shared
// state may exist behind them (C20), and every concurrent result equals the sequential one.
func TestStressPureV1(t *testing.T) {
	for round := 0; round < stressRounds(); round++ {
		priorities := []uint{70, 20, 10, 5, 1}
		seqFair := priority.FairDivider(priorities, 1000+uint(round), nil)
		seqRate := priority.RateDivider(priorities, 1000+uint(round), nil)
		seqNonFatal := priority.IsNonFatalConfig(priorities, priority.RateDivider, 200)
		seqMin := priority.PickUpMinNonFatalQuantity(priorities, priority.RateDivider, 300)
		var wg sync.WaitGroup
		for g := 0; g < 16; g++ {
			wg.Add(1)
			go func(g int) {
				defer wg.Done()
				for rep := 0; rep < 200; rep++ {
					f := priority.FairDivider(priorities, 1000+uint(round), nil)
					r := priority.RateDivider(priorities, 1000+uint(round), map[uint]uint{})
					for _, p := range priorities {
						if f[p] != seqFair[p] || r[p] != seqRate[p] {
							t.Errorf("concurrent divider result differs from the sequential one")
							return
						}
					}
					if g%4 == 0 && rep%50 == 0 {
						if priority.IsNonFatalConfig(priorities, priority.RateDivider, 200) != seqNonFatal ||
							priority.PickUpMinNonFatalQuantity(priorities, priority.RateDivider, 300) != seqMin {
							t.Errorf("concurrent helper result differs from the sequential one")
							return
						}
						_ = priority.IsSuitableConfig(priorities, priority.FairDivider, 200, 10)
					}
				}
			}(g)
		}
		wg.Wait()
	}
}
