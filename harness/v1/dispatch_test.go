package harness

import "testing"

func dispatch(t *testing.T, sc scenario) result {
	switch sc.int(0) {
	case 2:
		return runDivider(sc)
	case 3:
		return runUtils(sc)
	default:
		return result{verdict: "unknown-family"}
	}
}
