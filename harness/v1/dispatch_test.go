package harness

import "testing"

func dispatch(t *testing.T, sc scenario) result {
	switch sc.int(0) {
	case 2:
		return runDivider(sc)
	case 3:
		return runUtils(sc)
	case 5:
		return runJoin(t, sc)
	case 8:
		return runPrio1(t, sc)
	case 10:
		return runSimple1(t, sc)
	default:
		return result{verdict: "unknown-family"}
	}
}
