package harness

import (
	"sort"

	"github.com/akramarenkov/cqos/priority"
)

// decodes  n x1..xn  starting at position k; returns the values and the next position
func (s scenario) list(k int) ([]uint, int) {
	n := s.int(k)
	out := make([]uint, 0, n)
	for i := 0; i < n; i++ {
		out = append(out, s.uint(k+1+i))
	}
	return out, k + 1 + n
}

func encodeDist(res *result, dist map[uint]uint) {
	keys := make([]uint, 0, len(dist))
	for k := range dist {
		keys = append(keys, k)
	}
	sort.Slice(keys, func(i, j int) bool { return keys[i] < keys[j] })
	for _, k := range keys {
		res.addU(uint64(k))
		res.addU(uint64(dist[k]))
	}
}

// family 2: [2, which, nil?, dividend, n, ps.., 2k, (key val)..] -> [isnil, key, val, ...] (keys ascending)
func runDivider(sc scenario) result {
	which := sc.int(1)
	isNil := sc.int(2) != 0
	dividend := sc.uint(3)
	priorities, next := sc.list(4)
	kv, _ := sc.list(next)

	var dist map[uint]uint
	if !isNil {
		dist = make(map[uint]uint)
		// same order of insertion as the model: later pairs first, so the first pair wins on duplicates
		for i := len(kv) - 2; i >= 0; i -= 2 {
			dist[kv[i]] = kv[i+1]
		}
	}

	before := append([]uint(nil), priorities...)
	// the divider contract: a non-nil distribution "must be updated and returned"; the caller's own map is what C14
	// observes before and after the call (an empty non-nil map included)
	passed := dist

	switch which {
	case 2:
		dist = priority.FairDivider(priorities, dividend, dist)
	case 3:
		dist = priority.RateDivider(priorities, dividend, dist)
	default:
		return result{verdict: "unknown-divider"}
	}

	for i := range before {
		if before[i] != priorities[i] {
			return result{verdict: "priorities-mutated"}
		}
	}

	if dist == nil {
		return okInts(1)
	}

	if passed != nil {
		if len(passed) != len(dist) {
			return result{verdict: "passed-distribution-not-updated"}
		}
		for k, v := range dist {
			if got, ok := passed[k]; !ok || got != v {
				return result{verdict: "passed-distribution-not-updated"}
			}
		}
	}

	res := okInts(0)
	encodeDist(&res, dist)

	return res
}
