package harness

import (
	"context"
	"errors"
	"fmt"
	"sort"
	"strings"
	"sync"
	"testing"
	"testing/synctest"
	"time"

	"github.com/akramarenkov/cqos/priority"
)

type dividerProbe struct {
	mu       sync.Mutex
	base     priority.Divider
	count    int
	faultAt  int
	delta    int64
	outside  bool
	noop     bool
	harmless bool
	onNil    bool
	handlers uint
	pending  func() int
	all      func() []uint
	seg      map[string]struct{}
	order    []string
	bad      []string
}

func (dp *dividerProbe) divide(priorities []uint, dividend uint, distribution map[uint]uint) map[uint]uint {
	dp.mu.Lock()
	idx := dp.count
	dp.count++
	parts := make([]string, 0, len(priorities)+2)
	parts = append(parts, fmt.Sprint(dividend), fmt.Sprint(len(priorities)))
	for i, p := range priorities {
		parts = append(parts, fmt.Sprint(p))
		if i > 0 && priorities[i-1] <= p {
			dp.bad = append(dp.bad, "priorities-not-sorted-desc-distinct")
		}
	}
	key := strings.Join(parts, " ")
	if _, seen := dp.seg[key]; !seen {
		dp.seg[key] = struct{}{}
		dp.order = append(dp.order, key)
	}
	fault := idx == dp.faultAt
	if fault && distribution == nil {
		// the unchecked recomputation of the strategic distribution (nil map, HandlersQuantity among ALL registered priorities)
		// is not a division made for a round; a nil-map call over a proper subset of them is
		whole := dividend == dp.handlers
		if whole {
			reg := dp.all()
			if len(reg) != len(priorities) && len(reg) != 0 && (dp.pending == nil || dp.pending() == 0) {
				whole = false // (while an AddInput / RemoveInput is pending the driver's view of the registration may lag)
			}
		}
		if whole {
			dp.onNil = true
		}
	}
	delta := dp.delta
	outside := dp.outside
	dp.mu.Unlock()

	before := uint(0)
	for _, q := range distribution {
		before += q
	}
	res := dp.base(priorities, dividend, distribution)

	if fault {
		if res == nil {
			if distribution != nil {
				res = distribution
			} else {
				res = map[uint]uint{}
			}
		}
		p0, found := uint(0), false
		if len(priorities) != 0 {
			p0, found = priorities[0], true
		}
		if outside {
			for _, q := range dp.all() {
				listed := false
				for _, p := range priorities {
					if p == q {
						listed = true
					}
				}
				if !listed {
					p0, found = q, true
					break
				}
			}
		}
		if !found {
			dp.mu.Lock()
			dp.noop = true
			dp.mu.Unlock()
			return res
		}
		if delta >= 0 {
			res[p0] += uint(delta)
		} else if res[p0] >= uint(-delta) {
			res[p0] -= uint(-delta)
		} else {
			res[p0] = 0
		}
		after := uint(0)
		for _, q := range res {
			after += q
		}
		if after == 0 || after-before == dividend {
			dp.mu.Lock()
			dp.harmless = true
			dp.mu.Unlock()
		}
	}
	return res
}

func (dp *dividerProbe) takeSegment() []string {
	dp.mu.Lock()
	defer dp.mu.Unlock()
	out := dp.order
	sort.Strings(out)
	dp.order = nil
	dp.seg = map[string]struct{}{}
	return out
}

// family 8: [8, divider, H, fuel, ocap, fixed, 2n, (priority channel)*n, 4m, (code a b settle)*m]
func runPrio1(t *testing.T, sc scenario) result {
	var res result
	synctest.Test(t, func(t *testing.T) {
		res = runPrio1Bubble(sc)
	})
	return res
}

type inputChan struct {
	ch      chan uint
	pending *sync.WaitGroup
	closed  bool
	done    *int64 // puts completed (under mu)
}

func runPrio1Bubble(sc scenario) result {
	kind := sc.int(1)
	handlers := sc.uint(2)
	ocap := sc.int(4)
	n := sc.int(6)
	chans := map[int]*inputChan{}
	chanIDs := []int{}
	var putMu sync.Mutex
	getChan := func(id int) *inputChan {
		if c, ok := chans[id]; ok {
			return c
		}
		capacity := 3
		if id >= 1000 {
			capacity = 0
		}
		c := &inputChan{ch: make(chan uint, capacity), pending: &sync.WaitGroup{}, done: new(int64)}
		chans[id] = c
		chanIDs = append(chanIDs, id)
		return c
	}
	inputs := map[uint]<-chan uint{}
	var regMu sync.Mutex
	registered := map[uint]bool{}
	for i := 0; i < n; i += 2 {
		p := sc.uint(7 + i)
		inputs[p] = getChan(sc.int(8 + i)).ch
		registered[p] = true
	}
	pos := 7 + n
	m := sc.int(pos)
	probe := &dividerProbe{faultAt: -1, seg: map[string]struct{}{}, handlers: handlers}
	probe.all = func() []uint {
		regMu.Lock()
		defer regMu.Unlock()
		out := []uint{}
		for p, ok := range registered {
			if ok {
				out = append(out, p)
			}
		}
		sort.Slice(out, func(i, j int) bool { return out[i] > out[j] })
		return out
	}
	if kind == 0 {
		probe.base = priority.FairDivider
	} else {
		probe.base = priority.RateDivider
	}
	// leading operations with code 6: items written before the discipline is created (writers block as needed)
	next := uint(1)
	first := 0
	for first < m && sc.int(pos+1+first) == 6 {
		in := getChan(int(sc.i64(pos + 2 + first)))
		v := next
		next++
		in.pending.Add(1)
		go func() {
			in.ch <- v
			putMu.Lock()
			*in.done++
			putMu.Unlock()
			in.pending.Done()
		}()
		synctest.Wait()
		first += 4
	}
	output := make(chan priority.Prioritized[uint], ocap)
	feedback := make(chan uint, ocap)
	ctx, cancel := context.WithCancel(context.Background())
	defer cancel()
	dsc, err := priority.New(priority.Opts[uint]{Ctx: ctx, Divider: probe.divide, Feedback: feedback, HandlersQuantity: handlers, Inputs: inputs, Output: output})
	if err != nil {
		if errors.Is(err, priority.ErrHandlersQuantityZero) {
			return okInts(-2)
		}
		return okInts(-6)
	}
	synctest.Wait()
	probe.takeSegment()
	res := okInts(0)
	held := []uint{}
	var pendingCmds sync.WaitGroup
	pend := 0
	var pendMu sync.Mutex
	probe.pending = func() int {
		pendMu.Lock()
		defer pendMu.Unlock()
		return pend
	}
	done := false
	errCode := int64(0)
	inFlightMax := 0
	lateWrites := 0
	pollDone := func() {
		for i := 0; i < 2 && !done; i++ {
			select {
			case e, ok := <-dsc.Err():
				if !ok {
					done = true
				} else if e != nil {
					switch {
					case errors.Is(e, priority.ErrDividerBad):
						errCode = 1
					case errors.Is(e, priority.ErrQuantityExceeded):
						errCode = 2
					default:
						errCode = 3
					}
				}
			default:
			}
		}
	}
	settle := func() {
		time.Sleep(200 * time.Nanosecond)
		synctest.Wait()
	}
	stopReturned, gracefulReturned := false, false
	lenAtStop := -1
	for i := first; i < m; i += 4 {
		code, a, b, stl := sc.int(pos+1+i), sc.i64(pos+2+i), sc.i64(pos+3+i), sc.int(pos+4+i) != 0
		tp, tx := uint(0), uint(0)
		switch code {
		case 1:
			in := getChan(int(a))
			if !in.closed {
				v := next
				next++
				in.pending.Add(1)
				go func() {
					in.ch <- v
					putMu.Lock()
					*in.done++
					putMu.Unlock()
					in.pending.Done()
				}()
			}
		case 2:
			in := getChan(int(a))
			if !in.closed {
				in.closed = true
				go func() {
					in.pending.Wait()
					close(in.ch)
				}()
			}
		case 3:
			select {
			case v := <-output:
				held = append(held, v.Priority)
				tp, tx = v.Priority, v.Item
			default:
			}
		case 4:
			if len(held) != 0 {
				idx := int(a) % len(held)
				p := held[idx]
				held = append(held[:idx], held[idx+1:]...)
				go func() { feedback <- p }()
			}
		case 5, 7:
			probe.mu.Lock()
			probe.faultAt = probe.count
			probe.delta = a
			probe.outside = code == 7
			probe.mu.Unlock()
		case 8:
			if !done {
				in := getChan(int(a))
				p := uint(b)
				pendMu.Lock()
				pend++
				pendMu.Unlock()
				pendingCmds.Add(1)
				regMu.Lock()
				registered[p] = true
				regMu.Unlock()
				go func() {
					defer pendingCmds.Done()
					defer func() {
						// a call still waiting when the discipline terminates panics (send on closed channel): API misuse
						// outside the properties; it counts as returned
						_ = recover()
						pendMu.Lock()
						pend--
						pendMu.Unlock()
					}()
					dsc.AddInput(in.ch, p)
				}()
			}
		case 9:
			if !done {
				p := uint(a)
				pendMu.Lock()
				pend++
				pendMu.Unlock()
				pendingCmds.Add(1)
				regMu.Lock()
				registered[p] = false
				regMu.Unlock()
				go func() {
					defer pendingCmds.Done()
					defer func() {
						_ = recover()
						pendMu.Lock()
						pend--
						pendMu.Unlock()
					}()
					dsc.RemoveInput(p)
				}()
			}
		case 10:
			go func() {
				dsc.GracefulStop()
				pendMu.Lock()
				gracefulReturned = true
				pendMu.Unlock()
			}()
		case 11:
			go func() {
				dsc.Stop()
				pendMu.Lock()
				stopReturned = true
				pendMu.Unlock()
			}()
		case 12:
			cancel()
		}
		synctest.Wait()
		if stl {
			settle()
		}
		pollDone()
		if done && lenAtStop < 0 {
			lenAtStop = len(output) + len(held) // nothing may be written to the output after termination
		}
		if done && lenAtStop >= 0 && code != 3 && code != 4 && len(output)+len(held) > lenAtStop {
			lateWrites++
		}
		if len(held)+len(output) > inFlightMax {
			inFlightMax = len(held) + len(output)
		}
		pendMu.Lock()
		pendNow := pend
		pendMu.Unlock()
		res.addU(uint64(tp))
		res.addU(uint64(tx))
		res.addI(int64(len(output)))
		res.addI(int64(pendNow))
		res.addI(boolInt(done))
		seg := probe.takeSegment()
		res.addI(int64(len(seg)))
		for _, c := range seg {
			res.vals = append(res.vals, strings.Fields(c)...)
		}
		// how many items the discipline has taken from each input channel so far
		ids := append([]int(nil), chanIDs...)
		sort.Ints(ids)
		res.addI(int64(len(ids)))
		putMu.Lock()
		for _, id := range ids {
			res.addI(int64(id))
			res.addI(*chans[id].done - int64(len(chans[id].ch)))
		}
		putMu.Unlock()
		snapP, snapA, snapS, snapT := dsc.VerifSnapshot()
		appendSnapshot(&res, snapP, snapA, snapS, snapT)
	}
	res.addI(boolInt(done))
	if done {
		res.addI(errCode)
	} else {
		res.addI(-1)
	}
	res.addI(0) // the model reports here whether some select had several ready alternatives
	faultHit := 0
	probe.mu.Lock()
	if probe.faultAt >= 0 && probe.count > probe.faultAt {
		faultHit = 1
		if probe.noop {
			faultHit = 2
		} else if probe.harmless {
			faultHit = 4
		} else if probe.onNil {
			faultHit = 3
		}
	}
	nbad := len(probe.bad)
	probe.mu.Unlock()
	pendMu.Lock()
	sr, gr := stopReturned, gracefulReturned
	pendMu.Unlock()
	res.vals = append(res.vals, "extra", fmt.Sprint(inFlightMax), fmt.Sprint(nbad), fmt.Sprint(faultHit), fmt.Sprint(boolInt(sr)), fmt.Sprint(boolInt(gr)), fmt.Sprint(lateWrites))
	// cleanup (not compared): stop the discipline and swallow whatever is left so that every goroutine ends
	if !done {
		cancel()
		settle()
		pollDone()
		if !done {
			res.vals = append(res.vals, "no-termination")
		}
	}
	for _, in := range chans {
		in := in
		if !in.closed {
			in.closed = true
			go func() {
				in.pending.Wait()
				close(in.ch)
			}()
		}
		go func() {
			for range in.ch {
			}
		}()
	}
	quit := make(chan struct{})
	go func() {
		for {
			select {
			case <-feedback:
			case <-output:
			case <-quit:
				return
			}
		}
	}()
	synctest.Wait()
	pendingCmds.Wait()
	close(quit)
	synctest.Wait()
	res.vals = append(res.vals, "goroutines", fmt.Sprint(libGoroutines()))
	return res
}

func appendSnapshot(res *result, priorities []uint, actual, strategic, _ map[uint]uint) {
	listed := map[uint]bool{}
	rows := [][3]uint{}
	for _, p := range priorities {
		listed[p] = true
		rows = append(rows, [3]uint{p, actual[p], strategic[p]})
	}
	extra := []uint{}
	for p, a := range actual {
		if !listed[p] && a != 0 {
			extra = append(extra, p)
		}
	}
	sort.Slice(extra, func(i, j int) bool { return extra[i] > extra[j] })
	for _, p := range extra {
		rows = append(rows, [3]uint{p, actual[p], strategic[p]})
	}
	res.addI(int64(len(rows)))
	for _, r := range rows {
		res.addU(uint64(r[0]))
		res.addU(uint64(r[1]))
		res.addU(uint64(r[2]))
	}
}
