package harness

import (
	"github.com/akramarenkov/cqos/priority"
)

func boolInt(v bool) int64 {
	if v {
		return 1
	}

	return 0
}

func dividerOf(kind int) priority.Divider {
	if kind == 0 {
		return priority.FairDivider
	}

	return priority.RateDivider
}

// family 3: [3, fn, divider, n, ps.., q (or max), limit_num, limit_den] -> [value]
func runUtils(sc scenario) result {
	fn := sc.int(1)
	dv := dividerOf(sc.int(2))
	priorities, next := sc.list(3)
	quantity := sc.uint(next)
	limit := float64(sc.i64(next+1)) / float64(sc.i64(next+2))

	before := append([]uint(nil), priorities...)

	var res result

	switch fn {
	case 0:
		res = okInts(boolInt(priority.IsNonFatalConfig(priorities, dv, quantity)))
	case 1:
		res = okInts(int64(priority.PickUpMinNonFatalQuantity(priorities, dv, quantity)))
	case 2:
		res = okInts(int64(priority.PickUpMaxNonFatalQuantity(priorities, dv, quantity)))
	case 3:
		res = okInts(boolInt(priority.IsSuitableConfig(priorities, dv, quantity, limit)))
	case 4:
		res = okInts(int64(priority.PickUpMinSuitableQuantity(priorities, dv, quantity, limit)))
	case 5:
		res = okInts(int64(priority.PickUpMaxSuitableQuantity(priorities, dv, quantity, limit)))
	case 8:
		res = okInts(int64(priority.PickUpMinNonFatalQuantity(priorities, dv, quantity)), int64(priority.PickUpMaxNonFatalQuantity(priorities, dv, quantity)))
		for q := uint(1); q <= quantity; q++ {
			res.addI(boolInt(priority.IsNonFatalConfig(priorities, dv, q)))
		}
	case 9:
		res = okInts(int64(priority.PickUpMinSuitableQuantity(priorities, dv, quantity, limit)), int64(priority.PickUpMaxSuitableQuantity(priorities, dv, quantity, limit)))
		for q := uint(1); q <= quantity; q++ {
			res.addI(boolInt(priority.IsSuitableConfig(priorities, dv, q, limit)))
		}
	case 10:
		res = okInts(boolInt(priority.IsNonFatalConfig(priorities, dv, quantity)))
		for _, l := range []float64{0, 1, 2, 5, 10, 20, 33, 50, 75, 100, 101, 150, 400, 100000} {
			res.addI(boolInt(priority.IsSuitableConfig(priorities, dv, quantity, l)))
		}
	default:
		return result{verdict: "unknown-fn"}
	}

	for i := range before {
		if before[i] != priorities[i] {
			return result{verdict: "priorities-mutated"}
		}
	}

	return res
}
