(* Extraction of the executable model for the correspondence check.  ExtrOcamlBasic only;
   N, Z, positive, nat stay extracted inductives.  Run with the working directory = extract/gen. *)
From Coq Require Import Extraction ExtrOcamlBasic ZArith.
From Cqos Require Import Run.
Extraction Language OCaml.
Separate Extraction Run.run BinInt.Z.add BinInt.Z.mul BinInt.Z.quotrem BinInt.Z.opp BinInt.Z.eqb BinInt.Z.ltb.
