(* Model driver: each input line is a list of decimal integers (family :: arguments); the output line is
   the list of integers Run.run returns.  Trusted glue: decimal <-> extracted Z conversion only. *)
open BinNums

let z_of_int (i : int) : coq_Z =
  let rec pos n = if n = 1 then Coq_xH else if n land 1 = 0 then Coq_xO (pos (n lsr 1)) else Coq_xI (pos (n lsr 1)) in
  if i = 0 then Z0 else if i > 0 then Zpos (pos i) else Zneg (pos (-i))

let ten = z_of_int 10

let z_of_string (s : string) : coq_Z =
  let neg = Stdlib.String.length s > 0 && s.[0] = '-' in
  let start = if neg then 1 else 0 in
  let acc = ref Z0 in
  for k = start to Stdlib.String.length s - 1 do
    let d = Char.code s.[k] - 48 in
    if d < 0 || d > 9 then failwith ("bad integer: " ^ s);
    acc := BinInt.Z.add (BinInt.Z.mul !acc ten) (z_of_int d)
  done;
  if neg then BinInt.Z.opp !acc else !acc

let rec int_of_pos = function
  | Coq_xH -> 1 | Coq_xO p -> 2 * int_of_pos p | Coq_xI p -> 2 * int_of_pos p + 1
let small_int_of_z = function Z0 -> 0 | Zpos p -> int_of_pos p | Zneg p -> - (int_of_pos p)

let string_of_z (z : coq_Z) : string =
  let neg, z = (match z with Zneg p -> true, Zpos p | _ -> false, z) in
  if z = Z0 then "0" else begin
    let buf = Stdlib.Buffer.create 24 in
    let cur = ref z in
    while !cur <> Z0 do
      let (q, r) = BinInt.Z.quotrem !cur ten in
      Stdlib.Buffer.add_char buf (Char.chr (48 + small_int_of_z r));
      cur := q
    done;
    let s = Stdlib.Buffer.contents buf in
    let n = Stdlib.String.length s in
    let rev = Stdlib.String.init n (fun i -> s.[n - 1 - i]) in
    if neg then "-" ^ rev else rev
  end

let () =
  try
    while true do
      let line = input_line stdin in
      let toks = Stdlib.List.filter (fun t -> t <> "") (Stdlib.String.split_on_char ' ' (Stdlib.String.trim line)) in
      let args = Stdlib.List.map z_of_string toks in
      let res = Run.run args in
      print_string (Stdlib.String.concat " " (Stdlib.List.map string_of_z res));
      print_newline ()
    done
  with End_of_file -> ()
