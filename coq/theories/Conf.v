(* C20 / C19: confinement of mutable state, decided over a table of facts that tools/racefacts regenerates from the Go source
   on every run (coq/theories/Facts.v).

   A root is a goroutine entry: the target of a `go` statement (Multi if the statement sits in a loop: several instances) or an
   exported function / method (Multi: any number of user goroutines may call it).  For a constructor only what happens after its
   first `go` statement counts (everything before happens-before the goroutine's start).
   The table is confined when every plain (non-channel, non-sync) field that is written by some root after construction is
   accessed by exactly one root and that root is a single goroutine.  Then no two accesses to the same plain field from different
   goroutines include a write: the library's own state cannot race; what crosses goroutines goes through channels and sync
   objects.  (User-visible slices are the subject of C08.) *)
From Coq Require Import List String Bool.
Import ListNotations.
Open Scope string_scope.

Inductive kind := KChan | KSync | KPlain.

Record func := {
  fn_name : string;
  fn_recv : string;                             (* the struct whose fields fn_accesses refer to; "" = none *)
  fn_exported : bool;
  fn_ctor : bool;                               (* builds the value in a local variable and starts the goroutine *)
  fn_accesses : list (string * bool * bool);    (* field, write?, before the first go statement of this function? *)
  fn_calls : list (string * bool);              (* callee (same package), before the first go statement? *)
  fn_gos : list (string * bool)                 (* target, inside a loop? *)
}.

Record package := { pkg_path : string; pkg_fields : list (string * string * kind); pkg_funcs : list func }.

Definition find_func (p : package) (n : string) : option func :=
  find (fun f => String.eqb (fn_name f) n) (pkg_funcs p).

(* a go statement whose target is a function literal: its body was analysed as part of the enclosing function *)
Definition strip_func (n : string) : string :=
  let k := String.length n in
  if andb (Nat.leb 5 k) (String.eqb (substring (k - 5) 5 n) ".func") then substring 0 (k - 5) n else n.

Fixpoint mem (x : string) (l : list string) : bool :=
  match l with [] => false | y :: r => String.eqb x y || mem x r end.

(* functions reachable from a list of work items through fn_calls *)
Fixpoint reach (p : package) (fuel : nat) (work seen : list string) : list string :=
  match fuel with
  | O => seen
  | S f =>
      match work with
      | [] => seen
      | n :: rest =>
          if mem n seen then reach p f rest seen
          else match find_func p n with
               | Some fn => reach p f (map fst (fn_calls fn) ++ rest) (n :: seen)
               | None => reach p f rest (n :: seen)
               end
      end
  end.

Record root := { r_name : string; r_multi : bool; r_funcs : list string; r_direct : list (string * string * bool) }.
(* r_direct: accesses of the root function itself that count (struct, field, write) *)

Definition fuel_of (p : package) : nat := (List.length (pkg_funcs p) * List.length (pkg_funcs p) + 8)%nat.

Definition accesses_of_func (fn : func) (skip_early : bool) : list (string * string * bool) :=
  map (fun a => (fn_recv fn, fst (fst a), snd (fst a)))
      (filter (fun a => negb (skip_early && snd a)) (fn_accesses fn)).

Definition mk_root (p : package) (name : string) (multi : bool) : root :=
  match find_func p name with
  | Some fn =>
      let skip := fn_ctor fn in
      let callees := map fst (filter (fun c => negb (skip && snd c)) (fn_calls fn)) in
      {| r_name := name; r_multi := multi; r_funcs := reach p (fuel_of p) callees [];
         r_direct := accesses_of_func fn skip |}
  | None => {| r_name := name; r_multi := multi; r_funcs := []; r_direct := [] |}
  end.

Definition roots (p : package) : list root :=
  flat_map (fun fn => map (fun g => mk_root p (strip_func (fst g)) (snd g)) (fn_gos fn)) (pkg_funcs p)
  ++ map (fun fn => mk_root p (fn_name fn) true) (filter fn_exported (pkg_funcs p)).

Definition root_accesses (p : package) (r : root) : list (string * string * bool) :=
  r_direct r ++
  flat_map (fun n => match find_func p n with Some fn => accesses_of_func fn false | None => [] end) (r_funcs r).

Definition touches (p : package) (r : root) (s f : string) : bool :=
  existsb (fun a => String.eqb (fst (fst a)) s && String.eqb (snd (fst a)) f) (root_accesses p r).
Definition writes (p : package) (r : root) (s f : string) : bool :=
  existsb (fun a => String.eqb (fst (fst a)) s && String.eqb (snd (fst a)) f && snd a) (root_accesses p r).

Definition field_ok (p : package) (s f : string) : bool :=
  let rs := roots p in
  let touching := filter (fun r => touches p r s f) rs in
  if existsb (fun r => writes p r s f) rs then
    match touching with
    | [r] => negb (r_multi r)
    | _ => false
    end
  else true.

Definition confined_pkg (p : package) : bool :=
  forallb (fun sfk => match snd sfk with KPlain => field_ok p (fst (fst sfk)) (snd (fst sfk)) | _ => true end) (pkg_fields p).
Definition confined (t : list package) : bool := forallb confined_pkg t.

(* what the checker guarantees: two accesses to one plain field, one of them a write, come from the same single goroutine *)
Lemma field_ok_sound p s f :
  field_ok p s f = true ->
  forall r1 r2, In r1 (roots p) -> In r2 (roots p) ->
    touches p r1 s f = true -> touches p r2 s f = true ->
    (writes p r1 s f = true \/ writes p r2 s f = true) ->
    r1 = r2 /\ r_multi r1 = false.
Proof.
  unfold field_ok. intros Hok r1 r2 H1 H2 T1 T2 W.
  assert (Hex : existsb (fun r => writes p r s f) (roots p) = true).
  { apply existsb_exists. destruct W as [W|W]; [exists r1|exists r2]; auto. }
  rewrite Hex in Hok.
  assert (I1 : In r1 (filter (fun r => touches p r s f) (roots p))) by (apply filter_In; auto).
  assert (I2 : In r2 (filter (fun r => touches p r s f) (roots p))) by (apply filter_In; auto).
  destruct (filter (fun r => touches p r s f) (roots p)) as [|r [|r' rest]]; try discriminate.
  destruct I1 as [<-|[]]. destruct I2 as [<-|[]]. split; auto.
  destruct (r_multi r); [discriminate|reflexivity].
Qed.

Theorem confined_sound t :
  confined t = true ->
  forall p s f, In p t -> In (s, f, KPlain) (pkg_fields p) ->
  forall r1 r2, In r1 (roots p) -> In r2 (roots p) ->
    touches p r1 s f = true -> touches p r2 s f = true ->
    (writes p r1 s f = true \/ writes p r2 s f = true) ->
    r1 = r2 /\ r_multi r1 = false.
Proof.
  unfold confined. intros Hc p s f Hp Hf. rewrite forallb_forall in Hc. specialize (Hc p Hp).
  unfold confined_pkg in Hc. rewrite forallb_forall in Hc. specialize (Hc _ Hf). simpl in Hc.
  apply field_ok_sound; auto.
Qed.

(* C19: the goroutines a package starts: (function containing the go statement, target, in a loop?) *)
Definition go_statements (p : package) : list (string * string * bool) :=
  flat_map (fun fn => map (fun g => (fn_name fn, fst g, snd g)) (fn_gos fn)) (pkg_funcs p).
Definition all_go_statements (t : list package) : list (string * list (string * string * bool)) :=
  map (fun p => (pkg_path p, go_statements p)) t.
