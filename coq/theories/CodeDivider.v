(* C14 stated about the code itself: the Gallina translations of the current divider sources (GenV2Divider.v / GenV1Divider.v,
   regenerated on every run) conserve the dividend, touch nothing outside the listed priorities and give the increments the
   model theorems describe -- by the tie lemmas (GenTieDivider.v) and the model theorems (DividerP.v). *)
From Coq Require Import List NArith Lia Bool.
From Cqos Require Import Base Divider DividerP Float64 GoSem GenTieDivider.
Import ListNotations.
Open Scope N_scope.

(* no 64-bit wrap-around: every listed entry plus the dividend stays a uint *)
Definition room (ps : list N) (d : N) (m : dist) : Prop := forall k, In k ps -> get m k + d < u_modulus.

Theorem code_v2_Fair w ps d m : ps <> [] -> NoDup ps -> NoDup (keys m) -> room ps d m ->
  exists m', GenV2Divider.gen_Fair w ps d (Some m) = (w, Some m', tt) /\
    sum m' = sum m + d /\
    (forall q, ~ In q ps -> get m' q = get m q) /\
    (forall i, (i < length ps)%nat ->
       get m' (nth i ps 0) = get m (nth i ps 0) + fair_inc (fair_base ps d) (fair_rem ps d) i).
Proof.
  intros Hne Hnd Hk Hroom. exists (fair ps d m). split; [apply tie_v2_Fair; exact Hroom|].
  split; [apply fair_conserves; assumption|]. split.
  - intros q Hq. apply fair_outside; assumption.
  - intros i Hi. apply fair_increment; assumption.
Qed.

Theorem code_v2_Rate w ps d m : ps <> [] -> NoDup ps -> NoDup (keys m) -> sum_list ps < u_modulus -> room ps d m ->
  exists m', GenV2Divider.gen_Rate w ps d (Some m) = (w, Some m', tt) /\
    sum m' = sum m + d /\
    (forall q, ~ In q ps -> get m' q = get m q) /\
    (forall i, (i < length ps)%nat ->
       get m' (nth i ps 0) = get m (nth i ps 0) + nth i (rate_incs part_f ps d) 0) /\
    sum_list (rate_incs part_f ps d) = d.
Proof.
  intros Hne Hnd Hk Hs Hroom. exists (rate part_f ps d m). split; [apply tie_v2_Rate; assumption|].
  split; [apply rate_conserves; assumption|]. split; [|split].
  - intros q Hq. apply rate_outside; assumption.
  - intros i Hi. apply rate_increment; assumption.
  - apply rate_incs_sum; assumption.
Qed.

(* v1 returns the map it updated; on a non-nil argument and a non-empty list it is the very map v2 computes *)
Theorem code_v1_FairDivider w ps d m : ps <> [] -> NoDup ps -> NoDup (keys m) -> room ps d m ->
  exists m', GenV1Divider.gen_FairDivider w ps d (Some m) = (w, Some m', Some m') /\
    GenV2Divider.gen_Fair w ps d (Some m) = (w, Some m', tt) /\ sum m' = sum m + d.
Proof.
  intros Hne Hnd Hk Hroom. destruct (code_v2_Fair w ps d m Hne Hnd Hk Hroom) as (m' & E2 & Hsum & _).
  exists m'. destruct (tie_v1_eq_v2_wrap w ps d m Hne) as [HF _]. split; [apply HF; exact E2|]. split; assumption.
Qed.
Theorem code_v1_RateDivider w ps d m : ps <> [] -> NoDup ps -> NoDup (keys m) -> sum_list ps < u_modulus -> room ps d m ->
  exists m', GenV1Divider.gen_RateDivider w ps d (Some m) = (w, Some m', Some m') /\
    GenV2Divider.gen_Rate w ps d (Some m) = (w, Some m', tt) /\ sum m' = sum m + d.
Proof.
  intros Hne Hnd Hk Hs Hroom. destruct (code_v2_Rate w ps d m Hne Hnd Hk Hs Hroom) as (m' & E2 & Hsum & _).
  exists m'. destruct (tie_v1_eq_v2_wrap w ps d m Hne) as [_ HR]. split; [apply HR; exact E2|]. split; assumption.
Qed.

Example code_v2_Fair_example :
  exists m', GenV2Divider.gen_Fair 0 [70; 20; 10] 100 (Some [(70, 1)]) = (0%nat, Some m', tt) /\ sum m' = 101.
Proof.
  destruct (code_v2_Fair 0 [70; 20; 10] 100 [(70, 1)]) as (m' & E & S & _).
  - discriminate.
  - repeat constructor; cbn; intuition discriminate.
  - repeat constructor; cbn; intuition.
  - intros k _. cbn. destruct (k =? 70); change u_modulus with 18446744073709551616; lia.
  - exists m'. split; [exact E|exact S].
Qed.
