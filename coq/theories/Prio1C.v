(* v1 priority discipline (Prio1.v): the divider contract and fault handling (C15), the drain loop and graceful termination (C07).
   On top of the safety invariants of Prio1P.v.  Ported from Prio2P.v (contract, fault, drain) and Prio2L.v part D (promptness). *)
From Coq Require Import List NArith Lia Bool Arith Sorted.
From Cqos Require Import Base Divider DividerP Sched Prio1 Prio1P.
Import ListNotations.
Open Scope N_scope.

(* replace the ghost log of divider calls (for counterexamples only) *)
Definition with_calls (s : st) (cs : list (list N * N)) : st :=
  mkSt (H s) (prios s) (strategic s) (actual s) (tactic s) (chan_of s) (drained s) (inq s) (closed s) (buffered s)
       (outq s) (outcap s) (held s) (fbq s) (fblimit s) (stopped s) (graceful s) (cmds s) (pcs s) (ncalls s)
       (delivered s) cs (reads s) (dropped s) (written s).

(* what the contract says about one logged call (priority list, dividend), for HandlersQuantity h *)
Definition call_ok (h : N) (c : list N * N) : Prop :=
  NoDup (fst c) /\ StronglySorted N.gt (fst c) /\ snd c <= h.

Lemma pick_some {A} o (l : list A) : l <> [] -> exists a, pick o l = Some a.
Proof.
  intros Hne. unfold pick. destruct l as [|x r]; [congruence|].
  destruct (nth_error (x :: r) (o mod length (x :: r))) as [a|] eqn:E; [eauto|].
  apply nth_error_None in E. pose proof (Nat.mod_upper_bound o (length (x :: r))) as Hlt.
  cbn [length] in *. lia.
Qed.

Section Contract.
Variable fixed : bool.
Variable dv : nat -> Divider.
Hypothesis dv_wf : forall k ps n d, NoDup (keys d) -> NoDup (keys (dv k ps n d)).

(* ================= 2. fault handling ================= *)
Theorem prio1_bad_sum_detected : forall k ps n t r, sum t = 0 -> safe_divide (dv k) ps n t = inl r -> sum r = n \/ sum r = 0.
Proof. intros k ps n t r. apply safe_divide_sum. Qed.
Print Assumptions prio1_bad_sum_detected.

Lemma sched_step_fault o s s' e : pcs s = Drain e \/ pcs s = Done e -> sched_step fixed dv o s = Some s' ->
  (pcs s' = Drain e \/ pcs s' = Done e) /\ delivered s' = delivered s /\ reads s' = reads s.
Proof.
  intros [Hpc|Hpc] Hs; unfold sched_step in Hs; rewrite Hpc in Hs; [|discriminate].
  destruct_matches Hs; try discriminate; inversion Hs; subst; proj; auto.
Qed.

Lemma env_step_fault s op s' e : pcs s = Drain e \/ pcs s = Done e -> env_step s op = Some s' ->
  (pcs s' = Drain e \/ pcs s' = Done e) /\ delivered s' = delivered s /\ reads s' = reads s.
Proof.
  intros Hpc Hs. destruct op as [ch x|ch| |p| | | |ch p bf|p]; cbn [env_step] in Hs.
  5:{ destruct Hpc as [Hpc|Hpc]; rewrite Hpc in Hs; inversion Hs; subst; auto. }
  all: destruct_matches Hs; try discriminate; inversion Hs; subst; proj; auto.
Qed.

(* after a detected bad division nothing more is read or delivered, whatever the environment does (Put, Close, Take, Release,
   Stop, GracefulStop, AddInput, RemoveInput, clock), and the error is the final result *)
Theorem prio1_fault_stops : forall s0 s s' e, Init1 s0 -> reachable fixed dv s0 s -> pcs s = Drain (Some e) -> reachable fixed dv s s' ->
  (pcs s' = Drain (Some e) \/ pcs s' = Done (Some e)) /\ delivered s' = delivered s /\ reads s' = reads s.
Proof.
  intros s0 s s' e _ _ Hpc Hr.
  induction Hr as [|s1 o s2 Hr [IH1 [IH2 IH3]] Hs|s1 op s2 Hr [IH1 [IH2 IH3]] Hs]; auto.
  - destruct (sched_step_fault _ _ _ _ IH1 Hs) as [H1 [H2 H3]]. split; [auto|split; congruence].
  - destruct (env_step_fault _ _ _ _ IH1 Hs) as [H1 [H2 H3]]. split; [auto|split; congruence].
Qed.
Print Assumptions prio1_fault_stops.

(* the same from any fault state (no reachability needed), and also: the inputs are not touched any more *)
Theorem prio1_fault_stops_gen : forall s s' e, pcs s = Drain e \/ pcs s = Done e -> reachable fixed dv s s' ->
  (pcs s' = Drain e \/ pcs s' = Done e) /\ delivered s' = delivered s /\ reads s' = reads s.
Proof.
  intros s s' e Hpc Hr.
  induction Hr as [|s1 o s2 Hr [IH1 [IH2 IH3]] Hs|s1 op s2 Hr [IH1 [IH2 IH3]] Hs]; auto.
  - destruct (sched_step_fault _ _ _ _ IH1 Hs) as [H1 [H2 H3]]. split; [auto|split; congruence].
  - destruct (env_step_fault _ _ _ _ IH1 Hs) as [H1 [H2 H3]]. split; [auto|split; congruence].
Qed.
Print Assumptions prio1_fault_stops_gen.

(* ================= 1. the divider contract ================= *)
Definition new_ok (s s' : st) (c : list N * N) : Prop :=
  NoDup (fst c) /\ StronglySorted N.gt (fst c) /\ snd c <= H s /\ incl (fst c) (prios s').

Lemma filter_ok s (f : N -> bool) : Inv s -> StronglySorted N.gt (prios s) ->
  NoDup (filter f (prios s)) /\ StronglySorted N.gt (filter f (prios s)) /\ incl (filter f (prios s)) (prios s).
Proof.
  intros Hinv Hd. split; [apply filter_nodup; apply (i_ndp s Hinv)|]. split; [now apply StronglySorted_filter|].
  intros x Hx. apply filter_In in Hx. tauto.
Qed.

Lemma calc_base_calls s v : calls (calc_base dv s v) = (uncrowded s, v) :: calls s /\ prios (calc_base dv s v) = prios s.
Proof. unfold calc_base. destruct (safe_divide (dv (ncalls s)) (uncrowded s) v (reset (tactic s))); split; reflexivity. Qed.

Lemma step_calc_calls s : prios (step_calc dv s) = prios s /\
  (calls (step_calc dv s) = calls s \/ calls (step_calc dv s) = (uncrowded s, H s - sum (actual s)) :: calls s).
Proof.
  unfold step_calc. destruct (H s <? sum (actual s)); [split; [reflexivity|left; reflexivity]|].
  destruct (H s - sum (actual s) =? 0); [split; [reflexivity|left; reflexivity]|].
  destruct (calc_base_calls s (H s - sum (actual s))) as [Ec Ep].
  destruct (add_up (prios s) (actual s) (strategic s) (reset (tactic s)) 0) as [[t picked]|]; [|split; [exact Ep|right; exact Ec]].
  destruct (picked =? H s - sum (actual s)); [split; [reflexivity|left; reflexivity]|split; [exact Ep|right; exact Ec]].
Qed.

Lemma step_recalc_calls s proc : prios (step_recalc dv s proc) = prios s /\
  (calls (step_recalc dv s proc) = (useful s, H s) :: calls s \/
   exists t1, calls (step_recalc dv s proc) = (useful_like s t1, sum (tactic s)) :: (useful s, H s) :: calls s).
Proof.
  unfold step_recalc. destruct (safe_divide (dv (ncalls s)) (useful s) (H s) (reset (tactic s))) as [t1|e].
  - destruct (safe_divide (dv (S (ncalls s))) (useful_like s t1) (sum (tactic s)) (reset t1)) as [t2|e];
      (split; [reflexivity|right; exists t1; reflexivity]).
  - split; [reflexivity|left; reflexivity].
Qed.

Lemma do_cmd_calls s c rest : calls (do_cmd dv s c rest) = (prios (do_cmd dv s c rest), H s) :: calls s.
Proof. destruct c; reflexivity. Qed.

Lemma do_cmd_sorted s c rest : NoDup (prios s) -> StronglySorted N.gt (prios s) -> StronglySorted N.gt (prios (do_cmd dv s c rest)).
Proof. intros ND Hd. destruct c as [ch p|p]; [now apply prio1_add_sorted|now apply prio1_remove_sorted]. Qed.

Ltac nonew := exists (@nil (list N * N)); split; [reflexivity|split; [cbn [length]; lia|constructor]].

(* every divider call made by one scheduler step (none, one, or two: recalcTactic) obeys the contract *)
Lemma sched_step_new_calls o s s' : Inv s -> StronglySorted N.gt (prios s) -> sched_step fixed dv o s = Some s' ->
  exists new, calls s' = new ++ calls s /\ (length new <= 2)%nat /\ Forall (new_ok s s') new.
Proof.
  intros Hinv Hd Hs. unfold sched_step in Hs. destruct (pcs s) eqn:Epc; cbv zeta in Hs.
  - (* Top *)
    destruct_matches Hs; try discriminate; inversion Hs; subst; try nonew.
    match goal with |- context [do_cmd _ _ ?c ?l] =>
           exists [(prios (do_cmd dv s c l), H s)]; split; [apply do_cmd_calls|split; [cbn [length]; lia|]];
           constructor; [|constructor]; unfold new_ok; cbn [fst snd]; split; [apply (i_ndp _ (do_cmd_inv dv s c l Hinv))|];
           split; [apply do_cmd_sorted; [apply (i_ndp s Hinv)|exact Hd]|]; split; [lia|apply incl_refl] end.
  - (* Calc *)
    inversion Hs; subst. destruct (step_calc_calls s) as [Ep [Ec|Ec]].
    + exists []. split; [exact Ec|split; [cbn [length]; lia|constructor]].
    + exists [(uncrowded s, H s - sum (actual s))]. split; [exact Ec|split; [cbn [length]; lia|]].
      constructor; [|constructor]. unfold new_ok; cbn [fst snd]. rewrite Ep. unfold uncrowded.
      destruct (filter_ok s (fun p => get (actual s) p <? get (strategic s) p) Hinv Hd) as (F1 & F2 & F3).
      repeat split; auto. lia.
  - (* WaitFb *) destruct_matches Hs; try discriminate; inversion Hs; subst; nonew.
  - (* Prio *) destruct_matches Hs; try discriminate; inversion Hs; subst; nonew.
  - (* Read *) destruct_matches Hs; try discriminate; inversion Hs; subst; nonew.
  - (* Send *) destruct_matches Hs; try discriminate; inversion Hs; subst; nonew.
  - (* Recalc *)
    assert (Hr : sum (actual s) + sum (tactic s) <= H s) by (apply (i_round s Hinv); rewrite Epc; reflexivity).
    inversion Hs; subst. destruct (step_recalc_calls s proc) as [Ep [Ec|[t1 Ec]]].
    + exists [(useful s, H s)]. split; [exact Ec|split; [cbn [length]; lia|]].
      constructor; [|constructor]. unfold new_ok; cbn [fst snd]. rewrite Ep. unfold useful.
      destruct (filter_ok s (fun p => get (tactic s) p =? 0) Hinv Hd) as (F1 & F2 & F3).
      repeat split; auto. lia.
    + exists [(useful_like s t1, sum (tactic s)); (useful s, H s)]. split; [exact Ec|split; [cbn [length]; lia|]].
      constructor; [|constructor; [|constructor]]; unfold new_ok; cbn [fst snd]; rewrite Ep.
      * unfold useful_like. destruct (filter_ok s (fun p => get (actual s) p <? get t1 p) Hinv Hd) as (F1 & F2 & F3).
        repeat split; auto. lia.
      * unfold useful. destruct (filter_ok s (fun p => get (tactic s) p =? 0) Hinv Hd) as (F1 & F2 & F3).
        repeat split; auto. lia.
  - (* EndBase *) destruct_matches Hs; try discriminate; inversion Hs; subst; nonew.
  - (* Idle *) discriminate.
  - (* LimFb *) destruct_matches Hs; try discriminate; inversion Hs; subst; nonew.
  - (* Drain *) destruct_matches Hs; try discriminate; inversion Hs; subst; nonew.
  - (* Done *) discriminate.
Qed.

(* all the new calls of a step, in particular both calls of recalcTactic *)
Theorem prio1_new_calls_contract : forall o s s', Inv s -> StronglySorted N.gt (prios s) -> sched_step fixed dv o s = Some s' ->
  exists new, calls s' = new ++ calls s /\ (length new <= 2)%nat /\
    forall ps d, In (ps, d) new -> NoDup ps /\ StronglySorted N.gt ps /\ d <= H s /\ incl ps (prios s').
Proof.
  intros o s s' Hinv Hd Hs. destruct (sched_step_new_calls o s s' Hinv Hd Hs) as (new & E & Hl & Hf).
  exists new. split; [exact E|split; [exact Hl|]]. intros ps d Hin. rewrite Forall_forall in Hf. apply (Hf _ Hin).
Qed.
Print Assumptions prio1_new_calls_contract.

(* the statement of the task with the missing premise "the step made a call" (calls s' <> calls s): see
   call_contract_needs_new_call below for the counterexample without it *)
Theorem prio1_call_contract_partial : forall o s s', Inv s -> StronglySorted N.gt (prios s) -> sched_step fixed dv o s = Some s' ->
  forall ps d rest, calls s' = (ps, d) :: rest -> calls s' <> calls s ->
    NoDup ps /\ StronglySorted N.gt ps /\ d <= H s /\ incl ps (prios s').
Proof.
  intros o s s' Hinv Hd Hs ps d rest Ec Hne. destruct (sched_step_new_calls o s s' Hinv Hd Hs) as (new & E & _ & Hf).
  destruct new as [|c new]; [exfalso; apply Hne; exact E|].
  rewrite E in Ec. cbn [app] in Ec. inversion Ec; subst. inversion Hf as [|? ? Hc _]; subst. exact Hc.
Qed.
Print Assumptions prio1_call_contract_partial.

(* H never changes *)
Lemma sched_step_H o s s' : sched_step fixed dv o s = Some s' -> H s' = H s.
Proof.
  intros Hs. unfold sched_step, step_calc, calc_base, step_recalc, do_cmd in Hs.
  destruct_matches Hs; try discriminate; inversion Hs; subst; reflexivity.
Qed.
Lemma env_step_H_calls s op s' : env_step s op = Some s' -> H s' = H s /\ calls s' = calls s.
Proof. intros Hs. unfold env_step in Hs. destruct_matches Hs; try discriminate; inversion Hs; subst; split; reflexivity. Qed.

Definition calls_ok (s : st) : Prop := Forall (call_ok (H s)) (calls s).

Lemma reachable_calls_ok s0 s : Init1 s0 -> StronglySorted N.gt (prios s0) -> calls_ok s0 -> reachable fixed dv s0 s -> calls_ok s.
Proof.
  intros I Hd0 H0 Hr. induction Hr as [|s o s' Hr IH Hs|s op s' Hr IH Hs]; auto.
  - pose proof (reachable_inv fixed dv dv_wf _ _ I Hr) as Hinv.
    pose proof (prio1_inputs_sorted fixed dv dv_wf _ _ I Hd0 Hr) as Hd.
    destruct (sched_step_new_calls o s s' Hinv Hd Hs) as (new & E & _ & Hf).
    unfold calls_ok in *. rewrite E, (sched_step_H _ _ _ Hs). apply Forall_app. split; [|exact IH].
    rewrite Forall_forall in *. intros c Hc. destruct (Hf c Hc) as (A & B & C & _). repeat split; auto.
  - destruct (env_step_H_calls _ _ _ Hs) as [EH Ec]. unfold calls_ok in *. rewrite EH, Ec. exact IH.
Qed.

(* Init1 says nothing about the ghost log, so the log of the initial state must be assumed well-formed (it is for init_state) *)
Theorem prio1_calls_contract : forall s0 s, Init1 s0 -> StronglySorted N.gt (prios s0) ->
  Forall (fun c => NoDup (fst c) /\ StronglySorted N.gt (fst c) /\ snd c <= H s0) (calls s0) ->
  reachable fixed dv s0 s ->
  forall ps d, In (ps, d) (calls s) -> NoDup ps /\ StronglySorted N.gt ps /\ d <= H s.
Proof.
  intros s0 s I Hd0 H0 Hr ps d Hin. pose proof (reachable_calls_ok s0 s I Hd0 H0 Hr) as Hok.
  unfold calls_ok in Hok. rewrite Forall_forall in Hok. apply (Hok _ Hin).
Qed.
Print Assumptions prio1_calls_contract.

Lemma init_state_calls_ok cfg h bufs ocap : NoDup (map fst cfg) ->
  Forall (fun c => NoDup (fst c) /\ StronglySorted N.gt (fst c) /\ snd c <= H (init_state dv cfg h bufs ocap))
         (calls (init_state dv cfg h bufs ocap)).
Proof.
  intros ND. cbn [init_state calls H]. constructor; [|constructor]. cbn [fst snd].
  split; [now apply nodup_sort_desc|]. split; [now apply desc_sort|lia].
Qed.

Lemma reachable_H s0 s : reachable fixed dv s0 s -> H s = H s0.
Proof.
  intros Hr. induction Hr as [|s o s' Hr IH Hs|s op s' Hr IH Hs]; [reflexivity| |].
  - rewrite (sched_step_H _ _ _ Hs). exact IH.
  - destruct (env_step_H_calls _ _ _ Hs) as [E _]. rewrite E. exact IH.
Qed.

(* from New(): no premise about the log *)
Corollary prio1_calls_contract_new : forall cfg h bufs ocap s, NoDup (map fst cfg) ->
  reachable fixed dv (init_state dv cfg h bufs ocap) s ->
  forall ps d, In (ps, d) (calls s) -> NoDup ps /\ StronglySorted N.gt ps /\ d <= h.
Proof.
  intros cfg h bufs ocap s ND Hr ps d Hin.
  pose proof (prio1_calls_contract _ s (init_state_Init1 dv dv_wf cfg h bufs ocap ND) (init_state_sorted dv cfg h bufs ocap ND)
                (init_state_calls_ok cfg h bufs ocap ND) Hr ps d Hin) as (A & B & C).
  repeat split; auto.
  rewrite (reachable_H _ _ Hr) in C. exact C.
Qed.
Print Assumptions prio1_calls_contract_new.

(* ================= the drain loop (deferred waitZeroActual) ================= *)
(* the scheduler alone; the n-th select is resolved by the oracle os n -- every resolution is covered *)
Fixpoint iter_sched (os : nat -> nat) (n : nat) (s : st) : option st :=
  match n with
  | O => Some s
  | S n' => match sched_step fixed dv (os O) s with None => None | Some s' => iter_sched (fun i => os (S i)) n' s' end
  end.

Lemma drain_step o s e p q : pcs s = Drain e -> fbq s = p :: q -> sum (actual s) <> 0 ->
  (sched_step fixed dv o s = Some (with_pc s (Done e)) /\ stopped s = true) \/
  sched_step fixed dv o s = Some (pop_fb s p q (Drain e)).
Proof.
  intros Hpc Hfb Hnz. unfold sched_step. rewrite Hpc, Hfb. apply N.eqb_neq in Hnz. rewrite Hnz. cbv beta iota zeta.
  destruct (pick_some o ((if stopped s then [AStop] else []) ++ [AFb])) as [a Ha].
  { destruct (stopped s); discriminate. }
  rewrite Ha. destruct a; auto. left. split; auto.
  eapply pick_stop; [exact Ha|]. cbn [In]. intros [E|[]]; discriminate.
Qed.

Lemma drain_aux : forall n os s e, Inv s -> pcs s = Drain e -> length (fbq s) = n -> sum (actual s) = N.of_nat n ->
  exists k s', (k <= S n)%nat /\ iter_sched os k s = Some s' /\ pcs s' = Done e /\ (stopped s = false -> k = S n).
Proof.
  induction n as [|m IH]; intros os s e Hinv Hpc Hlen Hsum.
  - exists 1%nat, (with_pc s (Done e)). split; [lia|]. split; [|split; [reflexivity|auto]].
    cbn [iter_sched]. unfold sched_step. rewrite Hpc, Hsum. reflexivity.
  - destruct (fbq s) as [|p q] eqn:Efb; [discriminate|]. cbn [length] in Hlen.
    assert (Hnz : sum (actual s) <> 0) by (rewrite Hsum, Nat2N.inj_succ; lia).
    destruct (drain_step (os O) s e p q Hpc Efb Hnz) as [[Hstep Hst]|Hstep].
    + exists 1%nat, (with_pc s (Done e)). split; [lia|]. split; [cbn [iter_sched]; rewrite Hstep; reflexivity|].
      split; [reflexivity|]. intros E. congruence.
    + pose proof (sched_step_inv fixed dv dv_wf _ _ _ Hinv Hstep) as Hinv1.
      assert (Hsum1 : sum (actual (pop_fb s p q (Drain e))) = N.of_nat m).
      { pose proof (i_sum _ Hinv) as H1. pose proof (i_sum _ Hinv1) as H2. unfold inflight in H1, H2.
        revert H2. proj. intros H2. rewrite Efb in H1. cbn [length] in H1. rewrite Hsum in H1.
        assert (length q = m) by lia. subst m. rewrite !Nat2N.inj_succ in H1. lia. }
      destruct (IH (fun i => os (S i)) (pop_fb s p q (Drain e)) e Hinv1 eq_refl) as (k & s' & Hk & Hi & Hd & Hex).
      * proj. lia.
      * exact Hsum1.
      * exists (S k), s'. split; [lia|]. split; [cbn [iter_sched]; rewrite Hstep; exact Hi|]. split; [exact Hd|].
        intros Hst. rewrite (Hex Hst). reflexivity.
Qed.

(* once every outstanding item has been released (what is still counted in `actual` is queued on the feedback channel) the drain loop
   ends with the result it was entered with, after at most one step per queued release plus one; exactly that many when not stopped
   (when stopped, the select may take the stop alternative and end earlier) *)
Theorem prio1_drain_terminates : forall (os : nat -> nat) s e, Inv s -> pcs s = Drain e -> sum (actual s) = N.of_nat (length (fbq s)) ->
  exists n s', (n <= S (length (fbq s)))%nat /\ iter_sched os n s = Some s' /\ pcs s' = Done e /\
               (stopped s = false -> n = S (length (fbq s))).
Proof. intros os s e Hinv Hpc Hsum. apply drain_aux; auto. Qed.
Print Assumptions prio1_drain_terminates.

Corollary prio1_drain_terminates_nostop : forall (os : nat -> nat) s e, Inv s -> pcs s = Drain e ->
  sum (actual s) = N.of_nat (length (fbq s)) -> stopped s = false ->
  exists s', iter_sched os (S (length (fbq s))) s = Some s' /\ pcs s' = Done e.
Proof.
  intros os s e Hinv Hpc Hsum Hst. destruct (prio1_drain_terminates os s e Hinv Hpc Hsum) as (n & s' & _ & Hi & Hd & Hex).
  rewrite (Hex Hst) in Hi. eauto.
Qed.
Print Assumptions prio1_drain_terminates_nostop.

(* ================= 3. graceful termination (C07) ================= *)
Ltac destruct_goal :=
  repeat match goal with |- context [match ?x with _ => _ end] => destruct x eqn:? end.

Lemma sum_zero_get d k : NoDup (keys d) -> sum d = 0 -> get d k = 0.
Proof. intros ND Hs. pose proof (get_le_sum d k ND). lia. Qed.

(* calcTacticByAddUpToStrategic when nothing is in flight: tactic = strategic on the registered priorities *)
Lemma add_up_zero ps : forall act strat tac picked, (forall p, get act p = 0) -> NoDup ps ->
  exists t', add_up ps act strat tac picked = Some (t', picked + sum_list (map (get strat) ps)) /\
    (forall p, In p ps -> get t' p = get strat p) /\ (forall p, ~ In p ps -> get t' p = get tac p).
Proof.
  induction ps as [|p r IH]; intros act strat tac picked Hz ND; cbn [add_up map sum_list].
  - exists tac. split; [f_equal; f_equal; lia|]. split; [intros ? []|auto].
  - inversion ND as [|? ? Hn NDr]; subst. rewrite (Hz p).
    destruct (N.ltb_spec (get strat p) 0) as [Hlt|_]; [lia|]. rewrite N.sub_0_r.
    destruct (IH act strat (set tac p (get strat p)) (picked + get strat p) Hz NDr) as (t' & E & G1 & G2).
    exists t'. split; [rewrite E; f_equal; f_equal; lia|]. split.
    + intros q [<-|Hq]; [|auto]. rewrite (G2 p Hn). apply get_set_same.
    + intros q Hq. rewrite G2 by (intros Hx; apply Hq; right; exact Hx). apply get_set_other. intros ->. apply Hq. left; reflexivity.
Qed.

(* the facts about the shares that v2 checks in New() and v1 does not: HandlersQuantity is a non-zero uint64, the strategic shares
   of the registered priorities add up to it and none is zero *)
Record Shares (s : st) : Prop := {
  sh_H : 1 <= H s;
  sh_H64 : H s < two64;
  sh_sum : prios s <> [] -> sum_list (map (get (strategic s)) (prios s)) = H s;
  sh_pos : forall p, In p (prios s) -> 1 <= get (strategic s) p }.

Definition closed_empty (s : st) : Prop :=
  forall p, In p (prios s) -> exists ch, chan_of s p = Some ch /\ closed s ch = true /\ inq s ch = [].
Definition noerr (c : pc) : Prop := forall e, c <> Drain (Some e) /\ c <> Done (Some e).

(* ---- the scheduler never waits for a release when none is owed (given the shares add up) ---- *)
Lemma calc_not_wait s : Inv s -> 1 <= H s -> (prios s <> [] -> sum_list (map (get (strategic s)) (prios s)) = H s) ->
  sum (actual s) = 0 -> pcs (step_calc dv s) <> WaitFb.
Proof.
  intros Hinv HH Hsum Hz. unfold step_calc. rewrite Hz, N.sub_0_r.
  destruct (N.ltb_spec (H s) 0) as [Hlt|_]; [lia|]. destruct (N.eqb_spec (H s) 0) as [E|_]; [lia|].
  assert (Hz' : forall p, get (actual s) p = 0) by (intros p; apply sum_zero_get; [apply (i_nda s Hinv)|exact Hz]).
  destruct (add_up_zero (prios s) (actual s) (strategic s) (reset (tactic s)) 0 Hz' (i_ndp s Hinv)) as (t' & Ea & _ & _).
  rewrite Ea. destruct (prios s) as [|p0 r] eqn:Ep.
  - cbn [map sum_list]. destruct (N.eqb_spec (0 + 0) (H s)) as [E|_]; [lia|].
    unfold calc_base, uncrowded. rewrite Ep. cbn [filter].
    destruct (safe_divide (dv (ncalls s)) [] (H s) (reset (tactic s))); proj; cbn [filled forallb]; discriminate.
  - rewrite Hsum by discriminate. rewrite N.add_0_l, N.eqb_refl. proj. discriminate.
Qed.

Definition WInv (s : st) : Prop :=
  pcs s = WaitFb -> sum (actual s) = 0 -> 1 <= H s ->
  (prios s <> [] -> sum_list (map (get (strategic s)) (prios s)) = H s) -> False.

Lemma sched_step_WInv o s s' : Inv s -> sched_step fixed dv o s = Some s' -> WInv s'.
Proof.
  intros Hinv Hs. unfold WInv. intros Hpc'. unfold sched_step in Hs. destruct (pcs s) eqn:Epc; cbv zeta in Hs.
  - unfold do_cmd in Hs. destruct_matches Hs; try discriminate; inversion Hs; subst; discriminate.
  - (* Calc *) inversion Hs; subst s'. destruct (step_calc_shape dv s) as [(Ep & _) _].
    assert (Ea : actual (step_calc dv s) = actual s /\ H (step_calc dv s) = H s /\ strategic (step_calc dv s) = strategic s).
    { unfold step_calc, calc_base. destruct_goal; repeat split; reflexivity. }
    destruct Ea as (Ea & EH & Es). rewrite Ea, EH, Es, Ep. intros Hz HH Hsum.
    exact (calc_not_wait s Hinv HH Hsum Hz Hpc').
  - destruct_matches Hs; try discriminate; inversion Hs; subst; discriminate.
  - destruct_matches Hs; try discriminate; inversion Hs; subst; discriminate.
  - destruct_matches Hs; try discriminate; inversion Hs; subst; discriminate.
  - destruct_matches Hs; try discriminate; inversion Hs; subst; discriminate.
  - (* Recalc *) inversion Hs; subst s'. destruct (step_recalc_shape dv s proc) as [_ [E|[E|[e E]]]]; rewrite E in Hpc'; discriminate.
  - destruct_matches Hs; try discriminate; inversion Hs; subst; discriminate.
  - discriminate.
  - destruct_matches Hs; try discriminate; inversion Hs; subst; discriminate.
  - destruct_matches Hs; try discriminate; inversion Hs; subst; discriminate.
  - discriminate.
Qed.

Lemma env_step_WInv s op s' : WInv s -> env_step s op = Some s' -> WInv s'.
Proof.
  intros Hw Hs. unfold WInv in *. unfold env_step in Hs.
  destruct_matches Hs; try discriminate; inversion Hs; subst; proj; try exact Hw; try discriminate.
  all: intros Hpc'; try discriminate; try (apply Hw; congruence).
Qed.

Theorem prio1_no_wait_when_idle : forall s0 s, Init1 s0 -> reachable fixed dv s0 s -> pcs s = WaitFb -> 1 <= H s ->
  (prios s <> [] -> sum_list (map (get (strategic s)) (prios s)) = H s) -> 0 < sum (actual s).
Proof.
  intros s0 s I Hr Hpc HH Hsum.
  assert (Hw : WInv s).
  { clear Hpc HH Hsum. induction Hr as [|s o s' Hr IH Hs|s op s' Hr IH Hs].
    - intros Hpc. rewrite (in_pc s0 I) in Hpc. discriminate.
    - eapply sched_step_WInv; [|exact Hs]. eapply (reachable_inv fixed dv dv_wf); eauto.
    - eapply env_step_WInv; eauto. }
  destruct (N.eq_dec (sum (actual s)) 0) as [Hz|Hnz]; [exfalso; exact (Hw Hpc Hz HH Hsum)|lia].
Qed.
Print Assumptions prio1_no_wait_when_idle.

(* ---- the regime of a graceful stop in progress ---- *)
Definition ahead (s : st) (rest : list N) : Prop :=
  forall p, In p (prios s) -> drained s p = true \/ (In p rest /\ 1 <= get (tactic s) p).
Definition alldr (s : st) : Prop := forall p, In p (prios s) -> drained s p = true.
(* the final round: it started with nothing in flight, so every registered priority has a positive allowance *)
Definition GPhase (s : st) : Prop :=
  match pcs s with
  | Prio P1 rest proc => proc = 0 /\ ahead s rest
  | Read P1 p rest proc _ => proc = 0 /\ ahead s (p :: rest)
  | Recalc proc => proc = 0 /\ alldr s
  | Prio P2 _ proc => proc = 0 /\ alldr s
  | Read P2 _ _ proc _ => proc = 0 /\ alldr s
  | EndBase proc => proc = 0 /\ alldr s
  | Drain _ => True
  | Done _ => True
  | _ => False
  end.

Record GReg (g : bool) (s : st) : Prop := {
  g_inv : Inv s; g_rest : rest_ok s; g_sh : Shares s; g_ce : closed_empty s;
  g_zero : sum (actual s) = 0; g_fb : fbq s = [];
  g_st : stopped s = false; g_gr : graceful s = true; g_cmds : cmds s = [];
  g_ns : not_send (pcs s); g_nw : pcs s <> WaitFb; g_ne : noerr (pcs s);
  g_good : g = true -> GPhase s }.

Definition same_g (s s' : st) : Prop :=
  H s' = H s /\ prios s' = prios s /\ strategic s' = strategic s /\ chan_of s' = chan_of s /\ closed s' = closed s /\
  inq s' = inq s /\ actual s' = actual s /\ fbq s' = fbq s /\ stopped s' = stopped s /\ graceful s' = graceful s /\
  cmds s' = cmds s.

Lemma greg_frame g g' s s' : GReg g s -> Inv s' -> rest_ok s' -> same_g s s' ->
  not_send (pcs s') -> pcs s' <> WaitFb -> noerr (pcs s') -> (g' = true -> GPhase s') -> GReg g' s'.
Proof.
  intros [Hinv Hrest [h1 h2 h3 h4] Hce Hz Hfb Hst Hgr Hcm Hns Hnw Hne Hg] Hi Hr
         (EH & Ep & Es & Ech & Ecl & Ei & Ea & Ef & Est & Egr & Ecm) Hns' Hnw' Hne' Hg'.
  constructor; auto; try congruence.
  - constructor; rewrite ?EH, ?Ep, ?Es; auto.
  - unfold closed_empty. rewrite Ep, Ech, Ecl, Ei. exact Hce.
Qed.

Lemma step_recalc_same_g s proc : same_g s (step_recalc dv s proc) /\ drained (step_recalc dv s proc) = drained s.
Proof. unfold step_recalc. destruct_goal; repeat split; reflexivity. Qed.

Definition gpos (s : st) : nat :=
  let L := length (prios s) in
  match pcs s with
  | Done _ => 0 | Calc => 0 | WaitFb => 0 | Send _ _ _ _ _ => 0
  | Drain _ => 1 | Top => 1 | LimFb _ => 2 | Idle => 3 | EndBase _ => 4
  | Prio P2 rest _ => 2 * length rest + 5
  | Read P2 _ rest _ _ => 2 * length rest + 6
  | Recalc _ => 2 * L + 6
  | Prio P1 rest _ => 2 * length rest + 2 * L + 7
  | Read P1 _ rest _ _ => 2 * length rest + 2 * L + 8
  end%nat.

Definition is_target (s : st) : Prop := match pcs s with Calc | Done _ => True | _ => False end.
Lemma is_target_dec s : {is_target s} + {~ is_target s}.
Proof. unfold is_target. destruct (pcs s); auto. Qed.

Lemma forallb_alldr s : alldr s -> forallb (drained s) (prios s) = true.
Proof. intros Ha. apply forallb_forall. intros p Hp. now apply Ha. Qed.

Lemma auto_of_sched s s1 : sched_step fixed dv 0 s = Some s1 -> auto_step fixed dv s = Some s1.
Proof. intros E. unfold auto_step. rewrite E. reflexivity. Qed.
Lemma iter_auto_S n s s1 s' : auto_step fixed dv s = Some s1 -> iter_auto fixed dv n s1 = Some s' -> iter_auto fixed dv (S n) s = Some s'.
Proof. intros H1 H2. cbn [iter_auto]. rewrite H1. exact H2. Qed.
Lemma iter_auto_app k : forall n s s2 s', iter_auto fixed dv k s = Some s2 -> iter_auto fixed dv n s2 = Some s' ->
  iter_auto fixed dv (k + n) s = Some s'.
Proof.
  induction k as [|k IH]; intros n s s2 s' H1 H2; cbn [iter_auto Nat.add] in *.
  - inversion H1; subst. exact H2.
  - destruct (auto_step fixed dv s) as [s1|]; [|discriminate]. eapply IH; eauto.
Qed.

(* generic: no blocking + strictly decreasing variant => the target is reached within the variant's value *)
Section Reach.
Variable P T : st -> Prop.
Variable m : st -> nat.
Hypothesis T_dec : forall s, {T s} + {~ T s}.
Hypothesis progress : forall s, P s -> ~ T s -> exists s', auto_step fixed dv s = Some s' /\ P s' /\ (m s' < m s)%nat.
Lemma reach_by_variant : forall n s, (m s <= n)%nat -> P s ->
  exists k s', (k <= n)%nat /\ iter_auto fixed dv k s = Some s' /\ T s' /\ P s'.
Proof.
  induction n as [|n IH]; intros s Hm HP.
  - destruct (T_dec s) as [HT|HT]; [exists 0%nat, s; cbn [iter_auto]; auto|].
    destruct (progress s HP HT) as (s' & _ & _ & Hlt). lia.
  - destruct (T_dec s) as [HT|HT]; [exists 0%nat, s; cbn [iter_auto]; repeat split; auto; lia|].
    destruct (progress s HP HT) as (s' & Hs & HP' & Hlt).
    destruct (IH s' ltac:(lia) HP') as (k & s'' & Hk & Hi & HT'' & HP'').
    exists (S k), s''. split; [lia|]. split; [eapply iter_auto_S; eauto|auto].
Qed.
End Reach.

Section Graceful.
(* each divider call either adds exactly the dividend or adds nothing (what Fair/Rate do for an empty priority list) *)
Hypothesis sumrule : forall k ps n d, NoDup (keys d) -> sum (dv k ps n d) = sum d + n \/ sum (dv k ps n d) = sum d.

Lemma safe_divide_ok k ps n t : NoDup (keys t) -> n < two64 ->
  safe_divide (dv k) ps n (reset t) = inl (dv k ps n (reset t)).
Proof.
  intros ND Hn. unfold safe_divide, safe_sum. rewrite sum_reset. change (0 <? two64) with true. cbv iota.
  destruct (sumrule k ps n (reset t) (nodup_keys_reset _ ND)) as [Hs|Hs]; rewrite Hs, sum_reset, ?N.add_0_l.
  - apply N.ltb_lt in Hn. rewrite Hn. destruct (n =? 0); auto. apply N.ltb_lt in Hn. rewrite wrap_sub by auto.
    rewrite N.eqb_refl. reflexivity.
  - change (0 <? two64) with true. cbv iota. rewrite N.eqb_refl. reflexivity.
Qed.

Lemma step_recalc_noerr s proc : Inv s -> H s < two64 -> sum (actual s) + sum (tactic s) <= H s ->
  pcs (step_recalc dv s proc) = Prio P2 (prios s) proc \/ pcs (step_recalc dv s proc) = EndBase proc.
Proof.
  intros Hinv Hlt Hr. unfold step_recalc.
  rewrite safe_divide_ok by (try apply (i_ndt s Hinv); lia).
  assert (W1 : NoDup (keys (dv (ncalls s) (useful s) (H s) (reset (tactic s))))) by (apply dv_wf; apply nodup_keys_reset; apply (i_ndt s Hinv)).
  rewrite safe_divide_ok by (auto; lia).
  proj. destruct (filled _ _); auto.
Qed.

Ltac notsend := unfold not_send; proj; intros; discriminate.
Ltac triv := let e0 := fresh "e0" in intros e0; split; discriminate.
Ltac gposgoal Epc := unfold gpos; proj; rewrite ?Epc; cbv beta iota zeta; cbn [length]; lia.
Ltac sameg := unfold same_g; proj; repeat split; reflexivity.

Lemma greg_progress g s : GReg g s -> ~ is_target s ->
  exists s', auto_step fixed dv s = Some s' /\ GReg g s' /\ prios s' = prios s /\ (gpos s' < gpos s)%nat.
Proof.
  intros HR HnT. pose proof HR as HR0.
  destruct HR as [Hinv Hrest Hsh Hce Hz Hfb Hst Hgr Hcm Hns Hnw Hne Hg].
  assert (Hfr : forall s', sched_step fixed dv 0 s = Some s' -> same_g s s' ->
     not_send (pcs s') -> pcs s' <> WaitFb -> noerr (pcs s') -> (g = true -> GPhase s') -> GReg g s').
  { intros s' Hs'. apply (greg_frame g g s s' HR0).
    - eapply (sched_step_inv fixed dv dv_wf); eauto.
    - eapply (sched_step_rest fixed dv); eauto. }
  unfold is_target in HnT. unfold GPhase in Hg. unfold rest_ok in Hrest.
  destruct (pcs s) eqn:Epc.
  - (* Top *)
    assert (Hstep : sched_step fixed dv 0 s = Some (with_pc s Calc)).
    { unfold sched_step. rewrite Epc, Hst, Hcm, Hfb. reflexivity. }
    eexists; split; [apply auto_of_sched; exact Hstep|]. split; [|split; [reflexivity|gposgoal Epc]].
    apply (Hfr _ Hstep); [sameg|notsend|proj; discriminate|proj; triv|].
    intros Eg. destruct (Hg Eg).
  - (* Calc *) exfalso; apply HnT; exact I.
  - (* WaitFb *) exfalso; apply Hnw; reflexivity.
  - (* Prio *)
    destruct rest as [|p r].
    + assert (Hstep : sched_step fixed dv 0 s = Some (with_pc s (match ph with P1 => Recalc proc | P2 => EndBase proc end)))
        by (unfold sched_step; rewrite Epc; reflexivity).
      eexists; split; [apply auto_of_sched; exact Hstep|]. split; [|split; [reflexivity|destruct ph; gposgoal Epc]].
      apply (Hfr _ Hstep); [sameg|destruct ph; notsend|destruct ph; proj; discriminate|destruct ph; proj; triv|].
      intros Eg. specialize (Hg Eg). unfold GPhase; proj. destruct ph; [|exact Hg].
      destruct Hg as [Hp0 Hah]. split; [exact Hp0|]. intros p Hp. destruct (Hah p Hp) as [Hd|[[] _]]. exact Hd.
    + assert (Hstep : sched_step fixed dv 0 s = Some (with_pc s (if drained s p then Prio ph r proc else Read ph p r proc false)))
        by (unfold sched_step; rewrite Epc; reflexivity).
      eexists; split; [apply auto_of_sched; exact Hstep|].
      split; [|split; [reflexivity|destruct (drained s p); destruct ph; gposgoal Epc]].
      apply (Hfr _ Hstep); [sameg|destruct (drained s p); notsend|destruct (drained s p); proj; discriminate
                            |destruct (drained s p); proj; triv|].
      intros Eg. specialize (Hg Eg). unfold GPhase; proj. destruct (drained s p) eqn:Ed; [|exact Hg].
      destruct ph; [|exact Hg]. destruct Hg as [Hp0 Hah]. split; [exact Hp0|].
      intros q Hq. destruct (Hah q Hq) as [Hd|[[<-|Hr] Ht]]; auto.
  - (* Read *)
    assert (Hp : In p (prios s)) by (destruct Hrest as [pre E]; rewrite E; apply in_or_app; right; left; reflexivity).
    destruct (Hce p Hp) as (ch & Ech & Hcl & Hiq).
    destruct (N.eqb_spec (get (tactic s) p) 0) as [Et|Et].
    + assert (Hstep : sched_step fixed dv 0 s = Some (with_pc s (Prio ph rest proc))).
      { unfold sched_step; rewrite Epc. rewrite (proj2 (N.eqb_eq _ _) Et). reflexivity. }
      eexists; split; [apply auto_of_sched; exact Hstep|]. split; [|split; [reflexivity|destruct ph; gposgoal Epc]].
      apply (Hfr _ Hstep); [sameg|notsend|proj; discriminate|proj; triv|].
      intros Eg. specialize (Hg Eg). unfold GPhase; proj. destruct ph; [|exact Hg].
      destruct Hg as [Hp0 Hah]. split; [exact Hp0|].
      intros q Hq. destruct (Hah q Hq) as [Hd|[[<-|Hr] Ht]]; auto; try lia.
    + assert (Hstep : sched_step fixed dv 0 s = Some (mark_drained s p (Prio ph rest proc))).
      { unfold sched_step, chan_state; rewrite Epc. rewrite (proj2 (N.eqb_neq _ _) Et), Ech. cbv beta iota zeta.
        rewrite Hiq, Hcl, Hst. reflexivity. }
      eexists; split; [apply auto_of_sched; exact Hstep|]. split; [|split; [reflexivity|destruct ph; gposgoal Epc]].
      apply (Hfr _ Hstep); [sameg|notsend|proj; discriminate|proj; triv|].
      intros Eg. specialize (Hg Eg). unfold GPhase; proj. destruct ph.
      * destruct Hg as [Hp0 Hah]. split; [exact Hp0|]. unfold ahead; proj. unfold upd.
        intros q Hq. destruct (N.eqb_spec q p) as [->|Hne']; [left; reflexivity|].
        destruct (Hah q Hq) as [Hd|[[E|Hr] Ht]]; auto; try congruence.
      * destruct Hg as [Hp0 Had]. split; [exact Hp0|]. unfold alldr; proj. unfold upd.
        intros q Hq. destruct (N.eqb q p); auto.
  - (* Send *) exfalso. eapply Hns; reflexivity.
  - (* Recalc *)
    assert (Hr : sum (actual s) + sum (tactic s) <= H s) by (apply (i_round s Hinv); rewrite Epc; reflexivity).
    assert (Hstep : sched_step fixed dv 0 s = Some (step_recalc dv s proc)) by (unfold sched_step; rewrite Epc; reflexivity).
    destruct (step_recalc_same_g s proc) as [Hsg Edr].
    pose proof (step_recalc_noerr s proc Hinv (sh_H64 s Hsh) Hr) as Hpc'.
    assert (Epr : prios (step_recalc dv s proc) = prios s) by (destruct Hsg as (_ & Epr & _); exact Epr).
    eexists; split; [apply auto_of_sched; exact Hstep|]. split; [|split].
    + apply (Hfr _ Hstep Hsg).
      * destruct Hpc' as [E|E]; rewrite E; unfold not_send; intros; discriminate.
      * destruct Hpc' as [E|E]; rewrite E; discriminate.
      * destruct Hpc' as [E|E]; rewrite E; triv.
      * intros Eg. specialize (Hg Eg). destruct Hg as [Hp0 Had]. unfold GPhase, alldr.
        destruct Hpc' as [E|E]; rewrite E, ?Epr, ?Edr; auto.
    + exact Epr.
    + unfold gpos. rewrite Epr, Epc. destruct Hpc' as [E|E]; rewrite E; cbv beta iota zeta; lia.
  - (* EndBase *)
    destruct (N.eqb_spec proc 0) as [Ep0|Ep0].
    + destruct (forallb (drained s) (prios s)) eqn:Efa.
      * assert (Hstep : sched_step fixed dv 0 s = Some (with_pc s (Drain None))).
        { unfold sched_step; rewrite Epc, Hgr, Efa. rewrite (proj2 (N.eqb_eq _ _) Ep0). reflexivity. }
        eexists; split; [apply auto_of_sched; exact Hstep|]. split; [|split; [reflexivity|gposgoal Epc]].
        apply (Hfr _ Hstep); [sameg|notsend|proj; discriminate|proj; triv|]. intros _. exact I.
      * assert (Hstep : sched_step fixed dv 0 s = Some (with_pc s Idle)).
        { unfold sched_step; rewrite Epc, Hgr, Efa. rewrite (proj2 (N.eqb_eq _ _) Ep0). reflexivity. }
        eexists; split; [apply auto_of_sched; exact Hstep|]. split; [|split; [reflexivity|gposgoal Epc]].
        apply (Hfr _ Hstep); [sameg|notsend|proj; discriminate|proj; triv|].
        intros Eg. destruct (Hg Eg) as [_ Had]. rewrite (forallb_alldr s Had) in Efa. discriminate.
    + assert (Hstep : sched_step fixed dv 0 s = Some (with_pc s (LimFb (fblimit s)))).
      { unfold sched_step; rewrite Epc. rewrite (proj2 (N.eqb_neq _ _) Ep0). reflexivity. }
      eexists; split; [apply auto_of_sched; exact Hstep|]. split; [|split; [reflexivity|gposgoal Epc]].
      apply (Hfr _ Hstep); [sameg|notsend|proj; discriminate|proj; triv|].
      intros Eg. destruct (Hg Eg) as [Hp0 _]. contradiction.
  - (* Idle *)
    assert (Henv : env_step s Tick = Some (with_pc s (LimFb (fblimit s)))) by (unfold env_step; rewrite Epc; reflexivity).
    assert (Hstep : auto_step fixed dv s = Some (with_pc s (LimFb (fblimit s)))).
    { unfold auto_step, sched_step, env_step. rewrite Epc. reflexivity. }
    eexists; split; [exact Hstep|]. split; [|split; [reflexivity|gposgoal Epc]].
    apply (greg_frame g g s _ HR0); [eapply env_step_inv; eauto|eapply env_step_rest; [apply (g_rest _ _ HR0)|exact Henv]|sameg|notsend|proj; discriminate|proj; triv|].
    intros Eg. destruct (Hg Eg).
  - (* LimFb *)
    assert (Hstep : sched_step fixed dv 0 s = Some (with_pc s Top)).
    { unfold sched_step; rewrite Epc, Hst, Hfb. destruct k; reflexivity. }
    eexists; split; [apply auto_of_sched; exact Hstep|]. split; [|split; [reflexivity|gposgoal Epc]].
    apply (Hfr _ Hstep); [sameg|notsend|proj; discriminate|proj; triv|].
    intros Eg. destruct (Hg Eg).
  - (* Drain *)
    assert (Hstep : sched_step fixed dv 0 s = Some (with_pc s (Done e))).
    { unfold sched_step; rewrite Epc, Hz. reflexivity. }
    eexists; split; [apply auto_of_sched; exact Hstep|]. split; [|split; [reflexivity|gposgoal Epc]].
    apply (Hfr _ Hstep); [sameg|notsend|proj; discriminate| |intros _; exact I].
    proj. destruct e as [e1|]; [exfalso; apply (proj1 (Hne e1)); reflexivity|triv].
  - (* Done *) exfalso; apply HnT; exact I.
Qed.

Lemma greg_reach g s : GReg g s ->
  exists k s', (k <= gpos s)%nat /\ iter_auto fixed dv k s = Some s' /\ is_target s' /\ GReg g s' /\ prios s' = prios s.
Proof.
  intros HR.
  destruct (reach_by_variant (fun x => GReg g x /\ prios x = prios s) is_target gpos is_target_dec) with (n := gpos s) (s := s)
    as (k & s' & Hk & Hi & HT & HR' & Ep); auto.
  - intros x [HRx Epx] HnT. destruct (greg_progress g x HRx HnT) as (x' & Hs & HR' & Ep' & Hlt).
    exists x'. split; [exact Hs|]. split; [split; [exact HR'|congruence]|exact Hlt].
  - exists k, s'. auto.
Qed.

Lemma gpos_bound s : rest_ok s -> (gpos s <= 4 * length (prios s) + 7)%nat.
Proof.
  intros Hok. unfold rest_ok in Hok. unfold gpos.
  destruct (pcs s) eqn:Epc; cbv beta iota zeta; try lia; destruct Hok as [pre E]; rewrite E, app_length; cbn [length]; destruct ph; lia.
Qed.

(* the final round starts: nothing in flight, so the add-up path gives every registered priority its (positive) share;
   with no inputs at all the base path runs with an empty list *)
Lemma calc_start s : Inv s -> Shares s -> pcs s = Calc -> sum (actual s) = 0 ->
  exists s1, sched_step fixed dv 0 s = Some s1 /\ pcs s1 = Prio P1 (prios s) 0 /\ same_g s s1 /\
    (forall p, In p (prios s) -> 1 <= get (tactic s1) p).
Proof.
  intros Hinv Hsh Hpc Hz. exists (step_calc dv s). split; [unfold sched_step; rewrite Hpc; reflexivity|].
  unfold step_calc. rewrite Hz, N.sub_0_r. pose proof (sh_H s Hsh) as HH.
  destruct (N.ltb_spec (H s) 0) as [Hlt|_]; [lia|]. destruct (N.eqb_spec (H s) 0) as [E|_]; [lia|].
  assert (Hz' : forall p, get (actual s) p = 0) by (intros p; apply sum_zero_get; [apply (i_nda s Hinv)|exact Hz]).
  destruct (add_up_zero (prios s) (actual s) (strategic s) (reset (tactic s)) 0 Hz' (i_ndp s Hinv)) as (t' & Ea & G1 & _).
  rewrite Ea.
  assert (Hcase : prios s = [] \/ prios s <> []) by (destruct (prios s); [left; reflexivity|right; discriminate]).
  destruct Hcase as [Ep|Hne].
  - assert (Epk : 0 + sum_list (map (get (strategic s)) (prios s)) = 0) by (rewrite Ep; reflexivity).
    rewrite Epk. destruct (N.eqb_spec 0 (H s)) as [E|_]; [lia|].
    assert (Eu : uncrowded s = []) by (unfold uncrowded; rewrite Ep; reflexivity).
    unfold calc_base. rewrite Eu. rewrite safe_divide_ok by (try apply (i_ndt s Hinv); apply (sh_H64 s Hsh)).
    proj. cbn [filled forallb]. split; [reflexivity|]. split; [sameg|]. rewrite Ep. intros p [].
  - rewrite (sh_sum s Hsh Hne), N.add_0_l, N.eqb_refl. proj. split; [reflexivity|]. split; [sameg|].
    intros p Hp. rewrite (G1 p Hp). apply (sh_pos s Hsh p Hp).
Qed.

(* C07 for v1.  The statement of the task plus: the divider obeys the sum rule (section hypothesis `sumrule`; otherwise the
   division is rejected and the result is Done (Some (EDiv _))) and `Shares s` (1 <= H < 2^64, the strategic shares of the
   registered priorities are non-zero and add up to H; v1 New() does not check that, see graceful_needs_* below). *)
Theorem prio1_graceful_terminates_partial : forall s0 s, Init1 s0 -> reachable fixed dv s0 s ->
  stopped s = false -> graceful s = true -> cmds s = [] ->
  (forall p, In p (prios s) -> exists ch, chan_of s p = Some ch /\ closed s ch = true /\ inq s ch = []) ->
  sum (actual s) = 0 -> fbq s = [] -> (forall ph p x r n, pcs s <> Send ph p x r n) ->
  (forall e, pcs s <> Drain (Some e)) -> (forall e, pcs s <> Done (Some e)) ->
  Shares s ->
  exists n s', iter_auto fixed dv n s = Some s' /\ pcs s' = Done None /\ (n <= 8 * length (prios s) + 15)%nat.
Proof.
  intros s0 s I Hr Hst Hgr Hcm Hce Hz Hfb Hns Hnd1 Hnd2 Hsh.
  pose proof (reachable_inv fixed dv dv_wf _ _ I Hr) as Hinv.
  pose proof (reachable_rest fixed dv _ _ I Hr) as Hrest.
  assert (HR : GReg false s).
  { constructor; auto.
    - intros Hpc. pose proof (prio1_no_wait_when_idle s0 s I Hr Hpc (sh_H s Hsh) (sh_sum s Hsh)). lia.
    - intros e. split; auto.
    - discriminate. }
  destruct (greg_reach false s HR) as (k & s1 & Hk & Hi & HT & HR1 & Ep1).
  pose proof (gpos_bound s Hrest) as Hb.
  unfold is_target in HT. destruct (pcs s1) eqn:Epc1; try contradiction.
  - (* back at Calc: the final round *)
    destruct (calc_start s1 (g_inv _ _ HR1) (g_sh _ _ HR1) Epc1 (g_zero _ _ HR1)) as (s2 & E2 & Hpc2 & Hsg & Hpos).
    assert (Ep2 : prios s2 = prios s1) by (destruct Hsg as (_ & Ep2 & _); exact Ep2).
    assert (HR2 : GReg true s2).
    { apply (greg_frame false true s1 s2 HR1).
      - apply (sched_step_inv fixed dv dv_wf 0%nat s1 s2 (g_inv _ _ HR1) E2).
      - apply (sched_step_rest fixed dv 0%nat s1 s2 (g_rest _ _ HR1) E2).
      - exact Hsg.
      - rewrite Hpc2. unfold not_send; intros; discriminate.
      - rewrite Hpc2. discriminate.
      - rewrite Hpc2. intros e0; split; discriminate.
      - intros _. unfold GPhase. rewrite Hpc2. split; [reflexivity|]. intros p Hp. right. rewrite Ep2 in Hp. split; [exact Hp|].
        apply Hpos. exact Hp. }
    destruct (greg_reach true s2 HR2) as (k2 & s3 & Hk2 & Hi2 & HT3 & HR3 & Ep3).
    assert (Hg2 : (gpos s2 <= 4 * length (prios s) + 7)%nat).
    { unfold gpos. rewrite Hpc2, Ep2, Ep1. cbv beta iota zeta. lia. }
    pose proof (g_good _ _ HR3 eq_refl) as HG. unfold is_target in HT3. unfold GPhase in HG.
    destruct (pcs s3) eqn:Epc3; try contradiction.
    exists (k + S k2)%nat, s3. split; [eapply iter_auto_app; [exact Hi|]; eapply iter_auto_S; [apply auto_of_sched; exact E2|exact Hi2]|].
    split; [|lia].
    pose proof (g_ne _ _ HR3) as Hne. rewrite Epc3 in Hne. destruct e as [e1|]; [exfalso; apply (proj2 (Hne e1)); reflexivity|exact Epc3].
  - (* already done *)
    exists k, s1. split; [exact Hi|]. split; [|lia].
    pose proof (g_ne _ _ HR1) as Hne. rewrite Epc1 in Hne. destruct e as [e1|]; [exfalso; apply (proj2 (Hne e1)); reflexivity|exact Epc1].
Qed.
Print Assumptions prio1_graceful_terminates_partial.

End Graceful.
End Contract.

Print Assumptions prio1_bad_sum_detected.
Print Assumptions prio1_fault_stops.
Print Assumptions prio1_fault_stops_gen.
Print Assumptions prio1_new_calls_contract.
Print Assumptions prio1_call_contract_partial.
Print Assumptions prio1_calls_contract.
Print Assumptions prio1_calls_contract_new.
Print Assumptions prio1_drain_terminates.
Print Assumptions prio1_drain_terminates_nostop.
Print Assumptions prio1_no_wait_when_idle.
Print Assumptions prio1_graceful_terminates_partial.

(* ======================= non-vacuity, counterexamples, the built-in dividers ======================= *)
(* ---------- the built-in dividers obey the sum rule ---------- *)
Lemma fair_sumrule : forall (k : nat) ps n d, NoDup (keys d) -> sum (dv_example k ps n d) = sum d + n \/ sum (dv_example k ps n d) = sum d.
Proof. intros k ps n d ND. unfold dv_example. destruct ps as [|p r]; [right; reflexivity|]. left. apply fair_conserves; [discriminate|auto]. Qed.
Definition rate_dv : nat -> Divider := fun _ => rate part_q.
Lemma rate_dv_wf : forall k ps n d, NoDup (keys d) -> NoDup (keys (rate_dv k ps n d)).
Proof. intros k ps n d ND. unfold rate_dv. apply rate_keys. exact ND. Qed.
Lemma rate_sumrule : forall (k : nat) ps n d, NoDup (keys d) -> sum (rate_dv k ps n d) = sum d + n \/ sum (rate_dv k ps n d) = sum d.
Proof. intros k ps n d ND. unfold rate_dv. destruct ps as [|p r]; [right; reflexivity|]. left. apply rate_conserves; [discriminate|auto]. Qed.

(* ---------- 1. contract: a run with a recalculation (two divider calls in one step) ---------- *)
Definition c_s0 : st := init_state dv_example [(3, 5%nat); (1, 6%nat)] 2 (fun _ => true) 2.
Lemma c_nodup : NoDup (map fst [(3, 5%nat); (1, 6%nat)]).
Proof. cbn. repeat constructor; cbn; intros Hx; repeat (destruct Hx as [Hx|Hx]; [discriminate Hx|]); exact Hx. Qed.
Lemma c_init : Init1 c_s0.
Proof. apply init_state_Init1; [apply dv_example_wf|exact c_nodup]. Qed.
Definition c_script : list act :=
  [Env (Put 5 42); Sch 0; Sch 0; Sch 0; Sch 0; Sch 0; Env Take; Env (Release 3); Env StopCall; Sch 0; Sch 0; Sch 0; Sch 0].
Definition c_s1 : st := Eval vm_compute in match run true dv_example c_script c_s0 with Some s => s | None => c_s0 end.
Definition c_s2 : st := Eval vm_compute in match sched_step true dv_example 0 c_s1 with Some s => s | None => c_s0 end.
Example c_run : run true dv_example c_script c_s0 = Some c_s1 /\ sched_step true dv_example 0 c_s1 = Some c_s2.
Proof. split; vm_compute; reflexivity. Qed.
Lemma c_reach1 : reachable true dv_example c_s0 c_s1.
Proof. exact (run_reachable true dv_example c_script c_s0 c_s0 c_s1 (r_init _ _ _) (proj1 c_run)). Qed.
Example c_contract : pcs c_s1 = Recalc 1 /\ calls c_s1 = [([3; 1], 2)] /\
  calls c_s2 = [([3], 1); ([3], 2); ([3; 1], 2)] /\ pcs c_s2 = Prio P2 [3; 1] 1 /\
  (forall ps d, In (ps, d) (calls c_s2) -> NoDup ps /\ StronglySorted N.gt ps /\ d <= 2).
Proof.
  split; [reflexivity|]. split; [reflexivity|]. split; [reflexivity|]. split; [reflexivity|].
  apply (prio1_calls_contract_new true dv_example dv_example_wf [(3, 5%nat); (1, 6%nat)] 2 (fun _ => true) 2 c_s2).
  - exact c_nodup.
  - eapply r_sched; [exact c_reach1|exact (proj2 c_run)].
Qed.
(* the step-wise contract on the same step: the head call is new *)
Example c_call_contract : NoDup [3] /\ StronglySorted N.gt [3] /\ 1 <= H c_s1 /\ incl [3] (prios c_s2).
Proof.
  apply (prio1_call_contract_partial true dv_example 0%nat c_s1 c_s2
           (reachable_inv true dv_example dv_example_wf _ _ c_init c_reach1)
           (prio1_inputs_sorted true dv_example dv_example_wf _ _ c_init (init_state_sorted dv_example _ 2 (fun _ => true) 2 c_nodup) c_reach1)
           (proj2 c_run) [3] 1 [([3], 2); ([3; 1], 2)] eq_refl).
  discriminate.
Qed.

(* the literal statement of prio1_call_contract (without "a call was made") is false: the log of an arbitrary state satisfying Inv
   is arbitrary, and a step that makes no call leaves it alone *)
Lemma Init1_with_calls s cs : Init1 s -> Init1 (with_calls s cs).
Proof. intros [a b c d e f g h i j k l m n o p q]. constructor; auto. Qed.
Definition cx1_s : st := with_calls (init_state dv_example [] 1 (fun _ => true) 1) [([1; 1], 5)].
Lemma cx1_init : Init1 cx1_s.
Proof. apply Init1_with_calls. apply init_state_Init1; [apply dv_example_wf|]. cbn. constructor. Qed.
Example call_contract_needs_new_call :
  Inv cx1_s /\ StronglySorted N.gt (prios cx1_s) /\
  exists s', sched_step true dv_example 0 cx1_s = Some s' /\ calls s' = ([1; 1], 5) :: [] /\ ~ NoDup [1; 1] /\ ~ 5 <= H cx1_s.
Proof.
  split; [apply Init1_Inv; exact cx1_init|]. split; [cbn; constructor|].
  eexists. split; [vm_compute; reflexivity|]. split; [reflexivity|]. split.
  - intros ND. inversion ND as [|? ? Hn _]; subst. apply Hn. left; reflexivity.
  - cbn. lia.
Qed.
(* ... and prio1_calls_contract needs the premise about the initial log *)
Example calls_contract_needs_log_premise :
  Init1 cx1_s /\ StronglySorted N.gt (prios cx1_s) /\ reachable true dv_example cx1_s cx1_s /\ In ([1; 1], 5) (calls cx1_s) /\ ~ NoDup [1; 1].
Proof.
  split; [exact cx1_init|]. split; [cbn; constructor|]. split; [apply r_init|]. split; [left; reflexivity|].
  intros ND. inversion ND as [|? ? Hn _]; subst. apply Hn. left; reflexivity.
Qed.

(* ---------- 2. fault handling: a divider that misbehaves from its second call on ---------- *)
Definition bad_dv : nat -> Divider := fun k => match k with O => fair | _ => fun ps n d => add (fair ps n d) 99 2 end.
Lemma bad_dv_wf : forall k ps n d, NoDup (keys d) -> NoDup (keys (bad_dv k ps n d)).
Proof. intros k ps n d ND. unfold bad_dv. destruct k; [|apply nodup_keys_add]; apply (dv_example_wf 0); exact ND. Qed.
Definition f_s0 : st := init_state bad_dv [(3, 5%nat); (1, 6%nat)] 2 (fun _ => true) 2.
Lemma f_init : Init1 f_s0.
Proof. apply init_state_Init1; [apply bad_dv_wf|exact c_nodup]. Qed.
(* one item is delivered; the recalculation calls the divider again: one unit too many *)
Definition f_script : list act := [Env (Put 5 42); Sch 0; Sch 0; Sch 0; Sch 0; Sch 0; Sch 0; Sch 0; Sch 0; Sch 0; Sch 0].
Definition f_s1 : st := Eval vm_compute in match run true bad_dv f_script f_s0 with Some s => s | None => f_s0 end.
(* afterwards: more data arrives, the handler takes the delivered item and releases it *)
Definition f_script2 : list act := [Env (Put 6 7); Env (Put 5 43); Env Take; Env (Release 3)].
Definition f_s2 : st := Eval vm_compute in match run true bad_dv f_script2 f_s1 with Some s => s | None => f_s0 end.
Example f_run : run true bad_dv f_script f_s0 = Some f_s1 /\ run true bad_dv f_script2 f_s1 = Some f_s2.
Proof. split; vm_compute; reflexivity. Qed.
Lemma f_reach1 : reachable true bad_dv f_s0 f_s1.
Proof. exact (run_reachable true bad_dv f_script f_s0 f_s0 f_s1 (r_init _ _ _) (proj1 f_run)). Qed.
Lemma f_reach2 : reachable true bad_dv f_s1 f_s2.
Proof. exact (run_reachable true bad_dv f_script2 f_s1 f_s1 f_s2 (r_init _ _ _) (proj2 f_run)). Qed.
Example f_fault : pcs f_s1 = Drain (Some (EDiv DividerBad)) /\ delivered f_s1 = [(3, 42)] /\ sum (actual f_s1) = 1 /\
  pcs f_s2 = Drain (Some (EDiv DividerBad)) /\ inq f_s2 5%nat = [43] /\ inq f_s2 6%nat = [7] /\ fbq f_s2 = [3] /\
  (* whatever happens next: *)
  (forall s', reachable true bad_dv f_s2 s' ->
     (pcs s' = Drain (Some (EDiv DividerBad)) \/ pcs s' = Done (Some (EDiv DividerBad))) /\
     delivered s' = [(3, 42)] /\ reads s' = [(5%nat, 3, 42)]) /\
  (* and the drain loop ends, for every resolution of the selects *)
  (forall os, exists s', iter_sched true bad_dv os 2 f_s2 = Some s' /\ pcs s' = Done (Some (EDiv DividerBad))).
Proof.
  repeat (split; [reflexivity|]). split.
  - intros s' Hr.
    assert (Hr' : reachable true bad_dv f_s1 s').
    { clear -Hr. induction Hr; [exact f_reach2|eapply r_sched; eauto|eapply r_env; eauto]. }
    exact (prio1_fault_stops true bad_dv f_s0 f_s1 s' (EDiv DividerBad) f_init f_reach1 eq_refl Hr').
  - intros os.
    assert (Hinv : Inv f_s2).
    { apply (reachable_inv true bad_dv bad_dv_wf f_s0 f_s2 f_init).
      clear. pose proof f_reach2 as Hr. induction Hr; [exact f_reach1|eapply r_sched; eauto|eapply r_env; eauto]. }
    exact (prio1_drain_terminates_nostop true bad_dv bad_dv_wf os f_s2 (Some (EDiv DividerBad)) Hinv eq_refl eq_refl eq_refl).
Qed.

(* the drain loop after Stop(): the stop alternative may end it before the queued release is consumed, so "exactly
   S (length fbq) steps" holds only when not stopped *)
Definition d_script : list act := c_script ++ [Sch 0; Sch 0; Sch 0; Sch 0; Sch 0; Sch 0; Sch 0; Sch 0; Sch 0].
Definition d_s : st := Eval vm_compute in match run true dv_example d_script c_s0 with Some s => s | None => c_s0 end.
Example d_run : run true dv_example d_script c_s0 = Some d_s.
Proof. vm_compute; reflexivity. Qed.
Example drain_exact_count_needs_not_stopped :
  Inv d_s /\ pcs d_s = Drain None /\ sum (actual d_s) = N.of_nat (length (fbq d_s)) /\ fbq d_s = [3] /\ stopped d_s = true /\
  iter_sched true dv_example (fun _ => 0%nat) 2 d_s = None /\
  option_map pcs (iter_sched true dv_example (fun _ => 0%nat) 1 d_s) = Some (Done None) /\
  option_map pcs (iter_sched true dv_example (fun _ => 1%nat) 2 d_s) = Some (Done None).
Proof.
  split.
  - apply (reachable_inv true dv_example dv_example_wf c_s0 d_s c_init).
    exact (run_reachable true dv_example d_script c_s0 c_s0 d_s (r_init _ _ _) d_run).
  - repeat split; vm_compute; reflexivity.
Qed.

(* ---------- 3. graceful termination ---------- *)
Definition g_script : list act :=
  [Env (Put 5 42); Sch 0; Sch 0; Sch 0; Sch 0; Sch 0; Env Take; Env (Release 3); Env (Close 5); Env (Close 6); Env GracefulCall].
Definition g_s1 : st := Eval vm_compute in match run true dv_example g_script c_s0 with Some s => s | None => c_s0 end.
(* the release is consumed 11 steps later *)
Definition g_s2 : st := Eval vm_compute in match iter_auto true dv_example 11 g_s1 with Some s => s | None => c_s0 end.
Example g_run : run true dv_example g_script c_s0 = Some g_s1 /\ iter_auto true dv_example 11 g_s1 = Some g_s2.
Proof. split; vm_compute; reflexivity. Qed.
Lemma g_reach : reachable true dv_example c_s0 g_s2.
Proof.
  apply (iter_auto_reachable true dv_example 11 c_s0 g_s1 g_s2); [|exact (proj2 g_run)].
  exact (run_reachable true dv_example g_script c_s0 c_s0 g_s1 (r_init _ _ _) (proj1 g_run)).
Qed.
Lemma g_shares : Shares g_s2.
Proof.
  constructor.
  - cbn. lia.
  - vm_compute. reflexivity.
  - intros _. vm_compute. reflexivity.
  - intros p Hp. cbn in Hp. destruct Hp as [<-|[<-|[]]]; vm_compute; discriminate.
Qed.
Example g_graceful : pcs g_s2 = LimFb 0 /\ delivered g_s2 = [(3, 42)] /\
  (exists n s', iter_auto true dv_example n g_s2 = Some s' /\ pcs s' = Done None /\ (n <= 31)%nat) /\
  option_map pcs (iter_auto true dv_example 12 g_s2) = Some (Done None).
Proof.
  split; [reflexivity|]. split; [reflexivity|]. split; [|vm_compute; reflexivity].
  apply (prio1_graceful_terminates_partial true dv_example dv_example_wf fair_sumrule c_s0 g_s2 c_init g_reach); try reflexivity.
  - intros p Hp. cbn in Hp. destruct Hp as [<-|[<-|[]]]; [exists 5%nat|exists 6%nat]; repeat split; reflexivity.
  - intros; discriminate.
  - intros; discriminate.
  - intros; discriminate.
  - exact g_shares.
Qed.

(* ---- the statement of the task without the extra premises is false: three kernel-checked counterexamples ---- *)
(* (a) HandlersQuantity = 0 (Init1 allows it): Calc finds nothing to distribute and waits for a release that never comes *)
Definition h0_s0 : st := init_state dv_example [] 0 (fun _ => true) 1.
Definition h0_s : st := Eval vm_compute in match env_step h0_s0 GracefulCall with Some s => s | None => h0_s0 end.
Lemma h0_init : Init1 h0_s0.
Proof. apply init_state_Init1; [apply dv_example_wf|]. cbn. constructor. Qed.
Example graceful_needs_H_positive :
  Init1 h0_s0 /\ reachable true dv_example h0_s0 h0_s /\
  stopped h0_s = false /\ graceful h0_s = true /\ cmds h0_s = [] /\
  (forall p, In p (prios h0_s) -> exists ch, chan_of h0_s p = Some ch /\ closed h0_s ch = true /\ inq h0_s ch = []) /\
  sum (actual h0_s) = 0 /\ fbq h0_s = [] /\ (forall ph p x r n, pcs h0_s <> Send ph p x r n) /\
  (forall e, pcs h0_s <> Drain (Some e)) /\ (forall e, pcs h0_s <> Done (Some e)) /\
  forall n s', iter_auto true dv_example n h0_s = Some s' -> pcs s' <> Done None.
Proof.
  split; [exact h0_init|]. split; [apply (r_env true dv_example h0_s0 h0_s0 GracefulCall h0_s); [apply r_init|vm_compute; reflexivity]|].
  repeat (split; [reflexivity|]). split; [intros p []|]. repeat (split; [reflexivity|]).
  repeat (split; [intros; discriminate|]).
  intros n s' Hi. destruct n as [|[|[|n]]]; vm_compute in Hi; inversion Hi; subst; discriminate.
Qed.

(* (b) a divider that breaks the sum rule: the division is rejected, the result is the error, not nil *)
Definition bad2_dv : nat -> Divider := fun _ ps n d => add (fair ps n d) 99 2.
Lemma bad2_dv_wf : forall k ps n d, NoDup (keys d) -> NoDup (keys (bad2_dv k ps n d)).
Proof. intros k ps n d ND. unfold bad2_dv. apply nodup_keys_add. apply (dv_example_wf 0). exact ND. Qed.
Definition b2_s0 : st := init_state bad2_dv [] 1 (fun _ => true) 1.
Definition b2_s : st := Eval vm_compute in match env_step b2_s0 GracefulCall with Some s => s | None => b2_s0 end.
Lemma b2_init : Init1 b2_s0.
Proof. apply init_state_Init1; [apply bad2_dv_wf|]. cbn. constructor. Qed.
Example graceful_needs_sum_rule :
  Init1 b2_s0 /\ reachable true bad2_dv b2_s0 b2_s /\
  stopped b2_s = false /\ graceful b2_s = true /\ cmds b2_s = [] /\
  (forall p, In p (prios b2_s) -> exists ch, chan_of b2_s p = Some ch /\ closed b2_s ch = true /\ inq b2_s ch = []) /\
  sum (actual b2_s) = 0 /\ fbq b2_s = [] /\ (forall ph p x r n, pcs b2_s <> Send ph p x r n) /\
  (forall e, pcs b2_s <> Drain (Some e)) /\ (forall e, pcs b2_s <> Done (Some e)) /\
  1 <= H b2_s < two64 /\
  option_map pcs (iter_auto true bad2_dv 3 b2_s) = Some (Done (Some (EDiv DividerBad))) /\
  forall n s', iter_auto true bad2_dv n b2_s = Some s' -> pcs s' <> Done None.
Proof.
  split; [exact b2_init|]. split; [apply (r_env true bad2_dv b2_s0 b2_s0 GracefulCall b2_s); [apply r_init|vm_compute; reflexivity]|].
  repeat (split; [reflexivity|]). split; [intros p []|]. repeat (split; [reflexivity|]).
  repeat (split; [intros; discriminate|]).
  split; [split; [cbn; lia|vm_compute; reflexivity]|]. split; [vm_compute; reflexivity|].
  intros n s' Hi. destruct n as [|[|[|[|n]]]]; vm_compute in Hi; inversion Hi; subst; discriminate.
Qed.

(* (c) a zero share: sum rule, 1 <= H < 2^64 and "the shares add up to H" all hold, but priority 1 gets no share from the Rate
   divider, neither strategically nor in the recalculation -- its closed, empty input is never visited with a non-zero allowance,
   so it is never marked drained and GracefulStop() never completes: the scheduler goes Calc -> ... -> Idle -> Calc for ever.
   (Same configuration as the known finding D4, Prio1D4.v.)  Proved for every n, not just a bounded witness: the ghost fields
   (ncalls, calls) are the only thing that changes over one lap, and they are never inspected. *)
Definition with_ghost (s : st) (n : nat) (cs : list (list N * N)) : st :=
  mkSt (H s) (prios s) (strategic s) (actual s) (tactic s) (chan_of s) (drained s) (inq s) (closed s) (buffered s)
       (outq s) (outcap s) (held s) (fbq s) (fblimit s) (stopped s) (graceful s) (cmds s) (pcs s) n
       (delivered s) cs (reads s) (dropped s) (written s).
Definition z_s0 : st := init_state rate_dv [(3, 0%nat); (2, 1%nat); (1, 2%nat)] 1 (fun _ => true) 1.
Definition z_script : list act := [Env (Close 0); Env (Close 1); Env (Close 2); Env GracefulCall].
Definition z_s : st := Eval vm_compute in match run true rate_dv z_script z_s0 with Some s => s | None => z_s0 end.
Definition z_c : st := Eval vm_compute in match iter_auto true rate_dv 20 z_s with Some s => s | None => z_s0 end.
Lemma z_init : Init1 z_s0.
Proof.
  apply init_state_Init1; [apply rate_dv_wf|]. cbn.
  repeat constructor; cbn; intros Hx; repeat (destruct Hx as [Hx|Hx]; [discriminate Hx|]); exact Hx.
Qed.
Lemma z_run : run true rate_dv z_script z_s0 = Some z_s /\ iter_auto true rate_dv 20 z_s = Some z_c.
Proof. split; vm_compute; reflexivity. Qed.
Definition not_done_b (o : option st) : bool :=
  match o with Some s => match pcs s with Done _ => false | _ => true end | None => true end.
Lemma z_lap n cs : iter_auto true rate_dv 16 (with_ghost z_c n cs) = Some (with_ghost z_c (S (S n)) (([2], 1) :: ([2; 1], 1) :: cs)).
Proof. vm_compute. reflexivity. Qed.
Lemma z_lap_notdone n cs : forallb (fun r => not_done_b (iter_auto true rate_dv r (with_ghost z_c n cs))) (seq 0 16) = true.
Proof. vm_compute. reflexivity. Qed.
Lemma z_prefix_notdone : forallb (fun r => not_done_b (iter_auto true rate_dv r z_s)) (seq 0 20) = true.
Proof. vm_compute. reflexivity. Qed.
Lemma iter_auto_split fixed dv a : forall b s,
  iter_auto fixed dv (a + b) s = match iter_auto fixed dv a s with Some s1 => iter_auto fixed dv b s1 | None => None end.
Proof.
  induction a as [|a IH]; intros b s; cbn [iter_auto Nat.add]; [reflexivity|].
  destruct (auto_step fixed dv s) as [s1|]; [apply IH|reflexivity].
Qed.
Lemma z_never m : forall n cs r, (r < 16)%nat -> not_done_b (iter_auto true rate_dv (16 * m + r) (with_ghost z_c n cs)) = true.
Proof.
  induction m as [|m IH]; intros n cs r Hr.
  - replace (16 * 0 + r)%nat with r by lia. pose proof (z_lap_notdone n cs) as Hall. rewrite forallb_forall in Hall.
    apply Hall. apply in_seq. lia.
  - replace (16 * S m + r)%nat with (16 + (16 * m + r))%nat by lia. rewrite iter_auto_split, z_lap. apply IH. exact Hr.
Qed.
Theorem z_livelock : forall n s', iter_auto true rate_dv n z_s = Some s' -> forall e, pcs s' <> Done e.
Proof.
  intros n s' Hi e Hd.
  assert (Hnd : not_done_b (iter_auto true rate_dv n z_s) = true).
  { destruct (Nat.lt_ge_cases n 20) as [Hlt|Hge].
    - pose proof z_prefix_notdone as Hall. rewrite forallb_forall in Hall. apply Hall. apply in_seq. lia.
    - pose proof (Nat.div_mod (n - 20) 16 ltac:(lia)) as Hdm. pose proof (Nat.mod_upper_bound (n - 20) 16 ltac:(lia)) as Hm.
      replace n with (20 + (16 * ((n - 20) / 16) + (n - 20) mod 16))%nat by lia.
      rewrite iter_auto_split, (proj2 z_run).
      change z_c with (with_ghost z_c (ncalls z_c) (calls z_c)). apply z_never. exact Hm. }
  rewrite Hi in Hnd. cbn [not_done_b] in Hnd. rewrite Hd in Hnd. discriminate.
Qed.
Example graceful_needs_positive_shares :
  Init1 z_s0 /\ reachable true rate_dv z_s0 z_s /\
  stopped z_s = false /\ graceful z_s = true /\ cmds z_s = [] /\
  (forall p, In p (prios z_s) -> exists ch, chan_of z_s p = Some ch /\ closed z_s ch = true /\ inq z_s ch = []) /\
  sum (actual z_s) = 0 /\ fbq z_s = [] /\ (forall ph p x r n, pcs z_s <> Send ph p x r n) /\
  (forall e, pcs z_s <> Drain (Some e)) /\ (forall e, pcs z_s <> Done (Some e)) /\
  (* the divider is the built-in Rate (sum rule: rate_sumrule), and of `Shares` only the positivity fails: *)
  1 <= H z_s < two64 /\ sum_list (map (get (strategic z_s)) (prios z_s)) = H z_s /\
  strategic z_s = [(3, 1); (2, 0); (1, 0)] /\
  forall n s', iter_auto true rate_dv n z_s = Some s' -> pcs s' <> Done None.
Proof.
  split; [exact z_init|]. split; [exact (run_reachable true rate_dv z_script z_s0 z_s0 z_s (r_init _ _ _) (proj1 z_run))|].
  repeat (split; [reflexivity|]). split.
  { intros p Hp. cbn in Hp. destruct Hp as [<-|[<-|[<-|[]]]]; [exists 0%nat|exists 1%nat|exists 2%nat]; repeat split; reflexivity. }
  repeat (split; [reflexivity|]). repeat (split; [intros; discriminate|]).
  split; [split; [cbn; lia|vm_compute; reflexivity]|]. split; [vm_compute; reflexivity|]. split; [vm_compute; reflexivity|].
  intros n s' Hi. exact (z_livelock n s' Hi None).
Qed.

(* ---------- the premise `Shares` is what real executions with the Fair divider have, as long as there are at most
   HandlersQuantity inputs: strategic = Fair(priorities, H) at all times (New, AddInput, RemoveInput) ---------- *)
Lemma get_zero_sum d : NoDup (keys d) -> (forall k, get d k = 0) -> sum d = 0.
Proof.
  induction d as [|[k v] r IH]; cbn [sum keys]; intros ND Hz; [reflexivity|].
  inversion ND as [|? ? Hn ND']; subst.
  assert (Hv : v = 0). { specialize (Hz k). cbn [get] in Hz. rewrite N.eqb_refl in Hz. exact Hz. }
  rewrite IH; [lia|exact ND'|].
  intros k'. destruct (N.eqb_spec k' k) as [->|Hne]; [apply get_notin; auto|].
  specialize (Hz k'). cbn [get] in Hz. destruct (N.eqb_spec k' k); [contradiction|auto].
Qed.
Lemma sum_on ps : forall d, NoDup ps -> NoDup (keys d) -> (forall k, ~ In k ps -> get d k = 0) ->
  sum d = sum_list (map (get d) ps).
Proof.
  induction ps as [|p r IH]; intros d NDp NDk Hz; cbn [map sum_list].
  - apply get_zero_sum; auto.
  - inversion NDp as [|? ? Hn NDr]; subst.
    pose proof (sum_set d p 0 NDk) as Hs.
    assert (IHd : sum (set d p 0) = sum_list (map (get (set d p 0)) r)).
    { apply IH; auto.
      - apply nodup_keys_set; auto.
      - intros k Hk. destruct (N.eqb_spec k p) as [->|Hne]; [apply get_set_same|].
        rewrite get_set_other by congruence. apply Hz. intros [E|E]; [congruence|contradiction]. }
    rewrite (map_ext_in (get (set d p 0)) (get d)) in IHd.
    + lia.
    + intros a Ha. apply get_set_other. intros ->. contradiction.
Qed.
Lemma fair_shares ps h : NoDup ps -> ps <> [] -> N.of_nat (length ps) <= h ->
  sum_list (map (get (fair ps h [])) ps) = h /\ forall p, In p ps -> 1 <= get (fair ps h []) p.
Proof.
  intros ND Hne Hle. split.
  - rewrite <- (sum_on ps (fair ps h [])); auto.
    + rewrite fair_conserves by (auto; constructor). reflexivity.
    + apply (dv_example_wf 0). constructor.
    + intros k Hk. rewrite fair_outside; auto.
  - intros p Hp. destruct (In_nth ps p 0 Hp) as (i & Hi & <-). rewrite fair_increment by auto. cbn [get].
    unfold fair_inc, fair_base.
    assert (Hn : N.of_nat (length ps) <> 0) by (destruct ps; [congruence|cbn [length]; lia]).
    assert (1 <= h / N.of_nat (length ps)) by (apply N.div_le_lower_bound; [exact Hn|lia]).
    lia.
Qed.

Definition fair_strat (s : st) : Prop := strategic s = fair (prios s) (H s) [].
Lemma sched_step_fair_strat fixed o s s' : fair_strat s -> sched_step fixed dv_example o s = Some s' -> fair_strat s'.
Proof.
  unfold fair_strat. intros Hf Hs. unfold sched_step, step_calc, calc_base, step_recalc, do_cmd, strategic_of in Hs.
  destruct_matches Hs; try discriminate; inversion Hs; subst; proj; try exact Hf; reflexivity.
Qed.
Lemma env_step_fair_strat s op s' : fair_strat s -> env_step s op = Some s' -> fair_strat s'.
Proof.
  unfold fair_strat. intros Hf Hs. unfold env_step in Hs.
  destruct_matches Hs; try discriminate; inversion Hs; subst; proj; exact Hf.
Qed.
Lemma reachable_fair_strat fixed s0 s : fair_strat s0 -> reachable fixed dv_example s0 s -> fair_strat s.
Proof.
  intros H0 Hr. induction Hr as [|s o s' Hr IH Hs|s op s' Hr IH Hs]; auto.
  - eapply sched_step_fair_strat; eauto.
  - eapply env_step_fair_strat; eauto.
Qed.

(* C07 for v1 with the built-in Fair divider, from New(): no premise about shares or the divider is left, only
   "at most HandlersQuantity inputs are registered" (and HandlersQuantity is a non-zero uint64) *)
Theorem prio1_graceful_terminates_fair : forall fixed cfg h bufs ocap s, NoDup (map fst cfg) ->
  reachable fixed dv_example (init_state dv_example cfg h bufs ocap) s ->
  1 <= h -> h < two64 -> N.of_nat (length (prios s)) <= h ->
  stopped s = false -> graceful s = true -> cmds s = [] ->
  (forall p, In p (prios s) -> exists ch, chan_of s p = Some ch /\ closed s ch = true /\ inq s ch = []) ->
  sum (actual s) = 0 -> fbq s = [] -> (forall ph p x r n, pcs s <> Send ph p x r n) ->
  (forall e, pcs s <> Drain (Some e)) -> (forall e, pcs s <> Done (Some e)) ->
  exists n s', iter_auto fixed dv_example n s = Some s' /\ pcs s' = Done None /\ (n <= 8 * length (prios s) + 15)%nat.
Proof.
  intros fixed cfg h bufs ocap s ND Hr H1 H64 Hlen Hst Hgr Hcm Hce Hz Hfb Hns Hd1 Hd2.
  pose proof (init_state_Init1 dv_example dv_example_wf cfg h bufs ocap ND) as I.
  apply (prio1_graceful_terminates_partial fixed dv_example dv_example_wf fair_sumrule _ s I Hr); auto.
  assert (EH : H s = h) by (rewrite (reachable_H fixed dv_example _ _ Hr); reflexivity).
  assert (Hfs : fair_strat s) by (apply (reachable_fair_strat fixed (init_state dv_example cfg h bufs ocap) s); [reflexivity|exact Hr]).
  pose proof (i_ndp s (reachable_inv fixed dv_example dv_example_wf _ _ I Hr)) as NDp.
  unfold fair_strat in Hfs. constructor; rewrite ?EH; auto.
  - intros Hne. rewrite Hfs, EH. apply fair_shares; auto.
  - intros p Hp. rewrite Hfs, EH. apply fair_shares; auto. intros E. rewrite E in Hp. destruct Hp.
Qed.

Print Assumptions c_contract.
Print Assumptions c_call_contract.
Print Assumptions call_contract_needs_new_call.
Print Assumptions calls_contract_needs_log_premise.
Print Assumptions f_fault.
Print Assumptions drain_exact_count_needs_not_stopped.
Print Assumptions g_graceful.
Print Assumptions graceful_needs_H_positive.
Print Assumptions graceful_needs_sum_rule.
Print Assumptions z_livelock.
Print Assumptions graceful_needs_positive_shares.
Print Assumptions prio1_graceful_terminates_fair.
