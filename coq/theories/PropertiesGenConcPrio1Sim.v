(* Property theorems (partial simulation of the v1 priority goroutine, GenTieConcPrio1.v part C): at the program counters WaitFb, Send, Read, Calc, Recalc the goroutine translated from the CURRENT Go sources does what Prio1.sched_step does -- in particular a breaker / context answer at a blocked feedback wait, output write or input read leads to the model's stop handling (tactic reset; the item in hand dropped; the read abandoned). Not covered: error exits, Top with commands, EndBase, Drain, the composition (see tools/gotrans/README.md). *)
From Coq Require Import List NArith ZArith Bool. From Cqos Require Import Base Divider Sched Prio1 GoSem GoConc GenV1Prio GenConcV1Prio GenTiePrio1Base GenTieConcPrio1. Import ListNotations. Open Scope N_scope.
Theorem C16_gen_conc_v1_sim_waitfb_stop :
  forall (g : divider_fn) (buf : N -> bool) (s : st) (cf : cfgT) (i : nat),
         RC g buf s cf ->
         pcs s = WaitFb ->
         i = 0%nat \/ i = 1%nat ->
         exists cb cf' : config cstate payload chan_id fname,
           reaches (table (cap_of buf)) cf cb /\
           step1 (table (cap_of buf)) cb = Block (RqSelect fbAlts false) /\
           reaches (table (cap_of buf)) (resume cb (AnsSel i None)) cf' /\
           RC g buf (with_tac s (reset (tactic s)) (Prio P1 (prios s) 0)) cf'.
Proof. exact @sim_waitfb_stop. Qed.
Print Assumptions C16_gen_conc_v1_sim_waitfb_stop.

Theorem C16_gen_conc_v1_sim_send_stop :
  forall (g : divider_fn) (buf : N -> bool) (s : st) (cf : cfgT) (ph : phase) 
           (p x : N) (r : list N) (proc : N) (i : nat),
         RC g buf s cf ->
         pcs s = Prio1.Send ph p x r proc ->
         i = 0%nat \/ i = 1%nat ->
         exists cb cf' : config cstate payload chan_id fname,
           reaches (table (cap_of buf)) cf cb /\
           step1 (table (cap_of buf)) cb = Block (RqSelect (outAlts p x) false) /\
           reaches (table (cap_of buf)) (resume cb (AnsSel i None)) cf' /\
           RC g buf (drop_item s p x (Read ph p r proc false)) cf'.
Proof. exact @sim_send_stop. Qed.
Print Assumptions C16_gen_conc_v1_sim_send_stop.

Theorem C16_gen_conc_v1_sim_read_stop :
  forall (g : divider_fn) (buf : N -> bool) (s : st) (cf : cfgT) (ph : phase) 
           (p : N) (r : list N) (proc : N) (intr : bool) (a : answer payload),
         RC g buf s cf ->
         pcs s = Read ph p r proc intr ->
         get (tactic s) p <> 0 ->
         a = AnsSel 0 None \/ a = AnsSel 1 None \/ a = AnsDefault /\ buf p = true ->
         exists cb cf' : config cstate payload chan_id fname,
           reaches (table (cap_of buf)) cf cb /\
           step1 (table (cap_of buf)) cb = Block (RqSelect (readAlts buf p) (buf p)) /\
           reaches (table (cap_of buf)) (resume cb a) cf' /\ RC g buf (with_pc s (Prio ph r proc)) cf'.
Proof. exact @sim_read_stop. Qed.
Print Assumptions C16_gen_conc_v1_sim_read_stop.

Theorem C01_gen_conc_v1_sim_calc :
  forall (dv : nat -> Divider) (g : divider_fn),
         div_ok g dv ->
         (forall (k : nat) (ps : list N) (n : N) (d : dist), NoDup (keys d) -> NoDup (keys (dv k ps n d))) ->
         (forall (k : nat) (ps : list N) (n : N) (a b : dist),
          NoDup (keys a) -> NoDup (keys b) -> deq a b -> deq (dv k ps n a) (dv k ps n b)) ->
         forall (buf : N -> bool) (s : st) (cf : cfgT),
         RC g buf s cf ->
         pcs s = Calc ->
         NoDup (keys (actual s)) ->
         NoDup (keys (tactic s)) ->
         sum (actual s) < u_modulus ->
         H s < u_modulus ->
         sum_list (map (get (strategic s)) (prios s)) < u_modulus ->
         (forall e : perr, pcs (step_calc dv s) <> Drain (Some e)) ->
         exists cf' : config cstate payload chan_id fname,
           reaches (table (cap_of buf)) cf cf' /\ RC g buf (step_calc dv s) cf'.
Proof. exact @sim_calc. Qed.
Print Assumptions C01_gen_conc_v1_sim_calc.

Theorem C01_gen_conc_v1_sim_recalc :
  forall (dv : nat -> Divider) (g : divider_fn),
         div_ok g dv ->
         (forall (k : nat) (ps : list N) (n : N) (d : dist), NoDup (keys d) -> NoDup (keys (dv k ps n d))) ->
         (forall (k : nat) (ps : list N) (n : N) (a b : dist),
          NoDup (keys a) -> NoDup (keys b) -> deq a b -> deq (dv k ps n a) (dv k ps n b)) ->
         forall (buf : N -> bool) (s : st) (cf : cfgT) (proc : N),
         RC g buf s cf ->
         pcs s = Recalc proc ->
         NoDup (keys (actual s)) ->
         NoDup (keys (tactic s)) ->
         sum (tactic s) < u_modulus ->
         (forall e : perr, pcs (step_recalc dv s proc) <> Drain (Some e)) ->
         exists cf' : config cstate payload chan_id fname,
           reaches (table (cap_of buf)) cf cf' /\ RC g buf (step_recalc dv s proc) cf'.
Proof. exact @sim_recalc. Qed.
Print Assumptions C01_gen_conc_v1_sim_recalc.

Theorem C01_gen_conc_v1_sim_send_out :
  forall (g : divider_fn) (buf : N -> bool) (s : st) (cf : cfgT) (ph : phase) 
           (p x : N) (r : list N) (proc : N),
         RC g buf s cf ->
         pcs s = Prio1.Send ph p x r proc ->
         1 <= get (tactic s) p ->
         get (tactic s) p < u_modulus ->
         get (actual s) p + 1 < u_modulus ->
         proc + 1 < u_modulus ->
         exists cb cf' : config cstate payload chan_id fname,
           reaches (table (cap_of buf)) cf cb /\
           step1 (table (cap_of buf)) cb = Block (RqSelect (outAlts p x) false) /\
           reaches (table (cap_of buf)) (resume cb (AnsSel 2 None)) cf' /\
           RC g buf (push_out s p x (Read ph p r (proc + 1) false)) cf'.
Proof. exact @sim_send_out. Qed.
Print Assumptions C01_gen_conc_v1_sim_send_out.

Theorem C02_gen_conc_v1_sim_read_item :
  forall (g : divider_fn) (buf : N -> bool) (s : st) (cf : cfgT) (ph : phase) 
           (p : N) (r : list N) (proc : N) (intr : bool) (ch : nat) (x : N) (q : list N),
         RC g buf s cf ->
         pcs s = Read ph p r proc intr ->
         get (tactic s) p <> 0 ->
         exists cb cf' : config cstate payload chan_id fname,
           reaches (table (cap_of buf)) cf cb /\
           step1 (table (cap_of buf)) cb = Block (RqSelect (readAlts buf p) (buf p)) /\
           reaches (table (cap_of buf)) (resume cb (AnsSel 2 (Some (PN x)))) cf' /\
           RC g buf (pop_in s ch p x q (Prio1.Send ph p x r proc)) cf'.
Proof. exact @sim_read_item. Qed.
Print Assumptions C02_gen_conc_v1_sim_read_item.

Theorem C06_gen_conc_v1_sim_waitfb_fb :
  forall (g : divider_fn) (buf : N -> bool) (s : st) (cf : cfgT) (p : N) (q : list N),
         RC g buf s cf ->
         pcs s = WaitFb ->
         fbq s = p :: q ->
         1 <= get (actual s) p ->
         get (actual s) p < u_modulus ->
         exists cb cf' : config cstate payload chan_id fname,
           reaches (table (cap_of buf)) cf cb /\
           step1 (table (cap_of buf)) cb = Block (RqSelect fbAlts false) /\
           reaches (table (cap_of buf)) (resume cb (AnsSel 2 (Some (PN p)))) cf' /\
           RC g buf (pop_fb s p q Calc) cf'.
Proof. exact @sim_waitfb_fb. Qed.
Print Assumptions C06_gen_conc_v1_sim_waitfb_fb.

Theorem C16_gen_conc_v1_sim_top_stop :
  forall (g : divider_fn) (buf : N -> bool) (s : st) (cf : cfgT) (i : nat),
         RC g buf s cf ->
         pcs s = Top ->
         i = 0%nat \/ i = 1%nat ->
         exists cb cf' : config cstate payload chan_id fname,
           reaches (table (cap_of buf)) cf cb /\
           step1 (table (cap_of buf)) cb = Block (RqSelect topAlts true) /\
           reaches (table (cap_of buf)) (resume cb (AnsSel i None)) cf' /\
           RC g buf (with_pc s (Drain None)) cf'.
Proof. exact @sim_top_stop. Qed.
Print Assumptions C16_gen_conc_v1_sim_top_stop.

Theorem C16_gen_conc_v1_sim_drain_stop :
  forall (g : divider_fn) (buf : N -> bool) (s : st) (cf : cfgT) (e : option perr) (i : nat),
         RC g buf s cf ->
         pcs s = Drain e ->
         NoDup (keys (actual s)) ->
         sum (actual s) <> 0 ->
         i = 0%nat \/ i = 1%nat ->
         exists cb cf' : config cstate payload chan_id fname,
           reaches (table (cap_of buf)) cf cb /\
           step1 (table (cap_of buf)) cb = Block (RqSelect fbAlts false) /\
           reaches (table (cap_of buf)) (resume cb (AnsSel i None)) cf' /\
           RCat g mainK (with_pc s (Done e)) cf'.
Proof. exact @sim_drain_stop. Qed.
Print Assumptions C16_gen_conc_v1_sim_drain_stop.

Theorem C17_gen_conc_v1_sim_top_add :
  forall (dv : nat -> Divider) (g : divider_fn),
         div_ok g dv ->
         forall (buf : N -> bool) (s : st) (cf : cfgT) (ia : inputAdd) (ch : nat) (rest : list cmd),
         RC g buf s cf ->
         pcs s = Top ->
         (forall q : N, In q (prios s) <-> chan_of s q <> None) ->
         desc (prios s) ->
         exists cb cf' : config cstate payload chan_id fname,
           reaches (table (cap_of buf)) cf cb /\
           step1 (table (cap_of buf)) cb = Block (RqSelect topAlts true) /\
           reaches (table (cap_of buf)) (resume cb (AnsSel 2 (Some (PinputAdd ia)))) cf' /\
           RC g buf (do_cmd dv s (CAdd ch (inputAdd_priority ia)) rest) cf'.
Proof. exact @sim_top_add. Qed.
Print Assumptions C17_gen_conc_v1_sim_top_add.

Theorem C17_gen_conc_v1_sim_top_rmv :
  forall (dv : nat -> Divider) (g : divider_fn),
         div_ok g dv ->
         forall (buf : N -> bool) (s : st) (cf : cfgT) (p : N) (rest : list cmd),
         RC g buf s cf ->
         pcs s = Top ->
         (Z.of_nat (length (prios s)) < i_half)%Z ->
         exists cb cf' : config cstate payload chan_id fname,
           reaches (table (cap_of buf)) cf cb /\
           step1 (table (cap_of buf)) cb = Block (RqSelect topAlts true) /\
           reaches (table (cap_of buf)) (resume cb (AnsSel 3 (Some (PN p)))) cf' /\
           RC g buf (do_cmd dv s (CRmv p) rest) cf'.
Proof. exact @sim_top_rmv. Qed.
Print Assumptions C17_gen_conc_v1_sim_top_rmv.

Theorem C07_gen_conc_v1_sim_endbase_graceful :
  forall (g : divider_fn) (buf : N -> bool) (s : st) (cf : cfgT),
         RC g buf s cf ->
         pcs s = EndBase 0 ->
         (forall p : N, In p (prios s) <-> chan_of s p <> None) ->
         exists cb cf' : config cstate payload chan_id fname,
           reaches (table (cap_of buf)) cf cb /\
           step1 (table (cap_of buf)) cb = Block (RqSelect [(CGracefulIsBreaked, None)] true) /\
           reaches (table (cap_of buf)) (resume cb (AnsSel 0 None)) cf' /\
           RC g buf (with_pc s (if forallb (drained s) (prios s) then Drain None else Idle)) cf'.
Proof. exact @sim_endbase_graceful. Qed.
Print Assumptions C07_gen_conc_v1_sim_endbase_graceful.

Theorem C07_gen_conc_v1_sim_drain_end :
  forall (g : divider_fn) (buf : N -> bool) (s : st) (cf : cfgT) (e : option perr),
         RC g buf s cf ->
         pcs s = Drain e ->
         NoDup (keys (actual s)) ->
         sum (actual s) = 0 ->
         exists cf' : config cstate payload chan_id fname,
           reaches (table (cap_of buf)) cf cf' /\ RCat g mainK (with_pc s (Done e)) cf'.
Proof. exact @sim_drain_end. Qed.
Print Assumptions C07_gen_conc_v1_sim_drain_end.

Theorem C07_gen_conc_v1_sim_read_closed :
  forall (g : divider_fn) (buf : N -> bool) (s : st) (cf : cfgT) (ph : phase) 
           (p : N) (r : list N) (proc : N) (intr : bool),
         RC g buf s cf ->
         pcs s = Read ph p r proc intr ->
         get (tactic s) p <> 0 ->
         chan_of s p <> None ->
         exists cb cf' : config cstate payload chan_id fname,
           reaches (table (cap_of buf)) cf cb /\
           step1 (table (cap_of buf)) cb = Block (RqSelect (readAlts buf p) (buf p)) /\
           reaches (table (cap_of buf)) (resume cb (AnsSel 2 None)) cf' /\
           RC g buf (mark_drained s p (Prio ph r proc)) cf'.
Proof. exact @sim_read_closed. Qed.
Print Assumptions C07_gen_conc_v1_sim_read_closed.

Theorem C06_gen_conc_v1_sim_top_fb :
  forall (g : divider_fn) (buf : N -> bool) (s : st) (cf : cfgT) (p : N) (q : list N),
         RC g buf s cf ->
         pcs s = Top ->
         fbq s = p :: q ->
         1 <= get (actual s) p ->
         get (actual s) p < u_modulus ->
         exists cb cf' : config cstate payload chan_id fname,
           reaches (table (cap_of buf)) cf cb /\
           step1 (table (cap_of buf)) cb = Block (RqSelect topAlts true) /\
           reaches (table (cap_of buf)) (resume cb (AnsSel 4 (Some (PN p)))) cf' /\
           RC g buf (pop_fb s p q Calc) cf'.
Proof. exact @sim_top_fb. Qed.
Print Assumptions C06_gen_conc_v1_sim_top_fb.

