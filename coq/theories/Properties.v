(* Property theorems only: statement / exact <lemma> / Print Assumptions.
   The per-property list of theorem names the check insists on is coq/obligations.json. *)
From Coq Require Import ZArith List.
From Cqos Require Import RateConv RateConvP.
Open Scope Z_scope.

(* ---------------------------------------------------------------- C13 *)
Theorem C13_recalculate : forall r m, in_range r m -> rate_spec r m (recalculate r m).
Proof. exact recalculate_meets_spec. Qed.
Print Assumptions C13_recalculate.
Theorem C13_optimize : forall r, in_range r 0 -> rate_spec r optimization_interval (optimize r).
Proof. exact optimize_meets_spec. Qed.
Print Assumptions C13_optimize.
Theorem C13_flatten : forall r, in_range r 0 -> rate_spec r 0 (flatten r).
Proof. exact flatten_meets_spec. Qed.
Print Assumptions C13_flatten.
(* regression: the pinned code (before the fix) returned an invalid rate without an error *)
Theorem C13_refuted_old : exists r m, in_range r m /\ is_valid r = None /\ 0 <= m /\
  exists r', recalculate_old r m = inl r' /\ is_valid r' <> None.
Proof. exact refuted_old. Qed.
Print Assumptions C13_refuted_old.
