(* Property theorems only: statement / exact <lemma> / Print Assumptions.
   The per-property list of theorem names the check insists on is coq/obligations.json. *)
From Coq Require Import ZArith List.
From Coq Require Import NArith.
From Cqos Require Prio1 Prio1P Prio1D4.
From Cqos Require Import Base RateConv RateConvP Divider DividerP Sched Float64 Utils UtilsP.
Open Scope Z_scope.

(* ---------------------------------------------------------------- C13 *)
Theorem C13_recalculate : forall r m, in_range r m -> rate_spec r m (recalculate r m).
Proof. exact recalculate_meets_spec. Qed.
Print Assumptions C13_recalculate.
Theorem C13_optimize : forall r, in_range r 0 -> rate_spec r optimization_interval (optimize r).
Proof. exact optimize_meets_spec. Qed.
Print Assumptions C13_optimize.
Theorem C13_flatten : forall r, in_range r 0 -> rate_spec r 0 (flatten r).
Proof. exact flatten_meets_spec. Qed.
Print Assumptions C13_flatten.
(* equivalence in the sharper reading: one more nanosecond of Interval and the returned rate is strictly slower than the
   original, one more element of Quantity and it is strictly faster *)
Theorem C13_speed_within_rounding : forall r m r', in_range r m -> is_valid r = None -> recalculate r m = inl r' ->
  qty r' * ivl r < qty r * (ivl r' + 1) /\ qty r * ivl r' < (qty r' + 1) * ivl r.
Proof. exact recalculate_within_one_ns. Qed.
Print Assumptions C13_speed_within_rounding.
(* regression: the pinned code (before the fix) returned an invalid rate without an error *)
Theorem C13_refuted_old : exists r m, in_range r m /\ is_valid r = None /\ 0 <= m /\
  exists r', recalculate_old r m = inl r' /\ is_valid r' <> None.
Proof. exact refuted_old. Qed.
Print Assumptions C13_refuted_old.

(* ---------------------------------------------------------------- C14 *)
Open Scope N_scope.
(* conservation: Fair and Rate (with ANY rounding function, hence also float64) add exactly the dividend *)
Theorem C14_fair_conserves : forall ps dividend d, ps <> nil -> NoDup (keys d) ->
  sum (fair ps dividend d) = sum d + dividend.
Proof. exact fair_conserves. Qed.
Print Assumptions C14_fair_conserves.
Theorem C14_rate_conserves : forall part ps dividend d, ps <> nil -> NoDup (keys d) ->
  sum (rate part ps dividend d) = sum d + dividend.
Proof. exact rate_conserves. Qed.
Print Assumptions C14_rate_conserves.
(* nothing outside the listed priorities changes *)
Theorem C14_fair_outside : forall ps dividend d q, NoDup ps -> ~ In q ps -> get (fair ps dividend d) q = get d q.
Proof. exact fair_outside. Qed.
Print Assumptions C14_fair_outside.
Theorem C14_rate_outside : forall part ps dividend d q, NoDup ps -> ~ In q ps -> get (rate part ps dividend d) q = get d q.
Proof. exact rate_outside. Qed.
Print Assumptions C14_rate_outside.
(* Fair: the i-th listed priority receives base + (1 if i < remainder), so increments differ by at most one and
   the extra units go to a prefix of the list (the highest priorities) *)
Theorem C14_fair_increment : forall ps dividend d i, NoDup ps -> (i < length ps)%nat ->
  get (fair ps dividend d) (nth i ps 0) = get d (nth i ps 0) + fair_inc (fair_base ps dividend) (fair_rem ps dividend) i.
Proof. exact fair_increment. Qed.
Print Assumptions C14_fair_increment.
Theorem C14_fair_shape : forall base rem i j, (i <= j)%nat ->
  fair_inc base rem j <= fair_inc base rem i <= fair_inc base rem j + 1.
Proof. exact fair_shape. Qed.
Print Assumptions C14_fair_shape.
(* Rate: the i-th listed priority receives rate_incs[i]; they sum to the dividend and are non-increasing for any
   rounding function that is monotone in the priority *)
Theorem C14_rate_increment : forall part ps dividend d i, NoDup ps -> (i < length ps)%nat ->
  get (rate part ps dividend d) (nth i ps 0) = get d (nth i ps 0) + nth i (rate_incs part ps dividend) 0.
Proof. exact rate_increment. Qed.
Print Assumptions C14_rate_increment.
Theorem C14_rate_incs_sum : forall part ps dividend, ps <> nil -> sum_list (rate_incs part ps dividend) = dividend.
Proof. exact rate_incs_sum. Qed.
Print Assumptions C14_rate_incs_sum.
Theorem C14_rate_monotone : forall part, (forall d0 S p q, q <= p -> part d0 S q <= part d0 S p) ->
  forall ps dividend, nonincreasing ps -> nonincreasing (rate_incs part ps dividend).
Proof. exact rate_incs_nonincreasing. Qed.
Print Assumptions C14_rate_monotone.
Theorem C14_part_q_monotone : forall d0 S p q, q <= p -> part_q d0 S q <= part_q d0 S p.
Proof. exact part_q_mono. Qed.
Print Assumptions C14_part_q_monotone.
Theorem C14_v1_eq_v2 : forall dv ps dividend d, ps <> nil -> v1_call dv ps dividend (Some d) = v2_call dv ps dividend (Some d).
Proof. exact v1_eq_v2. Qed.
Print Assumptions C14_v1_eq_v2.

(* ---------------------------------------------------------------- C18 *)
Theorem C18_combinations : forall ps c, In c (gen_combinations ps) <-> c <> nil /\ sublist c ps.
Proof. exact gen_combinations_spec. Qed.
Print Assumptions C18_combinations.
Theorem C18_combinations_count : forall ps, N.of_nat (length (gen_combinations ps)) + 1 = 2 ^ N.of_nat (length ps).
Proof. exact gen_combinations_length. Qed.
Print Assumptions C18_combinations_count.
Theorem C18_nonfatal_iff : forall ps dv q,
  is_nonfatal ps dv q = true <->
  forall c, c <> nil -> sublist c (sort_desc ps) -> forall p, In p c -> 1 <= get (dv c q nil) p.
Proof. exact nonfatal_iff. Qed.
Print Assumptions C18_nonfatal_iff.
Theorem C18_pick_min : forall pred max, let r := pick_min pred max in
  (r = 0 /\ forall k, 1 <= k <= max -> pred k = false) \/
  (1 <= r <= max /\ pred r = true /\ forall k, 1 <= k < r -> pred k = false).
Proof. exact pick_min_spec. Qed.
Print Assumptions C18_pick_min.
Theorem C18_pick_max : forall pred max, let r := pick_max pred max in
  (r = 0 /\ forall k, 1 <= k <= max -> pred k = false) \/
  (1 <= r <= max /\ pred r = true /\ forall k, r < k <= max -> pred k = false).
Proof. exact pick_max_spec. Qed.
Print Assumptions C18_pick_max.
Theorem C18_suitable_implies_nonfatal : forall ps dv q limit, is_suitable ps dv q limit = true -> is_nonfatal ps dv q = true.
Proof. exact suitable_implies_nonfatal. Qed.
Print Assumptions C18_suitable_implies_nonfatal.
Theorem C18_suitable_monotone : forall ps dv q l1 l2, (forall x, fgt x l2 = true -> fgt x l1 = true) ->
  is_suitable ps dv q l1 = true -> is_suitable ps dv q l2 = true.
Proof. exact suitable_monotone. Qed.
Print Assumptions C18_suitable_monotone.
Theorem C18_nonfatal_accepted : forall ps dv q, ps <> nil -> q < two64 ->
  (forall c, c <> nil -> sum (dv c q nil) = q) -> is_nonfatal ps dv q = true ->
  exists st, prepare_v2 dv ps q = inl (sort_desc ps, st) /\ forall p, In p ps -> 1 <= get st p.
Proof. exact nonfatal_accepted. Qed.
Print Assumptions C18_nonfatal_accepted.
(* regression about the pinned code: a zero share judged non-fatal (absent map keys were ignored) *)
Theorem C18_refuted_old :
  is_nonfatal_old (7 :: 5 :: 3 :: 1 :: nil) (rate part_q) 8 = true /\ get (rate part_q (7 :: 5 :: 3 :: 1 :: nil) 8 nil) 1 = 0 /\
  is_nonfatal (7 :: 5 :: 3 :: 1 :: nil) (rate part_q) 8 = false.
Proof. exact refuted_old_nonfatal. Qed.
Print Assumptions C18_refuted_old.

(* ---------------------------------------------------------------- C06, v1: the recorded known finding as a witness *)
Theorem C06_v1_refuted :
  Prio1.strategic Prio1D4.d4_s0 = ((3, 1) :: (2, 0) :: (1, 0) :: nil)%N /\
  Prio1.reachable true Prio1D4.d4_dv Prio1D4.d4_s0 Prio1D4.d4_s1 /\ Prio1.inq Prio1D4.d4_s1 2%nat = (7 :: nil)%N /\
  sum (Prio1.actual Prio1D4.d4_s1) = 0%N /\
  forall n, In n (10 :: 100 :: 500 :: 1000 :: 2000 :: nil)%nat ->
    match Prio1D4.d4_after n with
    | Some s => Prio1.delivered s = nil /\ Prio1.inq s 2%nat = (7 :: nil)%N /\ sum (Prio1.actual s) = 0%N /\ Prio1.stopped s = false
    | None => False
    end.
Proof. exact Prio1D4.C06_v1_zero_share_starves. Qed.
Print Assumptions C06_v1_refuted.
