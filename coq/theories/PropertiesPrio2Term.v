(* Property theorems: termination of the v2 priority discipline as a liveness statement over infinite executions under fairness (C07): once every input is closed, everything is delivered and released, the discipline reaches Done with no error. *)
From Coq Require Import List NArith Bool. From Cqos Require Import Base Divider Sched Prio2 Prio2P Prio2L Prio2Live Prio2Term. Import ListNotations. Open Scope N_scope.
Theorem C07_v2_eventually_done :
  forall (dv : nat -> Divider) (s0 : st) (tr : nat -> st) (lb : nat -> label),
         dv_ok dv ->
         InitL s0 ->
         H s0 < two64 ->
         (1 <= fblimit s0)%nat ->
         execution dv s0 tr lb ->
         F_sched dv tr lb ->
         F_take tr lb ->
         F_rel tr lb ->
         F_tick_w tr lb ->
         (forall p : N, In p (prios s0) -> exists i : nat, closed (tr i) p = true) ->
         exists j : nat,
           pcs (tr j) = Done None /\
           (forall p : N,
            In p (prios s0) ->
            map snd (filter (fun d : N * N => fst d =? p) (delivered (tr j))) = written (tr j) p) /\
           outq (tr j) = [] /\ held (tr j) = [] /\ fbq (tr j) = [].
Proof. exact @prio2_eventually_done_w. Qed.
Print Assumptions C07_v2_eventually_done.

Theorem C07_v2_eventually_done_new :
  forall (dv : nat -> Divider) (ps : list N) (h : N) (sorted : list N) (strat : dist) 
           (buf : N -> bool) (tr : nat -> st) (lb : nat -> label),
         ps <> [] ->
         dv_ok dv ->
         InitL (init_state ps h sorted strat buf) ->
         H (init_state ps h sorted strat buf) < two64 ->
         execution dv (init_state ps h sorted strat buf) tr lb ->
         F_sched dv tr lb ->
         F_take tr lb ->
         F_rel tr lb ->
         F_tick lb ->
         (forall p : N,
          In p (prios (init_state ps h sorted strat buf)) -> exists i : nat, closed (tr i) p = true) ->
         exists j : nat,
           pcs (tr j) = Done None /\
           (forall p : N,
            In p (prios (init_state ps h sorted strat buf)) ->
            map snd (filter (fun d : N * N => fst d =? p) (delivered (tr j))) = written (tr j) p) /\
           outq (tr j) = [] /\ held (tr j) = [] /\ fbq (tr j) = [].
Proof. exact @prio2_eventually_done_new. Qed.
Print Assumptions C07_v2_eventually_done_new.

Theorem C07_v2_eventually_finished :
  forall (dv : nat -> Divider) (s0 : st) (tr : nat -> st) (lb : nat -> label),
         dv_ok dv ->
         InitL s0 ->
         H s0 < two64 ->
         (1 <= fblimit s0)%nat ->
         execution dv s0 tr lb ->
         F_sched dv tr lb ->
         F_take tr lb ->
         F_rel tr lb ->
         F_tick_w tr lb ->
         (forall p : N, In p (prios s0) -> exists i : nat, closed (tr i) p = true) ->
         exists j : nat,
           forall k : nat,
           (j <= k)%nat ->
           pcs (tr k) = Done None /\
           (forall p : N,
            In p (prios s0) ->
            of_prio p (delivered (tr k)) = written (tr k) p /\
            written (tr k) p = written (tr j) p /\
            closed (tr k) p = true /\ inq (tr k) p = [] /\ drained (tr k) p = true) /\
           outq (tr k) = [] /\
           held (tr k) = [] /\
           fbq (tr k) = [] /\ sum (actual (tr k)) = 0 /\ delivered (tr k) = delivered (tr j).
Proof. exact @prio2_eventually_finished. Qed.
Print Assumptions C07_v2_eventually_finished.

Theorem C07_v2_done_stable :
  forall (dv : nat -> Divider) (s0 : st) (tr : nat -> st) (lb : nat -> label),
         execution dv s0 tr lb ->
         forall (j k : nat) (e : option derr),
         (j <= k)%nat -> pcs (tr j) = Done e -> pcs (tr k) = Done e /\ delivered (tr k) = delivered (tr j).
Proof. exact @prio2_done_stable. Qed.
Print Assumptions C07_v2_done_stable.

Theorem C07_v2_done_iff_closed :
  forall (dv : nat -> Divider) (s0 : st) (tr : nat -> st) (lb : nat -> label),
         dv_ok dv ->
         InitL s0 ->
         H s0 < two64 ->
         (1 <= fblimit s0)%nat ->
         execution dv s0 tr lb ->
         F_sched dv tr lb ->
         F_take tr lb ->
         F_rel tr lb ->
         F_tick_w tr lb ->
         (exists j : nat, pcs (tr j) = Done None) <->
         (forall p : N, In p (prios s0) -> exists i : nat, closed (tr i) p = true).
Proof. exact @prio2_done_iff_closed. Qed.
Print Assumptions C07_v2_done_iff_closed.

Theorem C07_v2_eventually_done_visible :
  forall (dv : nat -> Divider) (s0 : st) (tr : nat -> st) (lb : nat -> label),
         dv_ok dv ->
         InitL s0 ->
         H s0 < two64 ->
         (1 <= fblimit s0)%nat ->
         execution dv s0 tr lb ->
         F_sched dv tr lb ->
         F_take tr lb ->
         F_rel tr lb ->
         F_tick_w tr lb ->
         (forall p : N, In p (prios s0) -> exists i : nat, closed (tr i) p = true) ->
         exists j : nat,
           (forall p : N, In p (prios s0) -> of_prio p (taken tr lb j) = inq s0 p ++ puts lb p j) /\
           (forall k : nat,
            (j <= k)%nat ->
            pcs (tr k) = Done None /\
            taken tr lb k = taken tr lb j /\
            (forall p : N, In p (prios s0) -> puts lb p k = puts lb p j) /\
            lb k <> LEnv Take /\
            (forall p x : N, In p (prios s0) -> lb k <> LEnv (Put p x)) /\
            (forall p : N, lb k <> LEnv (Release p)) /\ lb k <> LSched).
Proof. exact @prio2_eventually_done_visible. Qed.
Print Assumptions C07_v2_eventually_done_visible.

Theorem C07_v2_termination_needs_fblimit :
  exists (dv : nat -> Divider) (s0 : st) (tr : nat -> st) (lb : nat -> label),
           dv_ok dv /\
           InitL s0 /\
           H s0 < two64 /\
           fblimit s0 = 0%nat /\
           execution dv s0 tr lb /\
           F_sched dv tr lb /\
           F_take tr lb /\
           F_rel tr lb /\
           F_tick lb /\
           (forall p : N, In p (prios s0) -> exists i : nat, closed (tr i) p = true) /\
           (forall j : nat, pcs (tr j) <> Done None).
Proof. exact @prio2_termination_needs_fblimit. Qed.
Print Assumptions C07_v2_termination_needs_fblimit.

Theorem C07_v2_termination_nonvacuous :
  exists j : nat,
           pcs (term_tr j) = Done None /\
           (forall p : N,
            In p (prios ex_s0) ->
            map snd (filter (fun d : N * N => fst d =? p) (delivered (term_tr j))) = written (term_tr j) p) /\
           outq (term_tr j) = [] /\ held (term_tr j) = [] /\ fbq (term_tr j) = [].
Proof. exact @term_eventually_done. Qed.
Print Assumptions C07_v2_termination_nonvacuous.

