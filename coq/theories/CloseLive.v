(* Bounded termination after the input is closed (C03 / C12: "once the input is closed and the output has been read until it closes";
   "closes its output after the input is closed and everything was forwarded"): with a consumer that receives (and, in no-copy mode,
   releases) what it is offered, and the input found closed whenever the goroutine looks at it, the join / unite / limit goroutine
   reaches its final state within a fixed number of its own steps FROM ANY STATE, and is never blocked on the way: every blocking
   point waits for exactly one of these environment actions. *)
From Coq Require Import List ZArith Bool Lia.
From Cqos Require Import Join Limit.
Import ListNotations.
Open Scope Z_scope.

(* ---------------------------------------------------------------- join / unite (all three variants) *)
(* what a cooperative environment does next: the input is found closed, the consumer receives, the consumer releases *)
Definition drain_event (s : jst) (t : Z) : jev :=
  match pc s with
  | Loop => CloseIn t
  | Sending _ _ _ _ => Out t
  | AwaitRel _ => Rel t
  | Closed => CloseIn t
  end.

Fixpoint drain_run (c : jcfg) (n : nat) (s : jst) (t : Z) : option (jst * list emission) :=
  match n with
  | O => Some (s, [])
  | S m =>
      match pc s with
      | Closed => Some (s, [])
      | _ =>
          match jstep c s (drain_event s t) with
          | Some (s1, o1) =>
              match drain_run c m s1 t with
              | Some (s2, o2) => Some (s2, o1 ++ o2)
              | None => None
              end
          | None => None
          end
      end
  end.

(* never blocked: the action the goroutine waits for is enabled *)
Lemma drain_event_enabled c s t : pc s <> Closed -> exists s' o, jstep c s (drain_event s t) = Some (s', o).
Proof.
  intros Hpc. unfold drain_event, jstep. destruct (pc s) eqn:E; try congruence.
  - destruct (unrel s); eexists; eexists; reflexivity.
  - destruct (nocopy c); eexists; eexists; reflexivity.
  - eexists; eexists; reflexivity.
Qed.

Theorem join_close_terminates c s t : exists s' o, drain_run c 8 s t = Some (s', o) /\ pc s' = Closed.
Proof.
  destruct s as [b pa p u st].
  destruct p as [|sl own why k|k|]; try destruct k as [|xs|xs|]; destruct u; destruct (nocopy c) eqn:NC;
    try destruct b as [|x0 b0]; try destruct xs as [|y0 ys0];
    cbn; rewrite ?NC; cbn; rewrite ?NC; cbn; rewrite ?NC; cbn; rewrite ?NC; cbn; rewrite ?NC; cbn; rewrite ?NC; cbn;
    eexists; eexists; (split; [reflexivity|reflexivity]).
Qed.

(* ---------------------------------------------------------------- limit *)
Definition ldrain_event (p : lpc) (t : Z) : lev :=
  match p with
  | LRecv _ _ => LCloseIn t
  | LSend _ _ _ => LOut t
  | LSleep u => LWake (Z.max u t)
  | LClosed => LCloseIn t
  end.

Fixpoint ldrain_run (c : lcfg) (n : nat) (p : lpc) (t : Z) : option (lpc * list (Z * Z)) :=
  match n with
  | O => Some (p, [])
  | S m =>
      match p with
      | LClosed => Some (p, [])
      | _ =>
          match lstep c p (ldrain_event p t) with
          | Some (p1, o1) =>
              match ldrain_run c m p1 t with
              | Some (p2, o2) => Some (p2, o1 ++ o2)
              | None => None
              end
          | None => None
          end
      end
  end.

Lemma ldrain_event_enabled c p t : p <> LClosed -> exists p' o, lstep c p (ldrain_event p t) = Some (p', o).
Proof.
  intros Hp. destruct p as [k s|k s x|u|]; try congruence; cbn.
  - eexists; eexists; reflexivity.
  - destruct (k + 1 <? quantity c); eexists; eexists; reflexivity.
  - assert (E : (u <=? Z.max u t) = true) by (apply Z.leb_le; lia). rewrite E. eexists; eexists; reflexivity.
Qed.

Theorem limit_close_terminates c p t : exists p' o, ldrain_run c 3 p t = Some (p', o) /\ p' = LClosed.
Proof.
  destruct p as [k s|k s x|u|]; cbn.
  - eexists; eexists; split; reflexivity.
  - destruct (k + 1 <? quantity c); cbn.
    + eexists; eexists; split; reflexivity.
    + match goal with |- context [?a <=? Z.max ?a ?b] => assert (E : (a <=? Z.max a b) = true) by (apply Z.leb_le; lia); rewrite E end.
      cbn. eexists; eexists; split; reflexivity.
  - assert (E : (u <=? Z.max u t) = true) by (apply Z.leb_le; lia). rewrite E. cbn. eexists; eexists; split; reflexivity.
  - eexists; eexists; split; reflexivity.
Qed.

(* the element in flight is forwarded on the way: nothing accepted is dropped by closing *)
Theorem limit_close_forwards c k s x t : exists p' o, ldrain_run c 3 (LSend k s x) t = Some (p', o) /\ p' = LClosed /\ map snd o = [x].
Proof.
  cbn. destruct (k + 1 <? quantity c); cbn.
  - eexists; eexists; repeat split; reflexivity.
  - match goal with |- context [?a <=? Z.max ?a ?b] => assert (E : (a <=? Z.max a b) = true) by (apply Z.leb_le; lia); rewrite E end.
    cbn. eexists; eexists; repeat split; reflexivity.
Qed.

Print Assumptions join_close_terminates.
Print Assumptions limit_close_terminates.
