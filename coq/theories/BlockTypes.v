(* Types of the facts that tool/main.go (blockfacts) generates into BlockFacts.v, and that StopAlts.v checks.

   One [func] per function / method of a package ("Recv.method" or "func"); additionally one pseudo function
   "Enclosing.funcN" per `go func() {...}()` statement: the body of a function literal that is STARTED AS A GOROUTINE is a
   goroutine entry of its own, it is not attributed to the enclosing function (every other function literal -- deferred
   closures, callbacks -- is attributed to the enclosing function). *)
From Coq Require Import List String Bool.
Import ListNotations.
Open Scope string_scope.

Inductive dir := CRecv | CSend.

(* one comm clause of a select: direction and the channel expression as Go source text *)
Definition comm := (dir * string)%type.

Inductive op :=
| BSelect (cases : list comm) (has_default : bool)   (* a select statement *)
| BRecv (chan : string)                              (* <-x outside a select's comm clause; `for range x`, x a channel *)
| BSend (chan : string)                              (* x <- v outside a select's comm clause *)
| BRange (expr : string)                             (* `for range x`, the translator cannot tell whether x is a channel *)
| BCall (callee args : string)                       (* time.Sleep, .Wait, .Lock, .RLock, .Break, .Stop, .GracefulStop, .Release *)
| BGo (callee : string).                             (* a go statement (does not block; marks where a goroutine starts) *)

Record func := {
  fn_name : string;
  fn_exported : bool;
  fn_ops : list op;          (* in source order *)
  fn_calls : list string;    (* callees within the package (methods of the receiver type, package functions) *)
  fn_gos : list string       (* resolved targets of its go statements: a function of the package, a pseudo function
                                "Enclosing.funcN", or "?text" when the target is not a function of the package *)
}.

Record package := {
  pkg_path : string;
  pkg_consts : list (string * string);            (* package level constants: name, value as source text *)
  pkg_makes : list (string * string * string);    (* function, assigned variable / struct field, `make(chan ...)` text *)
  pkg_funcs : list func
}.
