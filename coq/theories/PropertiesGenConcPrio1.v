(* Property theorems (C16): in the goroutine body of the v1 priority discipline as translated from the CURRENT Go sources (GenConcV1Prio.v) and run by GoConc.v, every statement that can block is a select that offers both stop alternatives (the breaker that Stop() closes and the context), next to what it is waiting for; the list of blocking statements per function is complete (blocking_statements counts them). *)
From Coq Require Import List NArith ZArith Bool. From Cqos Require Import GoSem GoConc GenV1Prio GenConcV1Prio GenTieConcPrio1. Import ListNotations.
Theorem C16_gen_conc_v1_blocked_top :
  forall (cap : chan_id -> Z) (v : cstate) (k : list (frame cstate payload chan_id fname)),
         step1 (table cap) (v, KSeq (wbody loopW) :: k) =
         Block (RqSelect (stopAlts ++ [(CInputAdds, None); (CInputRmvs, None); (CFeedback, None)]) true).
Proof. exact @blocked_top. Qed.
Print Assumptions C16_gen_conc_v1_blocked_top.

Theorem C16_gen_conc_v1_blocked_waitfb :
  forall (cap : chan_id -> Z) (v : cstate) (k : list (frame cstate payload chan_id fname)),
         step1 (table cap) (v, KSeq body_getOneFeedback :: k) =
         Block (RqSelect (stopAlts ++ [(CFeedback, None)]) false).
Proof. exact @blocked_waitfb. Qed.
Print Assumptions C16_gen_conc_v1_blocked_waitfb.

Theorem C16_gen_conc_v1_blocked_io :
  forall (cap : chan_id -> Z) (v : cstate) (k : list (frame cstate payload chan_id fname)),
         step1 (table cap) (v, KSeq (wbody ioW) :: k) =
         Block (RqSelect (stopAlts ++ [(CInput (io_priority v), None)]) true).
Proof. exact @blocked_io. Qed.
Print Assumptions C16_gen_conc_v1_blocked_io.

Theorem C16_gen_conc_v1_blocked_iou :
  forall (cap : chan_id -> Z) (v : cstate) (k : list (frame cstate payload chan_id fname)),
         step1 (table cap) (v, KSeq (wbody iouW) :: k) =
         Block (RqSelect (stopAlts ++ [(CInput (iou_priority v), None); (CTick, None)]) false).
Proof. exact @blocked_iou. Qed.
Print Assumptions C16_gen_conc_v1_blocked_iou.

Theorem C16_gen_conc_v1_blocked_send :
  forall (cap : chan_id -> Z) (v : cstate) (k : list (frame cstate payload chan_id fname)),
         step1 (table cap) (v, KSeq (skipn 1 body_send) :: k) =
         Block (RqSelect (stopAlts ++ [(COutput, Some (PPrioritized (send_prioritized v)))]) false).
Proof. exact @blocked_send. Qed.
Print Assumptions C16_gen_conc_v1_blocked_send.

Theorem C16_gen_conc_v1_blocked_limfb :
  forall (cap : chan_id -> Z) (v : cstate) (k : list (frame cstate payload chan_id fname)),
         step1 (table cap) (v, KSeq (skipn 1 (wbody glfW)) :: k) =
         Block (RqSelect (stopAlts ++ [(CFeedback, None)]) true).
Proof. exact @blocked_limfb. Qed.
Print Assumptions C16_gen_conc_v1_blocked_limfb.

Theorem C16_gen_conc_v1_blocked_drain :
  forall (cap : chan_id -> Z) (v : cstate) (k : list (frame cstate payload chan_id fname)),
         step1 (table cap) (v, KSeq (skipn 2 (wbody wzW)) :: k) =
         Block (RqSelect (stopAlts ++ [(CFeedback, None)]) false).
Proof. exact @blocked_drain. Qed.
Print Assumptions C16_gen_conc_v1_blocked_drain.

Theorem C16_gen_conc_v1_blocking_statements :
  forall cap : chan_id -> Z,
         map (fun f : fname => nblocks (table cap f)) all_fnames =
         [1%nat; 1%nat; 0%nat; 1%nat; 1%nat; 1%nat; 0%nat; 0%nat; 1%nat; 3%nat; 1%nat].
Proof. exact @blocking_statements. Qed.
Print Assumptions C16_gen_conc_v1_blocking_statements.

