(* Tie between the generated program of the v2 unite goroutine (GenConcUnite.v, run by GoConc.v) and the hand-written machine
   Join.jstep, variant UniteV2: every model pc is a program point, every case of jstep is a move of the program (internal
   steps and the requests with the answers that the event stands for; the clock is read at the time of the event).
   Both loops are covered: loop() (interval > 0, mode MT) and loopUntimeouted() (interval = 0, mode MU). *)
From Coq Require Import List NArith ZArith Bool Lia.
From Cqos Require Import Join GoSem GoConc GenJoinUniteV2 GenConcUnite.
Import ListNotations.
Open Scope Z_scope.

Definition stmtT := stmt cstate payload chan_id fname.
Definition frameT := frame cstate payload chan_id fname.
Definition cfgT := config cstate payload chan_id fname.
Notation reachesJ := (reaches table).
Notation movesJ := (moves table).

Definition wbody (s : stmtT) : list stmtT := match s with While _ b => b | _ => [] end.
Definition wcond (s : stmtT) : cstate -> bool := match s with While c _ => c | _ => fun _ => false end.
Definition dbody (s : stmtT) : list stmtT := match s with Defer b => b | _ => [] end.
Definition if_then (s : stmtT) : list stmtT := match s with If _ t _ => t | _ => [] end.
Definition sel_alt (n : nat) (s : stmtT) : list stmtT :=
  match s with Select alts _ => match nth_error alts n with Some (_, b) => b | None => [] end | _ => [] end.
Definition at_ (n : nat) (l : list stmtT) : stmtT := nth n l Return.

Lemma moves_reaches l : forall a b c, reachesJ a b -> movesJ l b c -> movesJ l a c.
Proof.
  destruct l as [|x l]; intros a b c H M; cbn in *.
  - eapply reaches_trans; eauto.
  - destruct M as (cb & rq & H1 & H2 & H3). exists cb, rq. split; [eapply reaches_trans; eauto|auto].
Qed.
Lemma moves_app l1 : forall l2 a b d, movesJ l1 a b -> movesJ l2 b d -> movesJ (l1 ++ l2) a d.
Proof.
  induction l1 as [|x l1 IH]; intros l2 a b d M1 M2; cbn in *.
  - eapply moves_reaches; eauto.
  - destruct M1 as (cb & rq & H1 & H2 & H3). exists cb, rq. split; [exact H1|]. split; [exact H2|]. eapply IH; eauto.
Qed.

(* ---- the program points *)
Inductive mode := MT | MU.      (* loop() with the ticker / loopUntimeouted() *)
(* where send() was called from: pass() called by process() at its end (the buffer is full) / by the ticker alternative / by
   the deferred call / by process() before forwarding an oversize slice / by process() before appending a slice that does
   not fit; or forward() *)
Inductive site := SFull | STimeout | SFinal | SOvF | SOvA | SFwd.

Definition mainDefers : list (list stmtT) := [dbody (at_ 1 body_main); dbody (at_ 0 body_main)].
Definition mainK (m : mode) : list frameT :=
  match m with
  | MT => [KSeq (skipn 4 body_main); GoConc.KCall mainDefers]
  | MU => [KSeq (skipn 1 (if_then (at_ 2 body_main))); KSeq (skipn 3 body_main); GoConc.KCall mainDefers]
  end.
Definition loopW := at_ 3 body_loop.
Definition luW := at_ 1 body_loopUntimeouted.
Definition loopK (m : mode) (r : list stmtT) : list frameT :=
  match m with
  | MT => KSeq r :: GoConc.KLoop (wcond loopW) (wbody loopW) :: KSeq [] ::
          GoConc.KCall [dbody (at_ 2 body_loop); dbody (at_ 0 body_loop)] :: mainK MT
  | MU => KSeq r :: GoConc.KLoop (wcond luW) (wbody luW) :: KSeq [] ::
          GoConc.KCall [dbody (at_ 0 body_loopUntimeouted)] :: mainK MU
  end.
Definition selS := at_ 0 (wbody loopW).
(* inside process(): the rest of its body, its activation, where it returns to *)
Definition procK (m : mode) (r : list stmtT) : list frameT :=
  KSeq r :: GoConc.KCall [] :: match m with MT => KSeq (skipn 3 (sel_alt 1 selS)) :: loopK MT [] | MU => loopK MU [] end.
Definition ovBranch := if_then (at_ 0 body_process).
Definition passCont (m : mode) (st : site) : list frameT :=
  match st with
  | STimeout => KSeq [] :: KSeq (skipn 2 (sel_alt 0 selS)) :: loopK MT []
  | SFinal => KSeq [] :: GoConc.KCall [] :: mainK m
  | SOvF => KSeq (skipn 1 ovBranch) :: procK m (skipn 1 body_process)
  | SOvA => KSeq [] :: procK m (skipn 2 body_process)
  | _ => procK m []
  end.
Definition passK (m : mode) (st : site) (r : list stmtT) : list frameT := KSeq r :: GoConc.KCall [] :: passCont m st.
Definition fwdK (m : mode) (r : list stmtT) : list frameT :=
  KSeq r :: GoConc.KCall [] :: KSeq (skipn 3 ovBranch) :: procK m (skipn 1 body_process).
Definition sendK (m : mode) (st : site) (r : list stmtT) : list frameT :=
  KSeq r :: GoConc.KCall [] :: match st with SFwd => fwdK m (skipn 2 body_forward) | _ => passK m st (skipn 3 body_pass) end.

Definition stack (m : mode) (p : jpc) (st : site) : list frameT :=
  match p with
  | Loop => loopK m (match m with MT => wbody loopW | MU => wbody luW end)   (* at the select / the receive *)
  | Sending _ _ _ _ => sendK m st (skipn 1 body_send)                          (* at `dsc.output <- item` *)
  | AwaitRel _ => KSeq (if_then (at_ 2 body_send)) :: sendK m st []            (* at `<-dsc.release` *)
  | Closed => []
  end.

Definition kont_of (st : site) (xs : list elem) : kont :=
  match st with SFinal => KClose | SOvF => KForward xs | SOvA => KAppend xs | _ => Join.KLoop end.
Definition cause_of (st : site) : cause :=
  match st with SFull => Full | STimeout => Timeout | SFinal => Final | SOvF | SOvA => Overflow | SFwd => Forwarded end.
Definition site_ok (m : mode) (st : site) : Prop := match st, m with STimeout, MU => False | _, _ => True end.

Section Sim.
Variable c : jcfg.
Hypothesis Hv : variant_of c = UniteV2.
Hypothesis Hivl : 0 <= interval c.
Definition md : mode := if interval c =? 0 then MU else MT.

Definition nvals (l : list N) (b : list elem) : Prop := map fst b = map Z.of_N l.

(* the slice that process() is handling (needed after the pass() before a forward / an append) *)
Definition item_ok (st : site) (xs : list elem) (g : G) : Prop :=
  match st with
  | SOvF => nvals (G_process_item g) xs
  | SOvA => nvals (G_process_item g) xs /\ (length xs < jsize c)%nat
  | _ => True
  end.

Definition rel (s : jst) (dsc : Discipline) (g : G) (st : site) (xs : list elem) : Prop :=
  N.to_nat (Opts_JoinSize (Discipline_opts dsc)) = jsize c /\ Opts_NoCopy (Discipline_opts dsc) = nocopy c /\
  Opts_Timeout (Discipline_opts dsc) = timeout c /\ Discipline_interruptInterval dsc = interval c /\
  nvals (Discipline_join dsc) (buf s) /\ G_dsc_passAt g = passAt s /\ unrel s = false /\
  match pc s with
  | Sending b own why k =>
      nvals (G_send_item g) b /\ why = cause_of st /\ k = kont_of st xs /\ site_ok md st /\ item_ok st xs g /\
      match st with SFwd => own = false /\ buf s = [] | _ => own = true /\ b = buf s /\ b <> [] end
  | AwaitRel k =>
      k = kont_of st xs /\ site_ok md st /\ item_ok st xs g /\ match st with SFwd => buf s = [] | _ => buf s <> [] end
  | _ => True
  end.

Definition R (s : jst) (cf : cfgT) : Prop :=
  exists dsc g n st xs, cf = ((dsc, g, n), stack md (pc s) st) /\ rel s dsc g st xs.

Definition jrequest (s : jst) (g : G) : request payload chan_id :=
  match pc s with
  | Loop => match md with MT => RqSelect [(CTick, None); (CInput, None)] false | MU => RqRecv CInput end
  | Sending _ _ _ _ => RqSend COutput (PList (G_send_item g))
  | AwaitRel _ => RqRecv CRelease
  | Closed => RqDone
  end.

Theorem blocked s dsc g n st : step1 table ((dsc, g, n), stack md (pc s) st) = Block (jrequest s g).
Proof. unfold jrequest. destruct (pc s); try reflexivity. destruct md; reflexivity. Qed.

Ltac step tac := eapply r_step; [cbn; try tac; reflexivity|].
Ltac runto tac := first [apply r_refl | step tac; runto tac].
Ltac runblock tac := first [eapply r_step; [cbn; try tac; reflexivity|]; runblock tac | apply r_refl].
Ltac ans tac := eexists _, _; split; [runblock tac|]; split; [reflexivity|]; cbn [GoConc.resume].

Lemma nvals_app l b l' b' : nvals l b -> nvals l' b' -> nvals (l ++ l') (b ++ b').
Proof.
  unfold nvals. intros H H'. etransitivity; [apply map_app|]. etransitivity; [|symmetry; apply map_app].
  apply (f_equal2 (@app Z)); assumption.
Qed.
Lemma nvals_len l b : nvals l b -> length b = length l.
Proof. unfold nvals. intros H. apply (f_equal (@length Z)) in H. now rewrite !map_length in H. Qed.
Lemma nvals_nil : nvals [] [].                                    Proof. reflexivity. Qed.
Lemma prepareItem_id w dsc item : gen_prepareItem w dsc item = (w, dsc, item).
Proof. unfold gen_prepareItem. cbn. destruct (Opts_NoCopy (Discipline_opts dsc)); reflexivity. Qed.
Lemma resetJoin_eq w dsc : gen_resetJoin w dsc = (w, set_Discipline_join [] dsc, tt).
Proof. reflexivity. Qed.
Lemma len_eq0 l (b : list elem) : nvals l b -> (len l =? 0)%N = match b with [] => true | _ => false end.
Proof. intros H. apply nvals_len in H. unfold len. destruct l, b; cbn in *; try discriminate; reflexivity. Qed.
Lemma len_nat {T} (l : list T) : len l = N.of_nat (length l).      Proof. reflexivity. Qed.

Definition closing (st : site) : list (answer payload) := match st with SFinal => [AnsOk; AnsOk] | _ => [] end.

(* ---- pass() is entered with a non-empty buffer: on to the send *)
Lemma pass_nonempty s dsc g n st xs :
  rel (set_pc s Loop) dsc g st xs -> buf s <> [] -> site_ok md st -> item_ok st xs g -> st <> SFwd ->
  exists cf', reachesJ ((dsc, g, n), KSeq body_pass :: GoConc.KCall [] :: passCont md st) cf' /\
              R (set_pc s (Sending (buf s) true (cause_of st) (kont_of st xs))) cf'.
Proof.
  intros (HJ & HN & HT & HI & Hb & HP & HU & _) Hne Hok Hit Hst. cbn in *.
  pose proof (len_eq0 _ _ Hb) as H0. destruct (buf s) as [|e0 b0] eqn:Eb; [congruence|]. rewrite <- Eb in *.
  eexists (_, stack md (Sending (buf s) true (cause_of st) (kont_of st xs)) st). split.
  - unfold stack, sendK, passK. destruct st; try congruence; runto ltac:(rewrite ?H0, ?prepareItem_id).
  - eexists _, _, _, st, xs. split; [reflexivity|]. unfold rel. cbn.
    destruct st; try congruence; cbn in *; repeat split; try assumption; try apply Hit; try congruence.
Qed.

(* ---- pass() returns at time t (after the send, or at once with an empty buffer): passAt is reset, then what the caller
   does next -- Loop again; main() returns (closes); the slice is appended; the oversize slice is forwarded (on to its send) *)
Lemma item_fits dsc g xs : N.to_nat (Opts_JoinSize (Discipline_opts dsc)) = jsize c ->
  nvals (G_process_item g) xs -> (length xs < jsize c)%nat ->
  (len (G_process_item g) <? Opts_JoinSize (Discipline_opts dsc))%N = true.
Proof. intros HJ Hn Hl. apply nvals_len in Hn. apply N.ltb_lt. unfold len. lia. Qed.

Lemma pass_finish s dsc g n st xs t :
  rel (set_pc s Loop) dsc g st xs -> site_ok md st -> item_ok st xs g -> st <> SFwd ->
  exists cf', movesJ (AnsTime t :: closing st) ((dsc, g, n), passK md st (skipn 3 body_pass)) cf' /\
              R (Join.resume s (kont_of st xs) t) cf'.
Proof.
  intros (HJ & HN & HT & HI & Hb & HP & HU & _) Hok Hit Hst. cbn in *.
  destruct st; try congruence; try (destruct md; contradiction); cbn [kont_of Join.resume closing movesJ].
  - eexists (_, stack md Loop SFull). split.
    + unfold passK, passCont, procK, stack. destruct md; (ans idtac; runto idtac).
    + eexists _, _, _, SFull, []. split; [reflexivity|]. unfold rel. cbn. repeat split; try assumption.
  - destruct md eqn:Em; [|contradiction]. eexists (_, stack MT Loop STimeout). split.
    + unfold passK, passCont, stack. ans idtac. runto idtac.
    + eexists _, _, _, STimeout, []. rewrite Em. split; [reflexivity|]. unfold rel. cbn. repeat split; try assumption.
  - eexists (_, []). split.
    + unfold passK, passCont, mainK. destruct md; (ans idtac; ans idtac; ans idtac; runblock idtac).
    + eexists _, _, _, SFinal, []. split; [reflexivity|]. unfold rel. cbn. repeat split; try assumption.
  - (* the oversize slice is forwarded *)
    eexists (_, stack md (Sending xs false Forwarded Join.KLoop) SFwd). split.
    + unfold passK, passCont, procK, stack, sendK, fwdK. destruct md; (ans idtac; runto ltac:(rewrite ?prepareItem_id)).
    + eexists _, _, _, SFwd, []. split; [reflexivity|]. unfold rel. cbn. cbn in Hit. repeat split; try assumption; try reflexivity.
  - (* the slice is appended to the emptied buffer *)
    destruct Hit as [Hit Hl]. pose proof (item_fits dsc g xs HJ Hit Hl) as Hlt.
    eexists (_, stack md Loop SFull). split.
    + unfold passK, passCont, procK, stack. destruct md; (ans ltac:(rewrite ?resetJoin_eq); runto ltac:(rewrite ?resetJoin_eq; cbn; rewrite ?Hlt)).
    + eexists _, _, _, SFull, []. split; [reflexivity|]. unfold rel. cbn. repeat split; try assumption.
Qed.

Lemma pass_empty s dsc g n st xs t :
  rel (set_pc s Loop) dsc g st xs -> buf s = [] -> site_ok md st -> item_ok st xs g -> st <> SFwd ->
  exists cf', movesJ (AnsTime t :: closing st) ((dsc, g, n), KSeq body_pass :: GoConc.KCall [] :: passCont md st) cf' /\
              R (Join.resume s (kont_of st xs) t) cf'.
Proof.
  intros (HJ & HN & HT & HI & Hb & HP & HU & _) Hemp Hok Hit Hst. cbn in *.
  pose proof (len_eq0 _ _ Hb) as H0. rewrite Hemp in H0, Hb.
  assert (Hj : Discipline_join dsc = []) by (apply nvals_len in Hb; destruct (Discipline_join dsc); [reflexivity|discriminate]).
  destruct st; try congruence; try (destruct md; contradiction); cbn [kont_of Join.resume closing movesJ].
  - eexists (_, stack md Loop SFull). split.
    + unfold passCont, procK, stack. destruct md; (ans ltac:(rewrite ?H0); runto idtac).
    + eexists _, _, _, SFull, []. split; [reflexivity|]. unfold rel. cbn. repeat split; assumption.
  - destruct md eqn:Em; [|contradiction]. eexists (_, stack MT Loop STimeout). split.
    + unfold passCont, stack. ans ltac:(rewrite ?H0). runto idtac.
    + eexists _, _, _, STimeout, []. rewrite Em. split; [reflexivity|]. unfold rel. cbn. repeat split; assumption.
  - eexists (_, []). split.
    + unfold passCont, mainK. destruct md; (ans ltac:(rewrite ?H0); ans idtac; ans idtac; runblock idtac).
    + eexists _, _, _, SFinal, []. split; [reflexivity|]. unfold rel. cbn. repeat split; assumption.
  - eexists (_, stack md (Sending xs false Forwarded Join.KLoop) SFwd). split.
    + unfold passCont, procK, stack, sendK, fwdK. destruct md; (ans ltac:(rewrite ?H0); runto ltac:(rewrite ?prepareItem_id)).
    + eexists _, _, _, SFwd, []. split; [reflexivity|]. unfold rel. cbn. cbn in Hit. repeat split; try assumption; try reflexivity.
  - destruct Hit as [Hit Hl]. pose proof (item_fits dsc g xs HJ Hit Hl) as Hlt.
    eexists (_, stack md Loop SFull). split.
    + unfold passCont, procK, stack. destruct md; (ans ltac:(rewrite ?H0); runto ltac:(rewrite ?Hj; cbn; rewrite ?Hlt)).
    + eexists _, _, _, SFull, []. split; [reflexivity|]. unfold rel. cbn. rewrite ?Hj. cbn. repeat split; try assumption.
Qed.

(* ---- forward(): its send() has returned at time t: passAt is reset, process() returns, Loop *)
Lemma fwd_finish s dsc g n t :
  rel (set_pc s Loop) dsc g SFwd [] -> buf s = [] ->
  exists cf', movesJ [AnsTime t] ((dsc, g, n), fwdK md (skipn 2 body_forward)) cf' /\ R (Join.resume s Join.KLoop t) cf'.
Proof.
  intros (HJ & HN & HT & HI & Hb & HP & HU & _) Hemp. cbn in *. rewrite Hemp in Hb.
  eexists (_, stack md Loop SFull). split.
  - unfold fwdK, procK, stack. cbn [movesJ]. destruct md; (ans idtac; runto idtac).
  - eexists _, _, _, SFull, []. split; [reflexivity|]. unfold rel. cbn. repeat split; assumption.
Qed.

Lemma do_pass_nonempty s b w k t : b <> [] ->
  do_pass s b w k t = {| buf := b; passAt := passAt s; pc := Sending b true w k; unrel := unrel s; stopped := stopped s |}.
Proof. destruct b; [congruence|reflexivity]. Qed.
Lemma set_pc_loop s : pc s = Loop -> set_pc s Loop = s.
Proof. intros E. destruct s; cbn in *; now subst. Qed.

Definition passEntry (st : site) : list frameT := KSeq body_pass :: GoConc.KCall [] :: passCont md st.
Definition ans_in (l : list N) : answer payload := match md with MT => AnsSel 1 (Some (PList l)) | MU => AnsRecv (Some (PList l)) end.
Definition ans_close : answer payload := match md with MT => AnsSel 1 None | MU => AnsRecv None end.
Definition pass_answers (s : jst) (st : site) (t : Z) : list (answer payload) :=
  match buf s with [] => AnsTime t :: closing st | _ => [] end.

Lemma pass_call s dsc g n st xs t :
  pc s = Loop -> rel s dsc g st xs -> site_ok md st -> item_ok st xs g -> st <> SFwd ->
  exists cf', movesJ (pass_answers s st t) ((dsc, g, n), passEntry st) cf' /\
              R (do_pass s (buf s) (cause_of st) (kont_of st xs) t) cf'.
Proof.
  intros Epc Hrel Hok Hit Hst. unfold pass_answers, passEntry. rewrite <- (set_pc_loop s Epc) in Hrel.
  destruct (buf s) as [|e0 b0] eqn:Eb.
  - destruct (pass_empty s dsc g n st xs t Hrel Eb Hok Hit Hst) as (cf' & H1 & H2). exists cf'. split; [exact H1|exact H2].
  - assert (Hne : buf s <> []) by congruence.
    destruct (pass_nonempty s dsc g n st xs Hrel Hne Hok Hit Hst) as (cf' & H1 & H2). exists cf'. split; [exact H1|].
    rewrite do_pass_nonempty by congruence. unfold set_pc in H2. rewrite Eb in H2. exact H2.
Qed.

(* ---- Loop, a slice arrives: oversize: flush and forward; does not fit: flush and append; fits: append, and flush if full *)
Definition in_answers (s : jst) (xs : list elem) (t : Z) : list (answer payload) :=
  if (jsize c <=? length xs)%nat then pass_answers s SOvF t
  else if (jsize c <? length xs + length (buf s))%nat then pass_answers s SOvA t else [].

Lemma sim_in s t l xs cf :
  R s cf -> pc s = Loop -> nvals l xs -> (N.of_nat (length xs + length (buf s)) < u_modulus)%N ->
  exists cf', movesJ (in_answers s xs t) (GoConc.resume cf (ans_in l)) cf' /\ R (process c s t xs) cf'.
Proof.
  intros (dsc & g & n & st0 & xs0 & -> & Hrel) Epc Hl Hlen. rewrite Epc in *.
  pose proof Hrel as (HJ & HN & HT & HI & Hb & HP & HU & _).
  unfold process, is_unite, in_answers. rewrite Hv.
  pose proof (nvals_len _ _ Hl) as Ll. pose proof (nvals_len _ _ Hb) as Lb.
  assert (C1 : (Opts_JoinSize (Discipline_opts dsc) <=? len l)%N = (jsize c <=? length xs)%nat).
  { rewrite <- HJ, Ll. unfold len. destruct (N.leb_spec (Opts_JoinSize (Discipline_opts dsc)) (N.of_nat (length l)));
      destruct (Nat.leb_spec (N.to_nat (Opts_JoinSize (Discipline_opts dsc))) (length l)); try reflexivity; lia. }
  assert (C2 : (Opts_JoinSize (Discipline_opts dsc) <? u_add (len l) (len (Discipline_join dsc)))%N =
               (jsize c <? length xs + length (buf s))%nat).
  { rewrite u_add_small by (unfold len; lia). rewrite <- HJ, Ll, Lb. unfold len.
    destruct (N.ltb_spec (Opts_JoinSize (Discipline_opts dsc)) (N.of_nat (length l) + N.of_nat (length (Discipline_join dsc))));
      destruct (Nat.ltb_spec (N.to_nat (Opts_JoinSize (Discipline_opts dsc))) (length l + length (Discipline_join dsc))); try reflexivity; lia. }
  destruct (jsize c <=? length xs)%nat eqn:E1.
  - (* oversize *)
    assert (Hpre : exists g' n', reachesJ (GoConc.resume ((dsc, g, n), stack md Loop st0) (ans_in l)) ((dsc, g', n'), passEntry SOvF) /\
                                 rel s dsc g' SOvF xs /\ item_ok SOvF xs g').
    { unfold stack, ans_in, passEntry, passCont, procK. destruct md; eexists _, _;
        (split; [cbn [GoConc.resume loopK wbody loopW luW at_ nth body_loop body_loopUntimeouted nth_error]; runto ltac:(rewrite ?C1)
                |split; [unfold rel in *; rewrite Epc in *; cbn; repeat split; assumption|exact Hl]]). }
    destruct Hpre as (g' & n' & Hr & Hrel' & Hit).
    assert (Hok : site_ok md SOvF) by (destruct md; exact I).
    destruct (pass_call s dsc g' n' SOvF xs t Epc Hrel' Hok Hit ltac:(discriminate)) as (cf' & H1 & H2).
    exists cf'. split; [eapply moves_reaches; eassumption|exact H2].
  - destruct (jsize c <? length xs + length (buf s))%nat eqn:E2.
    + (* does not fit *)
      assert (Hfit : (length xs < jsize c)%nat) by (apply Nat.leb_gt in E1; exact E1).
      assert (Hpre : exists g' n', reachesJ (GoConc.resume ((dsc, g, n), stack md Loop st0) (ans_in l)) ((dsc, g', n'), passEntry SOvA) /\
                                   rel s dsc g' SOvA xs /\ item_ok SOvA xs g').
      { unfold stack, ans_in, passEntry, passCont, procK. destruct md; eexists _, _;
          (split; [cbn [GoConc.resume loopK wbody loopW luW at_ nth body_loop body_loopUntimeouted nth_error]; runto ltac:(rewrite ?C1, ?C2)
                  |split; [unfold rel in *; rewrite Epc in *; cbn; repeat split; assumption|split; [exact Hl|exact Hfit]]]). }
      destruct Hpre as (g' & n' & Hr & Hrel' & Hit).
      assert (Hok : site_ok md SOvA) by (destruct md; exact I).
      destruct (pass_call s dsc g' n' SOvA xs t Epc Hrel' Hok Hit ltac:(discriminate)) as (cf' & H1 & H2).
      exists cf'. split; [eapply moves_reaches; eassumption|exact H2].
    + (* fits *)
      pose proof (nvals_app _ _ _ _ Hb Hl) as Hb'. pose proof (nvals_len _ _ Hb') as Lb'.
      assert (C3 : (len (Discipline_join dsc ++ l) <? Opts_JoinSize (Discipline_opts dsc))%N = negb (jsize c <=? length (buf s ++ xs))%nat).
      { rewrite Lb', <- HJ. unfold len.
        destruct (N.ltb_spec (N.of_nat (length (Discipline_join dsc ++ l))) (Opts_JoinSize (Discipline_opts dsc)));
          destruct (Nat.leb_spec (N.to_nat (Opts_JoinSize (Discipline_opts dsc))) (length (Discipline_join dsc ++ l))); try reflexivity; lia. }
      destruct (jsize c <=? length (buf s ++ xs))%nat eqn:E3; cbn in C3.
      * set (s1 := {| buf := buf s ++ xs; passAt := passAt s; pc := Loop; unrel := unrel s; stopped := stopped s |}).
        assert (Hne : buf s1 <> []).
        { cbn. intros Hnil. rewrite Hnil in E3. cbn in E3. apply Nat.leb_le in E3. apply Nat.leb_gt in E1. lia. }
        assert (Hpre : exists dsc' g' n', reachesJ (GoConc.resume ((dsc, g, n), stack md Loop st0) (ans_in l)) ((dsc', g', n'), passEntry SFull) /\
                                          rel (set_pc s1 Loop) dsc' g' SFull []).
        { unfold stack, ans_in, passEntry, passCont, procK. destruct md; eexists _, _, _;
            (split; [cbn [GoConc.resume loopK wbody loopW luW at_ nth body_loop body_loopUntimeouted nth_error]; runto ltac:(rewrite ?C1, ?C2, ?C3)
                    |unfold rel; cbn; repeat split; assumption]). }
        destruct Hpre as (dsc' & g' & n' & Hr & Hrel').
        assert (Hok : site_ok md SFull) by (destruct md; exact I).
        destruct (pass_nonempty s1 dsc' g' n' SFull [] Hrel' Hne Hok Logic.I ltac:(discriminate)) as (cf' & H1 & H2).
        exists cf'. split; [cbn; eapply reaches_trans; eassumption|].
        rewrite do_pass_nonempty by exact Hne. exact H2.
      * unfold R, ans_in. destruct md.
        -- eexists (_, stack MT Loop st0). split.
           ++ unfold stack. cbn [movesJ GoConc.resume loopK wbody loopW at_ nth body_loop nth_error]. step idtac. runto ltac:(rewrite ?C1, ?C2, ?C3).
           ++ eexists _, _, _, st0, xs0. split; [reflexivity|]. unfold rel. cbn. repeat split; assumption.
        -- eexists (_, stack MU Loop st0). split.
           ++ unfold stack. cbn [movesJ GoConc.resume loopK wbody luW at_ nth body_loopUntimeouted nth_error]. step idtac. runto ltac:(rewrite ?C1, ?C2, ?C3).
           ++ eexists _, _, _, st0, xs0. split; [reflexivity|]. unfold rel. cbn. repeat split; assumption.
Qed.

(* ---- Loop, a tick (loop() only): the clock is read (at the time t of the event); no timeout: Loop; timeout: pass() *)
Lemma sim_tick s t cf :
  R s cf -> pc s = Loop -> md = MT -> i_range (t - passAt s) ->
  exists cf', movesJ (AnsTime t :: (if timeout c <=? t - passAt s then pass_answers s STimeout t else []))
                     (GoConc.resume cf (AnsSel 0 None)) cf' /\
              R (if timeout c <=? t - passAt s then do_pass s (buf s) Timeout Join.KLoop t else s) cf'.
Proof.
  intros (dsc & g & n & st0 & xs0 & -> & Hrel) Epc Em Hr. rewrite Epc, Em in *.
  pose proof Hrel as (HJ & HN & HT & HI & Hb & HP & HU & _).
  destruct (timeout c <=? t - passAt s) eqn:E.
  - assert (Hpre : exists dsc' g' n', movesJ [AnsTime t] (GoConc.resume ((dsc, g, n), stack MT Loop st0) (AnsSel 0 None))
                                              ((dsc', g', n'), passEntry STimeout) /\ rel s dsc' g' STimeout []).
    { eexists _, _, _. split.
      - unfold stack, passEntry, passCont. rewrite ?Em. cbn [GoConc.resume loopK wbody loopW at_ nth body_loop nth_error movesJ].
        ans idtac. runto ltac:(rewrite ?HP, ?HT, ?(i_sub_small t (passAt s) Hr), ?E).
      - unfold rel in *. rewrite Epc in *. cbn. repeat split; assumption. }
    destruct Hpre as (dsc' & g' & n' & Hm & Hrel').
    assert (Hok : site_ok md STimeout) by (rewrite Em; exact I).
    destruct (pass_call s dsc' g' n' STimeout [] t Epc Hrel' Hok Logic.I ltac:(discriminate)) as (cf' & H1 & H2).
    exists cf'. split; [|exact H2]. change (AnsTime t :: pass_answers s STimeout t) with ([AnsTime t] ++ pass_answers s STimeout t).
    eapply moves_app; eassumption.
  - eexists (_, stack MT Loop st0). split.
    + unfold stack. cbn [GoConc.resume loopK wbody loopW at_ nth body_loop nth_error movesJ].
      ans idtac. runto ltac:(rewrite ?HP, ?HT, ?(i_sub_small t (passAt s) Hr), ?E).
    + unfold R. rewrite Em, Epc. eexists _, _, _, st0, xs0. split; [reflexivity|].
      unfold rel in *. rewrite Epc in *. cbn. repeat split; assumption.
Qed.

(* ---- Loop, the input is closed: loop() returns (its ticker is stopped), the deferred pass() *)
Definition close_prefix : list (answer payload) := match md with MT => [AnsOk] | MU => [] end.
Lemma sim_close s t cf :
  R s cf -> pc s = Loop ->
  exists cf', movesJ (close_prefix ++ pass_answers s SFinal t) (GoConc.resume cf ans_close) cf' /\
              R (do_pass s (buf s) Final KClose t) cf'.
Proof.
  intros (dsc & g & n & st0 & xs0 & -> & Hrel) Epc. rewrite Epc in *.
  pose proof Hrel as (HJ & HN & HT & HI & Hb & HP & HU & _).
  assert (Hpre : exists dsc' g' n', movesJ close_prefix (GoConc.resume ((dsc, g, n), stack md Loop st0) ans_close)
                                            ((dsc', g', n'), passEntry SFinal) /\ rel s dsc' g' SFinal []).
  { unfold stack, passEntry, passCont, close_prefix, ans_close. destruct md; eexists _, _, _.
    - split; [cbn [GoConc.resume loopK wbody loopW at_ nth body_loop nth_error movesJ]; ans idtac; runto idtac|].
      unfold rel in *. rewrite Epc in *. cbn. repeat split; assumption.
    - split; [cbn [GoConc.resume loopK wbody luW at_ nth body_loopUntimeouted nth_error movesJ]; runto idtac|].
      unfold rel in *. rewrite Epc in *. cbn. repeat split; assumption. }
  destruct Hpre as (dsc' & g' & n' & Hm & Hrel').
  assert (Hok : site_ok md SFinal) by (destruct md; exact I).
  destruct (pass_call s dsc' g' n' SFinal [] t Epc Hrel' Hok Logic.I ltac:(discriminate)) as (cf' & H1 & H2).
  exists cf'. split; [eapply moves_app; eassumption|exact H2].
Qed.

Definition closing_k (k : kont) : list (answer payload) := match k with KClose => [AnsOk; AnsOk] | _ => [] end.
Lemma closing_kont st xs : closing_k (kont_of st xs) = closing st.
Proof. destruct st; reflexivity. Qed.

(* what happens when send() has returned at time t: pass() finishes (resp. forward() finishes) *)
Lemma send_returned s dsc g n st xs t :
  rel (set_pc s Loop) dsc g st xs -> site_ok md st -> item_ok st xs g -> (st = SFwd -> buf s = []) ->
  exists cf', movesJ (AnsTime t :: closing st)
                     ((dsc, g, n), match st with SFwd => fwdK md (skipn 2 body_forward) | _ => passK md st (skipn 3 body_pass) end) cf' /\
              R (Join.resume s (kont_of st xs) t) cf'.
Proof.
  intros Hrel Hok Hit Hf. destruct (match st with SFwd => true | _ => false end) eqn:Es.
  - destruct st; try discriminate. cbn [closing kont_of].
    assert (Hrel' : rel (set_pc s Loop) dsc g SFwd []) by (destruct Hrel as (A & B & C & D & E & F & G0 & _); unfold rel; cbn; repeat split; assumption).
    exact (fwd_finish s dsc g n t Hrel' (Hf eq_refl)).
  - assert (Hst : st <> SFwd) by (intros ->; discriminate).
    destruct (pass_finish s dsc g n st xs t Hrel Hok Hit Hst) as (cf' & H1 & H2). exists cf'. split; [|exact H2].
    destruct st; try discriminate; exact H1.
Qed.

(* ---- Sending, the write completes: no-copy mode waits for the release; otherwise the caller of send() goes on *)
Lemma sim_out s t b own why k cf :
  R s cf -> pc s = Sending b own why k ->
  exists cf', movesJ (if nocopy c then [] else AnsTime t :: closing_k k) (GoConc.resume cf AnsOk) cf' /\
              R (if nocopy c then set_pc s (AwaitRel k) else Join.resume s k t) cf'.
Proof.
  intros (dsc & g & n & st & xs & -> & Hrel) Epc. rewrite Epc in *.
  pose proof Hrel as (HJ & HN & HT & HI & Hb & HP & HU & Hs). rewrite Epc in Hs.
  destruct Hs as (Hsi & Hw & Hk & Hok & Hit & Hst). subst why k. rewrite closing_kont.
  assert (Hf : st = SFwd -> buf s = []) by (intros ->; apply Hst).
  destruct (nocopy c) eqn:Enc.
  - eexists (_, stack md (AwaitRel (kont_of st xs)) st). split.
    + unfold stack, sendK. cbn [GoConc.resume movesJ]. runto ltac:(rewrite ?HN, ?Enc).
    + eexists _, _, _, st, xs. split; [reflexivity|]. unfold rel. cbn.
      repeat split; try assumption; try reflexivity; try (rewrite Enc; assumption).
      destruct st; try (apply Hst); destruct Hst as (_ & Hbb & Hne); subst b; exact Hne.
  - assert (Hpre : reachesJ (GoConc.resume ((dsc, g, n), stack md (Sending b own (cause_of st) (kont_of st xs)) st) AnsOk)
                            ((dsc, g, n), match st with SFwd => fwdK md (skipn 2 body_forward) | _ => passK md st (skipn 3 body_pass) end)).
    { unfold stack, sendK. cbn [GoConc.resume]. destruct st; runto ltac:(rewrite ?HN, ?Enc). }
    assert (Hrel' : rel (set_pc s Loop) dsc g st xs) by (unfold rel; cbn; repeat split; try assumption; rewrite Enc; assumption).
    destruct (send_returned s dsc g n st xs t Hrel' Hok Hit Hf) as (cf' & H1 & H2).
    exists cf'. split; [eapply moves_reaches; eassumption|exact H2].
Qed.

(* ---- AwaitRel, the release signal *)
Lemma sim_rel s t k v cf :
  R s cf -> pc s = AwaitRel k ->
  exists cf', movesJ (AnsTime t :: closing_k k) (GoConc.resume cf (AnsRecv v)) cf' /\ R (Join.resume s k t) cf'.
Proof.
  intros (dsc & g & n & st & xs & -> & Hrel) Epc. rewrite Epc in *.
  pose proof Hrel as (HJ & HN & HT & HI & Hb & HP & HU & Hs). rewrite Epc in Hs.
  destruct Hs as (Hk & Hok & Hit & Hst). subst k. rewrite closing_kont.
  assert (Hf : st = SFwd -> buf s = []) by (intros ->; exact Hst).
  assert (Hpre : reachesJ (GoConc.resume ((dsc, g, n), stack md (AwaitRel (kont_of st xs)) st) (AnsRecv v))
                          ((dsc, g, n), match st with SFwd => fwdK md (skipn 2 body_forward) | _ => passK md st (skipn 3 body_pass) end)).
  { unfold stack, sendK. cbn [GoConc.resume if_then at_ nth body_send]. destruct st; runto idtac. }
  assert (Hrel' : rel (set_pc s Loop) dsc g st xs) by (unfold rel; cbn; repeat split; assumption).
  destruct (send_returned s dsc g n st xs t Hrel' Hok Hit Hf) as (cf' & H1 & H2).
  exists cf'. split; [eapply moves_reaches; eassumption|exact H2].
Qed.

(* ---- the start *)
Definition init_answers : list (answer payload) := match md with MT => [AnsOk] | MU => [] end.
Theorem conc_init t0 dsc g n :
  N.to_nat (Opts_JoinSize (Discipline_opts dsc)) = jsize c -> Opts_NoCopy (Discipline_opts dsc) = nocopy c ->
  Opts_Timeout (Discipline_opts dsc) = timeout c -> Discipline_interruptInterval dsc = interval c ->
  Discipline_join dsc = [] -> G_dsc_passAt g = t0 ->
  exists cf', movesJ init_answers (start table (dsc, g, n) F_main) cf' /\ R (jinit t0) cf'.
Proof.
  intros HJ HN HT HI Hj HP. unfold init_answers, R, md. rewrite <- HI.
  destruct (Discipline_interruptInterval dsc =? 0) eqn:E.
  - eexists (_, stack MU Loop SFull). split.
    + unfold start, stack. cbn [movesJ]. runto ltac:(rewrite ?E).
    + eexists _, _, _, SFull, []. split; [reflexivity|]. unfold rel. cbn. rewrite Hj. repeat split; try assumption; try reflexivity.
  - eexists (_, stack MT Loop SFull). split.
    + unfold start, stack. cbn [movesJ]. ans ltac:(rewrite ?E). runto idtac.
    + eexists _, _, _, SFull, []. split; [reflexivity|]. unfold rel. cbn. rewrite Hj. repeat split; try assumption; try reflexivity.
Qed.

(* ==== main tie theorems ==== *)

(* the answers that an event of the model stands for *)
Definition janswers (s : jst) (e : jev) : list (answer payload) :=
  match pc s, e with
  | Loop, In t xs => ans_in (map (fun x => Z.to_N (fst x)) xs) :: in_answers s xs t
  | Loop, Tick t =>
      AnsSel 0 None :: AnsTime t :: (if timeout c <=? t - passAt s then pass_answers s STimeout t else [])
  | Loop, CloseIn t => ans_close :: close_prefix ++ pass_answers s SFinal t
  | Sending _ _ _ k, Out t => AnsOk :: (if nocopy c then [] else AnsTime t :: closing_k k)
  | AwaitRel k, Rel t => AnsRecv (Some (PList [])) :: AnsTime t :: closing_k k
  | _, _ => []
  end.

(* every step of Join.jstep (variant UniteV2) is a move of the generated program.  The values of an arriving slice are
   non-negative (the item type is N here), the two lengths that process() adds fit in a uint, and the Duration subtraction of
   isTimeouted() must not overflow. *)
Theorem conc_simulates_jstep s e s' out cf :
  R s cf -> jstep c s e = Some (s', out) ->
  (forall t xs, e = In t xs -> Forall (fun x => 0 <= fst x) xs /\ (N.of_nat (length xs + length (buf s)) < u_modulus)%N) ->
  (forall t, e = Tick t -> i_range (t - passAt s)) ->
  exists cf', movesJ (janswers s e) cf cf' /\ R s' cf'.
Proof.
  intros HR Hs Hin Htick.
  pose proof HR as (dsc & g & n & st & xs0 & Ecf & Hrel). pose proof Hrel as (_ & _ & _ & _ & _ & _ & HU & _).
  pose proof (blocked s dsc g n st) as Hb. rewrite <- Ecf in Hb.
  assert (Hv1 : is_v1 c = false) by (unfold is_v1; now rewrite Hv).
  unfold jstep in Hs. rewrite HU, Hv1 in Hs. unfold janswers.
  destruct (pc s) eqn:Epc; destruct e; cbn in Hs; try discriminate.
  - (* In *) injection Hs as <- <-. destruct (Hin t xs eq_refl) as (Hpos & Hlen).
    assert (Hl : nvals (map (fun x => Z.to_N (fst x)) xs) xs).
    { unfold nvals. rewrite map_map. clear - Hpos. induction Hpos as [|x r Hx _ IH]; cbn; [reflexivity|]. rewrite Z2N.id by exact Hx. now f_equal. }
    destruct (sim_in s t _ xs cf HR Epc Hl Hlen) as (cf' & H1 & H2).
    exists cf'. split; [|exact H2]. cbn [movesJ]. eexists _, _. split; [apply r_refl|]. split; [exact Hb|exact H1].
  - (* Tick *) destruct (interval c <=? 0) eqn:Ei; [discriminate|].
    assert (Em : md = MT). { unfold md. apply Z.leb_gt in Ei. destruct (Z.eqb_spec (interval c) 0); [lia|reflexivity]. }
    destruct (sim_tick s t cf HR Epc Em (Htick t eq_refl)) as (cf' & H1 & H2).
    destruct (timeout c <=? t - passAt s); injection Hs as <- <-; (exists cf'; split; [|exact H2]);
      cbn [movesJ]; eexists _, _; (split; [apply r_refl|]); (split; [exact Hb|exact H1]).
  - (* CloseIn *) injection Hs as <- <-.
    destruct (sim_close s t cf HR Epc) as (cf' & H1 & H2).
    exists cf'. split; [|exact H2]. cbn [movesJ]. eexists _, _. split; [apply r_refl|]. split; [exact Hb|exact H1].
  - (* Out *) destruct (sim_out s t s0 own why k cf HR Epc) as (cf' & H1 & H2).
    destruct (nocopy c); injection Hs as <- <-; (exists cf'; split; [|exact H2]);
      cbn [movesJ]; eexists _, _; (split; [apply r_refl|]); (split; [exact Hb|exact H1]).
  - (* Rel *) injection Hs as <- <-.
    destruct (sim_rel s t k (Some (PList [])) cf HR Epc) as (cf' & H1 & H2).
    exists cf'. split; [|exact H2]. cbn [movesJ]. eexists _, _. split; [apply r_refl|]. split; [exact Hb|exact H1].
Qed.
End Sim.

Print Assumptions blocked.
Print Assumptions conc_init.
Print Assumptions sim_in.
Print Assumptions conc_simulates_jstep.
