(* Model of the join / unite disciplines: v2/join/join.go, v2/join/unite/unite.go, join/join.go (v1).
   The single goroutine of a discipline is a program-counter machine; its blocking points are the pcs:
     Loop        the select in loop()/loopUntimeouted() (input, ticker; v1: breaker/ctx)
     Sending s k blocked in `dsc.output <- s` inside send(); k = what the caller does after pass()/forward()
     AwaitRel k  no-copy mode: blocked in `<-dsc.release` (v1: `<-Released`)
     Closed      main() returned: output closed
   Events carry the (fake or real) time at which the goroutine performs them.  Everything between two
   blocking points is one step (the state is private to the goroutine).
   Elements are pairs (value, time at which the discipline took the element from the input). *)
From Coq Require Import List ZArith Bool Lia.
Import ListNotations.
Open Scope Z_scope.

Definition elem := (Z * Z)%type.

Inductive variant := JoinV2 | UniteV2 | JoinV1.

Record jcfg := {
  variant_of : variant;
  jsize : nat;          (* JoinSize >= 1 *)
  timeout : Z;          (* Timeout; <= 0: none *)
  interval : Z;         (* ticker period calcInterruptInterval returned; 0: loopUntimeouted *)
  nocopy : bool         (* v2: NoCopy; v1: Released != nil *)
}.

Inductive kont := KLoop | KForward (xs : list elem) | KAppend (xs : list elem) | KClose.
(* why a pass() happened (ghost, recorded with the emission): the buffer reached JoinSize; unite: the next slice would
   not have fitted / an oversize slice arrived; the timeout expired; the input was closed (or v1: stopped);
   Forwarded marks the oversize slice itself *)
Inductive cause := Full | Overflow | Timeout | Final | Forwarded.
Inductive jpc := Loop | Sending (s : list elem) (own : bool) (why : cause) (k : kont) | AwaitRel (k : kont) | Closed.

Record jst := {
  buf : list elem;      (* dsc.join *)
  passAt : Z;
  pc : jpc;
  unrel : bool;         (* v1: dsc.unreleased *)
  stopped : bool        (* v1: breaker broken or ctx cancelled (set by the environment) *)
}.

Inductive jev :=
| In (t : Z) (xs : list elem)   (* an item received from the input (join: one element; unite: a slice) *)
| Tick (t : Z)                  (* the ticker case taken *)
| CloseIn (t : Z)               (* the input found closed *)
| Out (t : Z)                   (* the pending write to the output completes *)
| Rel (t : Z)                   (* the release signal received *)
| StopCall (t : Z)              (* v1 environment: Stop() called / ctx cancelled *)
| TakeStop (t : Z)              (* v1: the loop's select takes the breaker/ctx case *)
| Abort (t : Z).                (* v1: a select inside send() takes the breaker/ctx case *)

Definition ev_time (e : jev) : Z :=
  match e with In t _ | Tick t | CloseIn t | Out t | Rel t | StopCall t | TakeStop t | Abort t => t end.

(* an emission: time of the write, the slice, and whether it is the accumulation buffer itself / a copy of it
   (own = true) or the producer's slice forwarded by unite (own = false) *)
Definition emission := (Z * list elem * bool * cause)%type.

Definition set_pc (s : jst) (c : jpc) : jst :=
  {| buf := buf s; passAt := passAt s; pc := c; unrel := unrel s; stopped := stopped s |}.

(* what happens after pass()/forward() returned at time t *)
Definition resume (s : jst) (k : kont) (t : Z) : jst :=
  match k with
  | KLoop => {| buf := []; passAt := t; pc := Loop; unrel := unrel s; stopped := stopped s |}
  | KForward xs => {| buf := []; passAt := t; pc := Sending xs false Forwarded KLoop; unrel := unrel s; stopped := stopped s |}
  | KAppend xs => {| buf := xs; passAt := t; pc := Loop; unrel := unrel s; stopped := stopped s |}
  | KClose => {| buf := []; passAt := t; pc := Closed; unrel := unrel s; stopped := stopped s |}
  end.

(* pass() called at time t with the accumulated elements b; k = the rest of the caller *)
Definition do_pass (s : jst) (b : list elem) (why : cause) (k : kont) (t : Z) : jst :=
  match b with
  | [] => resume s k t
  | _ => {| buf := b; passAt := passAt s; pc := Sending b true why k; unrel := unrel s; stopped := stopped s |}
  end.

Definition is_v1 (c : jcfg) : bool := match variant_of c with JoinV1 => true | _ => false end.
Definition is_unite (c : jcfg) : bool := match variant_of c with UniteV2 => true | _ => false end.

Definition process (c : jcfg) (s : jst) (t : Z) (xs : list elem) : jst :=
  if is_unite c then
    if (jsize c <=? length xs)%nat then do_pass s (buf s) Overflow (KForward xs) t
    else if (jsize c <? length xs + length (buf s))%nat then do_pass s (buf s) Overflow (KAppend xs) t
    else let b := buf s ++ xs in
         if (jsize c <=? length b)%nat then do_pass s b Full KLoop t
         else {| buf := b; passAt := passAt s; pc := Loop; unrel := unrel s; stopped := stopped s |}
  else
    let b := buf s ++ xs in
    if (jsize c <=? length b)%nat then do_pass s b Full KLoop t
    else {| buf := b; passAt := passAt s; pc := Loop; unrel := unrel s; stopped := stopped s |}.

(* None: the event is not enabled in this state (not a behaviour of the discipline) *)
Definition jstep (c : jcfg) (s : jst) (e : jev) : option (jst * list emission) :=
  match pc s, e with
  | Loop, In t xs =>
      if unrel s then Some (s, []) (* v1 after an unreleased slice: process() returns at once *)
      else Some (process c s t xs, [])
  | Loop, Tick t =>
      if interval c <=? 0 then None
      else if unrel s then Some (s, [])
      else if timeout c <=? t - passAt s then Some (do_pass s (buf s) Timeout KLoop t, []) else Some (s, [])
  | Loop, CloseIn t =>
      if unrel s then Some (set_pc s Closed, []) else Some (do_pass s (buf s) Final KClose t, [])
  | Loop, TakeStop t =>
      if is_v1 c && stopped s then
        if unrel s then Some (set_pc s Closed, []) else Some (do_pass s (buf s) Final KClose t, [])
      else None
  | Sending b own why k, Out t =>
      if nocopy c then Some (set_pc s (AwaitRel k), [(t, b, own, why)])
      else Some (resume s k t, [(t, b, own, why)])
  | Sending b own why k, Abort t =>
      if is_v1 c && stopped s then Some (resume s k t, []) else None
  | AwaitRel k, Rel t => Some (resume s k t, [])
  | AwaitRel k, Abort t =>
      if is_v1 c && stopped s then
        (* unreleased: the buffer is neither reset nor written again; passAt is still reset by the deferred call *)
        Some (match k with
              | KClose => {| buf := buf s; passAt := t; pc := Closed; unrel := true; stopped := stopped s |}
              | _ => {| buf := buf s; passAt := t; pc := Loop; unrel := true; stopped := stopped s |}
              end, [])
      else None
  | _, StopCall t =>
      if is_v1 c then Some ({| buf := buf s; passAt := passAt s; pc := pc s; unrel := unrel s; stopped := true |}, [])
      else None
  | _, _ => None
  end.

Definition jinit (t0 : Z) : jst := {| buf := []; passAt := t0; pc := Loop; unrel := false; stopped := false |}.

(* a trace: events in non-decreasing time order, each enabled *)
Fixpoint jrun (c : jcfg) (s : jst) (now : Z) (evs : list jev) : option (jst * list emission) :=
  match evs with
  | [] => Some (s, [])
  | e :: r =>
      if now <=? ev_time e then
        match jstep c s e with
        | Some (s1, o1) =>
            match jrun c s1 (ev_time e) r with
            | Some (s2, o2) => Some (s2, o1 ++ o2)
            | None => None
            end
        | None => None
        end
      else None
  end.

(* calcInterruptInterval (v2) / calcInterruptIntervalNonPositiveAllowed (v1).
   Result: inl interval | inr code (1 inaccuracy zero, 2 too big, 3 timeout too small) *)
Definition reliably_measurable : Z := 10000000. (* v1 general.ReliablyMeasurableDuration = 10ms *)
Definition calc_interval (v1 : bool) (timeout : Z) (inaccuracy : Z) : Z + Z :=
  if timeout <=? 0 then inl 0
  else if inaccuracy =? 0 then inr 1
  else let divider := 100 / inaccuracy in
       if divider =? 0 then inr 2
       else let i := timeout / divider in
            if v1 then (if i <? reliably_measurable then inr 3 else inl i)
            else (if i =? 0 then inr 3 else inl i).
(* Opts.normalize: a zero TimeoutInaccuracy means the default of 25 % *)
Definition normalize_inaccuracy (inaccuracy : Z) : Z := if inaccuracy =? 0 then 25 else inaccuracy.
