(* Tie lemmas for GenJoinUniteV2.v (v2/join/unite: Opts.isValid, Opts.normalize, calcInterruptInterval, prepareItem, resetJoin) versus Join.v.  Imports only this one generated file. *)
From Coq Require Import List NArith ZArith Bool Lia.
From Cqos Require Import GoSem Join GenTieMiscBase.
From Cqos Require GenJoinUniteV2.
Import ListNotations.

Module JU := GenJoinUniteV2.

(* ------------------------------------------------------------------ the result of calcInterruptInterval
   model: inl interval | inr code (1 inaccuracy zero, 2 inaccuracy too big, 3 timeout too small) -- the codes of the
   correspondence harness (errCodeJoin).  `*_enc` is what the Go function returns for a model result (the interval is 0
   next to an error); `*_dec` reads a Go result back (None for the errors that calcInterruptInterval never returns). *)

Definition unite_v2_enc (r : Z + Z) : Z * option JU.err_JoinUniteV2 :=
  match r with
  | inl i => (i, None)
  | inr c => (0%Z, Some (if (c =? 1)%Z then JU.ErrTimeoutInaccuracyZero
                         else if (c =? 2)%Z then JU.ErrTimeoutInaccuracyTooBig else JU.ErrTimeoutTooSmall))
  end.
Definition unite_v2_dec (r : Z * option JU.err_JoinUniteV2) : option (Z + Z) :=
  match r with
  | (i, None) => Some (inl i)
  | (_, Some JU.ErrTimeoutInaccuracyZero) => Some (inr 1%Z)
  | (_, Some JU.ErrTimeoutInaccuracyTooBig) => Some (inr 2%Z)
  | (_, Some JU.ErrTimeoutTooSmall) => Some (inr 3%Z)
  | (_, Some _) => None
  end.

Lemma unite_v2_dec_enc v1 timeout inaccuracy :
  unite_v2_dec (unite_v2_enc (calc_interval v1 timeout inaccuracy)) = Some (calc_interval v1 timeout inaccuracy).
Proof.
  pose proof (calc_interval_codes v1 timeout inaccuracy) as H.
  destruct (calc_interval v1 timeout inaccuracy) as [i|c]; [reflexivity|].
  destruct H as [->|[->| ->]]; reflexivity.
Qed.

Lemma unite_v2_calc_raw w timeout inaccuracy :
  JU.gen_calcInterruptInterval w timeout inaccuracy =
  (w, if (timeout <=? 0)%Z then (0%Z, None)
      else if (inaccuracy =? 0)%N then (0%Z, Some JU.ErrTimeoutInaccuracyZero)
      else if (100 / inaccuracy =? 0)%N then (0%Z, Some JU.ErrTimeoutInaccuracyTooBig)
      else let i := i_div timeout (i_of_u (100 / inaccuracy)%N) in
           if (i =? 0)%Z then (0%Z, Some JU.ErrTimeoutTooSmall) else (i, None)).
Proof.
  unfold JU.gen_calcInterruptInterval. cbn.
  destruct (timeout <=? 0)%Z; cbn; [reflexivity|].
  destruct (inaccuracy =? 0)%N; cbn; [reflexivity|].
  destruct (100 / inaccuracy =? 0)%N; cbn; [reflexivity|].
  destruct (i_div timeout (i_of_u (100 / inaccuracy)%N) =? 0)%Z; reflexivity.
Qed.

Lemma unite_v2_calc w timeout inaccuracy :
  (timeout < i_half)%Z ->
  JU.gen_calcInterruptInterval w timeout inaccuracy = (w, unite_v2_enc (calc_interval false timeout (Z.of_N inaccuracy))).
Proof.
  intros Ht. rewrite unite_v2_calc_raw, calc_interval_of_N by assumption. f_equal.
  destruct (timeout <=? 0)%Z; [reflexivity|].
  destruct (inaccuracy =? 0)%N; [reflexivity|].
  destruct (100 / inaccuracy =? 0)%N; [reflexivity|]. cbv zeta.
  destruct (i_div timeout (i_of_u (100 / inaccuracy)%N) =? 0)%Z; reflexivity.
Qed.

Lemma unite_v2_normalize w opts :
  JU.gen_normalize w opts =
  (w, JU.mk_Opts (JU.Opts_Input opts) (JU.Opts_JoinSize opts) (JU.Opts_NoCopy opts) (JU.Opts_Timeout opts)
        (Z.to_N (normalize_inaccuracy (Z.of_N (JU.Opts_TimeoutInaccuracy opts))))).
Proof.
  unfold JU.gen_normalize, normalize_inaccuracy. cbn. rewrite of_N_eqb0.
  destruct opts as [inp js nc tmo inacc]; cbn.
  destruct (N.eqb_spec inacc 0) as [->|Hnz]; cbn; [reflexivity|]. now rewrite N2Z.id.
Qed.

Lemma unite_v2_isValid_raw w opts :
  JU.gen_isValid w opts =
  (w, if is_nil (JU.Opts_Input opts) then Some JU.ErrInputEmpty
      else if (JU.Opts_JoinSize opts =? 0)%N then Some JU.ErrJoinSizeZero else None).
Proof.
  unfold JU.gen_isValid. cbn.
  destruct (is_nil (JU.Opts_Input opts)); cbn; [reflexivity|].
  destruct (JU.Opts_JoinSize opts =? 0)%N; reflexivity.
Qed.

(* ==== main tie theorems ==== *)

Theorem tie_unite_v2_calcInterruptInterval w timeout inaccuracy :
  i_range timeout ->
  JU.gen_calcInterruptInterval w timeout inaccuracy = (w, unite_v2_enc (calc_interval false timeout (Z.of_N inaccuracy))).
Proof. intros [_ Ht]. now apply unite_v2_calc. Qed.

Corollary tie_unite_v2_calcInterruptInterval_dec w timeout inaccuracy :
  i_range timeout ->
  fst (JU.gen_calcInterruptInterval w timeout inaccuracy) = w /\
  unite_v2_dec (snd (JU.gen_calcInterruptInterval w timeout inaccuracy)) = Some (calc_interval false timeout (Z.of_N inaccuracy)).
Proof. intros Ht. rewrite tie_unite_v2_calcInterruptInterval by assumption. cbn [fst snd]. now rewrite unite_v2_dec_enc. Qed.

Theorem tie_unite_v2_normalize w opts :
  JU.gen_normalize w opts =
  (w, JU.mk_Opts (JU.Opts_Input opts) (JU.Opts_JoinSize opts) (JU.Opts_NoCopy opts) (JU.Opts_Timeout opts)
        (Z.to_N (normalize_inaccuracy (Z.of_N (JU.Opts_TimeoutInaccuracy opts))))).
Proof. apply unite_v2_normalize. Qed.

Theorem tie_unite_v2_calcInterruptInterval_normalized w opts :
  i_range (JU.Opts_Timeout opts) ->
  (let '(w1, o) := JU.gen_normalize w opts in
   JU.gen_calcInterruptInterval w1 (JU.Opts_Timeout o) (JU.Opts_TimeoutInaccuracy o)) =
  (w, unite_v2_enc (calc_interval false (JU.Opts_Timeout opts)
                      (normalize_inaccuracy (Z.of_N (JU.Opts_TimeoutInaccuracy opts))))).
Proof.
  intros Ht. rewrite tie_unite_v2_normalize. cbn [JU.Opts_Timeout JU.Opts_TimeoutInaccuracy].
  rewrite tie_unite_v2_calcInterruptInterval by assumption. now rewrite normalize_inaccuracy_of_N.
Qed.

Theorem tie_unite_v2_isValid w opts :
  fst (JU.gen_isValid w opts) = w /\
  (snd (JU.gen_isValid w opts) = None <-> JU.Opts_Input opts <> None /\ JU.Opts_JoinSize opts <> 0%N) /\
  (snd (JU.gen_isValid w opts) = Some JU.ErrInputEmpty <-> JU.Opts_Input opts = None) /\
  (snd (JU.gen_isValid w opts) = Some JU.ErrJoinSizeZero <-> JU.Opts_Input opts <> None /\ JU.Opts_JoinSize opts = 0%N).
Proof.
  rewrite unite_v2_isValid_raw. cbn [fst snd].
  destruct (JU.Opts_Input opts) as [u|]; cbn [is_nil];
    destruct (N.eqb_spec (JU.Opts_JoinSize opts) 0) as [Hz|Hnz];
    repeat split; try congruence; try discriminate; intros; tauto.
Qed.

Corollary tie_unite_v2_isValid_jsize w opts :
  snd (JU.gen_isValid w opts) = None -> (1 <= N.to_nat (JU.Opts_JoinSize opts))%nat.
Proof. intros H. apply (proj1 (proj2 (tie_unite_v2_isValid w opts))) in H. lia. Qed.



(* ---------------------------------------------------------------- examples: no theorem is vacuous --------------- *)

(* v2 unite *)
Example ex_unite_v2_calc :
  JU.gen_calcInterruptInterval 7 1000000000%Z 25%N = (7%nat, unite_v2_enc (calc_interval false 1000000000%Z 25%Z)).
Proof. exact (tie_unite_v2_calcInterruptInterval 7 1000000000%Z 25%N i_range_ex1). Qed.
Example ex_unite_v2_calc_values :
  JU.gen_calcInterruptInterval 7 1000000000%Z 25%N = (7%nat, (250000000%Z, None)) /\
  JU.gen_calcInterruptInterval 7 3%Z 25%N = (7%nat, (0%Z, Some JU.ErrTimeoutTooSmall)) /\
  JU.gen_calcInterruptInterval 7 1000000000%Z 0%N = (7%nat, (0%Z, Some JU.ErrTimeoutInaccuracyZero)) /\
  JU.gen_calcInterruptInterval 7 1000000000%Z 101%N = (7%nat, (0%Z, Some JU.ErrTimeoutInaccuracyTooBig)).
Proof. vm_compute. repeat split. Qed.
Example ex_unite_v2_calc_dec :
  unite_v2_dec (snd (JU.gen_calcInterruptInterval 7 3%Z 25%N)) = Some (calc_interval false 3%Z 25%Z).
Proof. exact (proj2 (tie_unite_v2_calcInterruptInterval_dec 7 3%Z 25%N i_range_ex2)). Qed.
Example ex_unite_v2_normalize :
  JU.gen_normalize 7 (JU.mk_Opts (Some tt) 4 true 1000000000 0) = (7%nat, JU.mk_Opts (Some tt) 4 true 1000000000 25).
Proof. now rewrite tie_unite_v2_normalize. Qed.
Example ex_unite_v2_normalized :
  (let '(w1, o) := JU.gen_normalize 7 (JU.mk_Opts (Some tt) 4 true 1000000000 0) in
   JU.gen_calcInterruptInterval w1 (JU.Opts_Timeout o) (JU.Opts_TimeoutInaccuracy o)) = (7%nat, (250000000%Z, None)).
Proof. rewrite tie_unite_v2_calcInterruptInterval_normalized by exact i_range_ex1. reflexivity. Qed.
Example ex_unite_v2_isValid :
  snd (JU.gen_isValid 7 (JU.mk_Opts (Some tt) 4 false 0 0)) = None /\
  snd (JU.gen_isValid 7 (JU.mk_Opts None 0 false 0 0)) = Some JU.ErrInputEmpty /\
  snd (JU.gen_isValid 7 (JU.mk_Opts (Some tt) 0 false 0 0)) = Some JU.ErrJoinSizeZero.
Proof.
  split; [|split].
  - apply (tie_unite_v2_isValid 7 (JU.mk_Opts (Some tt) 4 false 0 0)). cbn. split; discriminate.
  - now apply (tie_unite_v2_isValid 7 (JU.mk_Opts None 0 false 0 0)).
  - apply (tie_unite_v2_isValid 7 (JU.mk_Opts (Some tt) 0 false 0 0)). cbn. split; [discriminate|reflexivity].
Qed.

(* ---------------------------------------------------------------- assumptions ------------------------------------ *)
Print Assumptions tie_unite_v2_calcInterruptInterval.
Print Assumptions tie_unite_v2_calcInterruptInterval_dec.
Print Assumptions tie_unite_v2_normalize.
Print Assumptions tie_unite_v2_calcInterruptInterval_normalized.
Print Assumptions tie_unite_v2_isValid.
Print Assumptions tie_unite_v2_isValid_jsize.
