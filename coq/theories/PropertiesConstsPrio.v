(* Property theorems: the constants of the models are the constants of the current Go sources (SrcConsts.v is generated from /repo on every run). *)
From Coq Require Import List ZArith NArith Bool. From Cqos Require Import Base Divider Sched Prio2 SrcConsts ConstsTiePrio. From Cqos Require Prio1 Run. Import ListNotations.
Theorem C01_tie_v2_capacity :
  forall (ps : list N) (h : N) (sorted : list N) (strat : dist) (buf : N -> bool),
         outcap (init_state ps h sorted strat buf) =
         divide_with_min h (Z.to_N v2_prio_capacity_divider) (N.of_nat (length ps)).
Proof. exact @tie_prio2_capacity. Qed.
Print Assumptions C01_tie_v2_capacity.

Theorem C01_tie_v2_feedback_limit :
  forall (ps : list N) (h : N) (sorted : list N) (strat : dist) (buf : N -> bool),
         fblimit (init_state ps h sorted strat buf) =
         N.to_nat (divide_with_min h (Z.to_N v2_prio_feedback_limit_divider) (N.of_nat (length ps))).
Proof. exact @tie_prio2_feedback_limit. Qed.
Print Assumptions C01_tie_v2_feedback_limit.

Theorem C01_tie_v1_feedback_limit :
  forall (dv : nat -> Divider) (cfg : list (N * nat)) (h : N) (bufs : nat -> bool) (ocap : N),
         Prio1.fblimit (Prio1.init_state dv cfg h bufs ocap) =
         N.to_nat (divide_with_min h (Z.to_N v1_prio_feedback_limit_divider) 1).
Proof. exact @tie_prio1_feedback_limit. Qed.
Print Assumptions C01_tie_v1_feedback_limit.

Theorem C01_tie_simple1_capacity :
  forall h n : N, Run.simple1_capacity h n = divide_with_min h (Z.to_N v1_prio_capacity_divider) n.
Proof. exact @tie_simple1_capacity. Qed.
Print Assumptions C01_tie_simple1_capacity.

Theorem C06_tie_delays_small :
  0 < v1_prio_idle_delay <= 50 /\
         0 < v1_prio_interrupt_timeout <= 50 /\
         0 < v2_prio_idle_delay <= 50 /\ 0 < v2_prio_interrupt_timeout <= 50.
Proof. exact @tie_prio_delays_small. Qed.
Print Assumptions C06_tie_delays_small.

