(* Property theorems for the v2 priority discipline, progress and saturation (C05 C06 C07). *)
From Coq Require Import List NArith Bool. From Cqos Require Import Base Divider Sched Prio2 Prio2P Prio2L. Import ListNotations. Open Scope N_scope.
Theorem C06_v2_no_wait_when_idle :
  forall dv : nat -> Divider,
         (forall (k : nat) (ps : list N) (n : N) (d : dist), NoDup (keys d) -> NoDup (keys (dv k ps n d))) ->
         forall s0 s : st, InitL s0 -> reachable dv s0 s -> pcs s = WaitFb -> 0 < sum (actual s).
Proof. exact @prio2_no_wait_when_idle. Qed.
Print Assumptions C06_v2_no_wait_when_idle.

Theorem C05_v2_share_bound :
  forall dv : nat -> Divider,
         (forall (k : nat) (ps : list N) (n : N) (d : dist), NoDup (keys d) -> NoDup (keys (dv k ps n d))) ->
         forall s0 s : st,
         InitL s0 -> sat_reachable dv s0 s -> forall p : N, get (actual s) p <= get (strategic s) p.
Proof. exact @prio2_share_bound. Qed.
Print Assumptions C05_v2_share_bound.

Theorem C05_v2_full_when_quiet :
  forall dv : nat -> Divider,
         (forall (k : nat) (ps : list N) (n : N) (d : dist), NoDup (keys d) -> NoDup (keys (dv k ps n d))) ->
         forall s0 s : st,
         InitL s0 ->
         sat_reachable dv s0 s ->
         pcs s = WaitFb -> fbq s = [] -> forall p : N, In p (prios s) -> get (actual s) p = get (strategic s) p.
Proof. exact @prio2_full_when_quiet. Qed.
Print Assumptions C05_v2_full_when_quiet.

Theorem C05_v2_full_when_quiet_sum :
  forall dv : nat -> Divider,
         (forall (k : nat) (ps : list N) (n : N) (d : dist), NoDup (keys d) -> NoDup (keys (dv k ps n d))) ->
         forall s0 s : st, InitL s0 -> sat_reachable dv s0 s -> pcs s = WaitFb -> sum (actual s) = H s.
Proof. exact @prio2_full_when_quiet_sum. Qed.
Print Assumptions C05_v2_full_when_quiet_sum.

Theorem C05_v2_literal_saturation_refuted :
  sat_reachable_literal fdv cx_s0 cx_s1 /\ get (actual cx_s1) 1 = 2 /\ get (strategic cx_s1) 1 = 1.
Proof. exact @sat_literal_false. Qed.
Print Assumptions C05_v2_literal_saturation_refuted.

Theorem C06_v2_round_delivers :
  forall dv : nat -> Divider,
         (forall (k : nat) (ps : list N) (n : N) (d : dist), NoDup (keys d) -> NoDup (keys (dv k ps n d))) ->
         forall s0 s : st,
         InitL s0 ->
         reachable dv s0 s ->
         pcs s = Calc ->
         sum (actual s) = 0 ->
         (exists p : N, In p (prios s) /\ drained s p = false /\ inq s p <> []) ->
         (forall q : N,
          In q (prios s) -> drained s q = false -> closed s q = false -> inq s q = [] -> buffered s q = true) ->
         exists (n : nat) (s' : st),
           (n <= 2 * length (prios s) + 4)%nat /\
           iter_sched dv n s = Some s' /\ length (delivered s') = S (length (delivered s)).
Proof. exact @prio2_round_delivers. Qed.
Print Assumptions C06_v2_round_delivers.

Theorem C06_v2_round_delivers_auto :
  forall dv : nat -> Divider,
         (forall (k : nat) (ps : list N) (n : N) (d : dist), NoDup (keys d) -> NoDup (keys (dv k ps n d))) ->
         forall s0 s : st,
         InitL s0 ->
         reachable dv s0 s ->
         pcs s = Calc ->
         sum (actual s) = 0 ->
         (exists p : N, In p (prios s) /\ drained s p = false /\ inq s p <> []) ->
         exists (n : nat) (s' : st),
           (n <= 3 * length (prios s) + 1)%nat /\
           iter_auto dv n s = Some s' /\ length (delivered s') = S (length (delivered s)).
Proof. exact @prio2_round_delivers_auto. Qed.
Print Assumptions C06_v2_round_delivers_auto.

Theorem C06_v2_alone_gets_all :
  forall dv : nat -> Divider,
         (forall (k : nat) (ps : list N) (n : N) (d : dist), NoDup (keys d) -> NoDup (keys (dv k ps n d))) ->
         (forall (k : nat) (p n : N) (d : dist),
          NoDup (keys d) -> get (dv k [p] n d) p = get d p + n /\ sum (dv k [p] n d) = sum d + n) ->
         forall (s0 s : st) (p : N),
         InitL s0 ->
         reachable dv s0 s ->
         pcs s = Calc ->
         sum (actual s) = 0 ->
         H s < two64 ->
         In p (prios s) ->
         (forall q : N, In q (prios s) -> q <> p -> inq s q = []) ->
         H s <= N.of_nat (length (inq s p)) ->
         exists (n : nat) (s' : st), iter_eager dv n s = Some s' /\ get (actual s') p = H s'.
Proof. exact @prio2_alone_gets_all. Qed.
Print Assumptions C06_v2_alone_gets_all.

Theorem C07_v2_prompt_from_calc :
  forall dv : nat -> Divider,
         (forall (k : nat) (ps : list N) (n : N) (d : dist), NoDup (keys d) -> NoDup (keys (dv k ps n d))) ->
         forall s0 s : st,
         InitL s0 ->
         reachable dv s0 s ->
         (forall p : N, In p (prios s) -> closed s p = true /\ inq s p = []) ->
         outq s = [] ->
         held s = [] ->
         (1 <= fblimit s)%nat ->
         pcs s = Calc ->
         exists (n : nat) (s' : st) (e : option derr),
           (n <= calc_bound (length (prios s)) (fblimit s) (length (fbq s)))%nat /\
           iter_auto dv n s = Some s' /\ pcs s' = Done e.
Proof. exact @prio2_prompt_termination_from_calc. Qed.
Print Assumptions C07_v2_prompt_from_calc.

Theorem C07_v2_prompt_partial :
  forall dv : nat -> Divider,
         (forall (k : nat) (ps : list N) (n : N) (d : dist), NoDup (keys d) -> NoDup (keys (dv k ps n d))) ->
         forall s0 s : st,
         InitL s0 ->
         reachable dv s0 s ->
         (forall p : N, In p (prios s) -> closed s p = true /\ inq s p = []) ->
         outq s = [] ->
         held s = [] ->
         (1 <= fblimit s)%nat ->
         (forall (ph : phase) (p x : N) (r : list N) (proc : N), pcs s <> Send ph p x r proc) ->
         exists (n : nat) (s' : st) (e : option derr),
           (n <= bound s)%nat /\ iter_auto dv n s = Some s' /\ pcs s' = Done e.
Proof. exact @prio2_prompt_termination_partial. Qed.
Print Assumptions C07_v2_prompt_partial.

Theorem C07_v2_prompt_needs_no_limbo :
  pcs cxd_s = Send P1 2 7 [1] 0 /\
         (forall p : N, In p (prios cxd_s) -> closed cxd_s p = true /\ inq cxd_s p = []) /\
         outq cxd_s = [] /\
         held cxd_s = [] /\
         fbq cxd_s = [] /\
         (forall (n : nat) (s' : st),
          iter_auto fdv n cxd_s = Some s' -> forall e : option derr, pcs s' <> Done e).
Proof. exact @prompt_needs_not_send. Qed.
Print Assumptions C07_v2_prompt_needs_no_limbo.

