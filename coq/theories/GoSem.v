(* GoSem: the semantics library of the Go -> Gallina translator tools/gotrans (hand-written, stable).

   The generated files Gen*.v contain one definition gen_<func> per Go function (plus one gen_<func>_loop<i> per loop
   body).  Every Go function becomes a state transformer over a record of all its local variables (`<func>_vars`):
   a statement is a term of type `ctl V R` (V = the variable record, R = the result type of the function), statements
   are sequenced with `bind`, loops are `range_loop` / `while_loop`.

   Totalisations and simplifications (documented in tools/gotrans/README.md):
     - a run-time panic (division by zero, index out of range, write to a nil map, call of a nil function value,
       uint(f) of a float outside the range) does not exist in the model: the operation returns a default value;
     - slices are values (lists): no aliasing, no capacity;
     - `range` over a map iterates over a snapshot of its association list, in list order;
     - uint, uint64, uintptr, integer type parameters are N modulo 2^64; int, int64, time.Duration are Z in
       two's complement modulo 2^64; *big.Int is Z (exact); float64 is Float64.b64 (Flocq);
     - channel, ticker, context, pointer-to-foreign and func values (other than the Divider signatures) are `opaque`
       (None = nil, Some tt = anything else).
   No Axiom, Parameter or Admitted here.  (The float64 operations inherit the standard-library axioms of Flocq's
   reals exactly as Float64.v does; nothing else in this file depends on them.) *)
From Coq Require Import List NArith ZArith Bool Lia.
From Flocq Require Import Core BinarySingleNaN.
From Cqos Require Import Base Float64.
Import ListNotations.

(* ------------------------------------------------------------------ control *)

Inductive ctl (V R : Type) : Type :=
| Next (v : V)            (* normal completion *)
| Ret (v : V) (r : R)     (* return r *)
| Brk (v : V)             (* break *)
| Cnt (v : V)             (* continue *)
| Fuel (v : V).           (* a while_loop ran out of fuel *)
Arguments Next {V R} v.
Arguments Ret {V R} v r.
Arguments Brk {V R} v.
Arguments Cnt {V R} v.
Arguments Fuel {V R} v.

(* sequencing: only Next continues *)
Definition bind {V R : Type} (c : ctl V R) (k : V -> ctl V R) : ctl V R :=
  match c with
  | Next v => k v
  | Ret v r => Ret v r
  | Brk v => Brk v
  | Cnt v => Cnt v
  | Fuel v => Fuel v
  end.

(* `for ... := range l { body }`: Next/Cnt go on, Brk leaves the loop normally, Ret and Fuel propagate *)
Fixpoint range_loop {V X R : Type} (body : V -> X -> ctl V R) (l : list X) (v : V) : ctl V R :=
  match l with
  | [] => Next v
  | x :: r =>
      match body v x with
      | Next v' => range_loop body r v'
      | Cnt v' => range_loop body r v'
      | Brk v' => Next v'
      | Ret v' r0 => Ret v' r0
      | Fuel v' => Fuel v'
      end
  end.

(* `for ; cond; post { body }`; out of fuel => Fuel.  `continue` runs post, `break` does not. *)
Fixpoint while_loop {V R : Type} (fuel : nat) (cond : V -> bool) (body : V -> ctl V R) (post : V -> V) (v : V)
  : ctl V R :=
  match fuel with
  | O => Fuel v
  | S n =>
      if cond v then
        match body v with
        | Next v' => while_loop n cond body post (post v')
        | Cnt v' => while_loop n cond body post (post v')
        | Brk v' => Next v'
        | Ret v' r0 => Ret v' r0
        | Fuel v' => Fuel v'
        end
      else Next v
  end.

Section CtlLemmas.
Context {V R : Type}.
Implicit Types (v : V) (k : V -> ctl V R).

Lemma bind_Next v k : bind (Next v) k = k v.                         Proof. reflexivity. Qed.
Lemma bind_Ret v (r : R) k : bind (Ret v r) k = Ret v r.             Proof. reflexivity. Qed.
Lemma bind_Brk v k : bind (@Brk V R v) k = Brk v.                    Proof. reflexivity. Qed.
Lemma bind_Cnt v k : bind (@Cnt V R v) k = Cnt v.                    Proof. reflexivity. Qed.
Lemma bind_Fuel v k : bind (@Fuel V R v) k = Fuel v.                 Proof. reflexivity. Qed.
Lemma bind_Next_r (c : ctl V R) : bind c Next = c.                   Proof. destruct c; reflexivity. Qed.
Lemma bind_assoc (c : ctl V R) k1 k2 : bind (bind c k1) k2 = bind c (fun v => bind (k1 v) k2).
Proof. destruct c; reflexivity. Qed.
Lemma bind_if (b : bool) (c1 c2 : ctl V R) k : bind (if b then c1 else c2) k = if b then bind c1 k else bind c2 k.
Proof. destruct b; reflexivity. Qed.

Context {X : Type}.
Implicit Types (body : V -> X -> ctl V R) (l : list X).

Lemma range_loop_nil body v : range_loop body [] v = Next v.         Proof. reflexivity. Qed.
Lemma range_loop_cons body x l v :
  range_loop body (x :: l) v =
  match body v x with
  | Next v' => range_loop body l v' | Cnt v' => range_loop body l v'
  | Brk v' => Next v' | Ret v' r0 => Ret v' r0 | Fuel v' => Fuel v'
  end.
Proof. reflexivity. Qed.
Lemma range_loop_cons_Next body x l v v' : body v x = Next v' -> range_loop body (x :: l) v = range_loop body l v'.
Proof. intros H; simpl; now rewrite H. Qed.
Lemma range_loop_cons_Cnt body x l v v' : body v x = Cnt v' -> range_loop body (x :: l) v = range_loop body l v'.
Proof. intros H; simpl; now rewrite H. Qed.
Lemma range_loop_cons_Brk body x l v v' : body v x = Brk v' -> range_loop body (x :: l) v = Next v'.
Proof. intros H; simpl; now rewrite H. Qed.
Lemma range_loop_cons_Ret body x l v v' r : body v x = Ret v' r -> range_loop body (x :: l) v = Ret v' r.
Proof. intros H; simpl; now rewrite H. Qed.

(* the loop over l1 ++ l2 when the body never breaks: run l1, then (if it completed normally) l2 *)
Lemma range_loop_app body l1 l2 v :
  (forall v x v', In x l1 -> body v x <> Brk v') ->
  range_loop body (l1 ++ l2) v = bind (range_loop body l1 v) (range_loop body l2).
Proof.
  revert v; induction l1 as [|x l1 IH]; intros v H; simpl; [reflexivity|].
  destruct (body v x) eqn:E; try reflexivity; try (apply IH; intros; apply H; now right).
  exfalso. eapply H; [now left|exact E].
Qed.
Lemma range_loop_app_Ret body l1 l2 v v' r :
  range_loop body l1 v = Ret v' r -> range_loop body (l1 ++ l2) v = Ret v' r.
Proof.
  revert v; induction l1 as [|x l1 IH]; intros v; simpl; [discriminate|].
  destruct (body v x); auto; discriminate.
Qed.

(* break-free prefix: every iteration of l1 ends with Next or Cnt *)
Fixpoint runs_through body l v : option V :=
  match l with
  | [] => Some v
  | x :: r => match body v x with Next v' => runs_through body r v' | Cnt v' => runs_through body r v' | _ => None end
  end.
Lemma range_loop_app_through body l1 l2 v v' :
  runs_through body l1 v = Some v' -> range_loop body (l1 ++ l2) v = range_loop body l2 v'.
Proof.
  revert v; induction l1 as [|x l1 IH]; intros v; simpl.
  - now intros [= ->].
  - destruct (body v x); try discriminate; apply IH.
Qed.
Lemma range_loop_snoc body l x v v' :
  runs_through body l v = Some v' ->
  range_loop body (l ++ [x]) v = range_loop body [x] v'.
Proof. apply range_loop_app_through. Qed.

(* a loop whose body always completes normally is a fold *)
Lemma range_loop_fold body (f : V -> X -> V) l v :
  (forall v x, In x l -> body v x = Next (f v x) \/ body v x = Cnt (f v x)) ->
  range_loop body l v = Next (fold_left f l v).
Proof.
  revert v; induction l as [|x l IH]; intros v H; simpl; [reflexivity|].
  destruct (H v x (or_introl eq_refl)) as [-> | ->]; apply IH; intros; apply H; now right.
Qed.

(* the same with an invariant on the state *)
Lemma range_loop_fold_inv (P : V -> Prop) body (f : V -> X -> V) l v :
  P v ->
  (forall v x, In x l -> P v -> (body v x = Next (f v x) \/ body v x = Cnt (f v x)) /\ P (f v x)) ->
  range_loop body l v = Next (fold_left f l v) /\ P (fold_left f l v).
Proof.
  revert v; induction l as [|x l IH]; intros v Pv H; simpl; [auto|].
  destruct (H v x (or_introl eq_refl) Pv) as [[-> | ->] P']; apply IH; auto; intros; apply H; auto; now right.
Qed.

Lemma while_loop_O (cond : V -> bool) (body : V -> ctl V R) post v : while_loop O cond body post v = Fuel v.
Proof. reflexivity. Qed.
Lemma while_loop_S n (cond : V -> bool) (body : V -> ctl V R) post v :
  while_loop (S n) cond body post v =
  if cond v then
    match body v with
    | Next v' => while_loop n cond body post (post v') | Cnt v' => while_loop n cond body post (post v')
    | Brk v' => Next v' | Ret v' r0 => Ret v' r0 | Fuel v' => Fuel v'
    end
  else Next v.
Proof. reflexivity. Qed.
End CtlLemmas.

(* ------------------------------------------------------------------ nil-able things *)

Definition is_nil {A : Type} (o : option A) : bool := match o with None => true | Some _ => false end.

(* channels, tickers, contexts, foreign pointers, func values of other signatures: only nil-ness is kept *)
Definition opaque : Type := option unit.
Definition opaque_some : opaque := Some tt.

(* reference parameters that the callee re-assigns (`distribution = make(...)`): the hidden field
   `<p>__caller : option T` is None while the local variable still denotes the caller's object and `Some c` once
   it has been re-assigned (c = the state of the caller's object at that moment, which can no longer change) *)
Definition detach {T : Type} (c : option T) (cur : T) : option T := match c with None => Some cur | Some _ => c end.
Definition caller_val {T : Type} (c : option T) (cur : T) : T := match c with None => cur | Some x => x end.

(* ------------------------------------------------------------------ unsigned integers: N modulo 2^64 *)

Definition u_modulus : N := 18446744073709551616.
Definition u_wrap (n : N) : N := (n mod u_modulus)%N.
Definition u_add (a b : N) : N := ((a + b) mod u_modulus)%N.
Definition u_sub (a b : N) : N := ((a + u_modulus - b) mod u_modulus)%N.
Definition u_mul (a b : N) : N := ((a * b) mod u_modulus)%N.
(* division by zero panics in Go; in the model x / 0 = 0 and x mod 0 = x (N.div, N.modulo) *)
Notation u_div := N.div (only parsing).
Notation u_mod := N.modulo (only parsing).
#[global] Arguments u_modulus : simpl never.
#[global] Arguments u_wrap : simpl never.
#[global] Arguments u_add : simpl never.
#[global] Arguments u_sub : simpl never.
#[global] Arguments u_mul : simpl never.

Section ULemmas.
Local Open Scope N_scope.
Lemma u_modulus_eq : u_modulus = 2 ^ 64.                              Proof. reflexivity. Qed.
Lemma u_wrap_small n : n < u_modulus -> u_wrap n = n.                 Proof. apply N.mod_small. Qed.
Lemma u_add_small a b : a + b < u_modulus -> u_add a b = a + b.       Proof. apply N.mod_small. Qed.
Lemma u_mul_small a b : a * b < u_modulus -> u_mul a b = a * b.       Proof. apply N.mod_small. Qed.
Lemma u_sub_small a b : b <= a -> a < u_modulus -> u_sub a b = a - b.
Proof.
  intros H1 H2. unfold u_sub. replace (a + u_modulus - b) with ((a - b) + 1 * u_modulus) by lia.
  rewrite N.mod_add by discriminate. apply N.mod_small. lia.
Qed.
Lemma u_add_lt a b : u_add a b < u_modulus.                           Proof. apply N.mod_lt; discriminate. Qed.
Lemma u_sub_lt a b : u_sub a b < u_modulus.                           Proof. apply N.mod_lt; discriminate. Qed.
Lemma u_mul_lt a b : u_mul a b < u_modulus.                           Proof. apply N.mod_lt; discriminate. Qed.
Lemma u_add_0_r a : a < u_modulus -> u_add a 0 = a.
Proof. intros; rewrite u_add_small; lia. Qed.
Lemma u_sub_eq a b : u_sub a b = (a + u_modulus - b) mod u_modulus.   Proof. reflexivity. Qed.
End ULemmas.

(* akramarenkov/safe.SumInt at an unsigned type: (sum, nil) or (0, ErrValueOverflow) *)
Definition safe_SumInt {E : Type} (overflow : E) (a b : N) : N * option E :=
  if (a + b <? u_modulus)%N then ((a + b)%N, None) else (0%N, Some overflow).
Lemma safe_SumInt_small {E} (e : E) a b : (a + b < u_modulus)%N -> safe_SumInt e a b = ((a + b)%N, None).
Proof. intros H; unfold safe_SumInt. now apply N.ltb_lt in H as ->. Qed.
Lemma safe_SumInt_big {E} (e : E) a b : (u_modulus <= a + b)%N -> safe_SumInt e a b = (0%N, Some e).
Proof. intros H; unfold safe_SumInt. now apply N.ltb_ge in H as ->. Qed.

(* ------------------------------------------------------------------ signed integers: Z, two's complement, 64 bit *)

Definition i_half : Z := 9223372036854775808.          (* 2^63 *)
Definition i_modulus : Z := 18446744073709551616.      (* 2^64 *)
Definition i_wrap (z : Z) : Z := ((z + i_half) mod i_modulus - i_half)%Z.
Definition i_add (a b : Z) : Z := i_wrap (a + b).
Definition i_sub (a b : Z) : Z := i_wrap (a - b).
Definition i_mul (a b : Z) : Z := i_wrap (a * b).
Definition i_neg (a : Z) : Z := i_wrap (- a).
(* Go's / and % truncate toward zero; MinInt64 / -1 wraps; division by zero panics in Go, is 0 resp. a here *)
Definition i_div (a b : Z) : Z := i_wrap (Z.quot a b).
Notation i_mod := Z.rem (only parsing).
Definition u_of_i (z : Z) : N := Z.to_N (z mod i_modulus).        (* uint64(int64) *)
Definition i_of_u (n : N) : Z := i_wrap (Z.of_N n).               (* int64(uint64) *)
#[global] Arguments i_half : simpl never.
#[global] Arguments i_modulus : simpl never.
#[global] Arguments i_wrap : simpl never.
#[global] Arguments i_add : simpl never.
#[global] Arguments i_sub : simpl never.
#[global] Arguments i_mul : simpl never.
#[global] Arguments i_neg : simpl never.
#[global] Arguments i_div : simpl never.
#[global] Arguments u_of_i : simpl never.
#[global] Arguments i_of_u : simpl never.

Section ILemmas.
Local Open Scope Z_scope.
Definition i_range (z : Z) : Prop := - i_half <= z < i_half.
Lemma i_wrap_small z : i_range z -> i_wrap z = z.
Proof. unfold i_range, i_wrap, i_half, i_modulus. intros H. rewrite Z.mod_small; lia. Qed.
Lemma i_wrap_range z : i_range (i_wrap z).
Proof.
  unfold i_range, i_wrap, i_half, i_modulus.
  pose proof (Z.mod_pos_bound (z + 9223372036854775808) 18446744073709551616 eq_refl). lia.
Qed.
Lemma i_add_small a b : i_range (a + b) -> i_add a b = a + b.        Proof. apply i_wrap_small. Qed.
Lemma i_sub_small a b : i_range (a - b) -> i_sub a b = a - b.        Proof. apply i_wrap_small. Qed.
Lemma i_mul_small a b : i_range (a * b) -> i_mul a b = a * b.        Proof. apply i_wrap_small. Qed.
Lemma i_div_small a b : i_range (Z.quot a b) -> i_div a b = Z.quot a b.  Proof. apply i_wrap_small. Qed.
(* for non-negative operands truncated and floored division agree *)
Lemma i_div_nonneg a b : 0 <= a < i_half -> 0 < b -> i_div a b = a / b.
Proof.
  intros Ha Hb. unfold i_div. rewrite Z.quot_div_nonneg by lia. apply i_wrap_small.
  unfold i_range, i_half in *. split.
  - pose proof (Z.div_pos a b); lia.
  - apply Z.le_lt_trans with a; [|lia]. apply Z.div_le_upper_bound; nia.
Qed.
Lemma u_of_i_nonneg z : 0 <= z < i_modulus -> u_of_i z = Z.to_N z.
Proof. intros H; unfold u_of_i. now rewrite Z.mod_small. Qed.
Lemma i_of_u_small n : Z.of_N n < i_half -> i_of_u n = Z.of_N n.
Proof. intros H. apply i_wrap_small. unfold i_range, i_half in *. lia. Qed.
End ILemmas.

(* *big.Int: exact integers *)
Definition big_is_uint64 (z : Z) : bool := ((0 <=? z) && (z <=? 18446744073709551615))%Z.

(* ------------------------------------------------------------------ float64 (the operations Float64.v lacks) *)

Definition f_zero : b64 := B754_zero false.
Definition fadd (x y : b64) : b64 := Bplus mode_NE x y.
Definition fneg (x : b64) : b64 := Bopp x.
Definition flt (x y : b64) : bool := Bltb x y.                     (* x < y, false on NaN *)
Definition fle (x y : b64) : bool := Bleb x y.
Definition fge (x y : b64) : bool := Bleb y x.
Definition feq (x y : b64) : bool := Beqb x y.
Definition f_of_u (n : N) : b64 := of_Z (Z.of_N n).                (* float64(uint) *)
Definition f_of_i (z : Z) : b64 := of_Z z.                         (* float64(int) *)
(* uint(f), int(f): truncation; outside the target range Go's result is implementation-defined, the model keeps
   the (unbounded) truncation for non-negative f and 0 for negative f / NaN / Inf *)
Definition u_of_f (x : b64) : N := Z.to_N (to_Z x).
Definition i_of_f (x : b64) : Z := to_Z x.

(* the model of the Rate divider's rounded part is literally Float64.part_f *)
Lemma part_f_eq d S p : part_f d S p = u_of_f (round_away (fmul (fdiv (f_of_u d) (f_of_u S)) (f_of_u p))).
Proof. reflexivity. Qed.

(* ------------------------------------------------------------------ slices: lists, no aliasing *)

Definition len {T : Type} (l : list T) : N := N.of_nat (length l).
Definition len_i {T : Type} (l : list T) : Z := Z.of_nat (length l).
Definition lnth {T : Type} (zero : T) (l : list T) (i : nat) : T := nth i l zero.
Fixpoint lset {T : Type} (l : list T) (i : nat) (x : T) : list T :=
  match l, i with
  | [], _ => []                                   (* index out of range: panics in Go *)
  | _ :: r, O => x :: r
  | y :: r, S j => y :: lset r j x
  end.
Definition lmake {T : Type} (zero : T) (n : nat) : list T := repeat zero n.
(* copy(dst, src): the first min(len dst, len src) elements of dst are replaced *)
Definition lcopy {T : Type} (dst src : list T) : list T :=
  firstn (length dst) src ++ skipn (length src) dst.
Definition lslice {T : Type} (l : list T) (lo hi : nat) : list T := firstn (hi - lo) (skipn lo l).
(* `for i, x := range l` *)
Definition lindexed {T : Type} (l : list T) : list (Z * T) := combine (map Z.of_nat (seq 0 (length l))) l.
(* `for i := range n` over an unsigned integer *)
Definition useq (n : N) : list N := map N.of_nat (seq 0 (N.to_nat n)).

#[global] Arguments len : simpl never.
#[global] Arguments len_i : simpl never.
Lemma len_cons {T} (x : T) l : len (x :: l) = (len l + 1)%N.
Proof. unfold len; cbn [length]; lia. Qed.
Lemma len_cons_neq0 {T} (x : T) l : (len (x :: l) =? 0)%N = false.
Proof. rewrite len_cons. apply N.eqb_neq. lia. Qed.
Lemma len_nil {T} : len (@nil T) = 0%N.                              Proof. reflexivity. Qed.
Lemma len_eq {T} (l : list T) : len l = N.of_nat (length l).         Proof. reflexivity. Qed.
Lemma len_0 {T} (l : list T) : (len l =? 0)%N = match l with [] => true | _ => false end.
Proof. destruct l; reflexivity. Qed.
Lemma len_app {T} (a b : list T) : len (a ++ b) = (len a + len b)%N.
Proof. unfold len. rewrite app_length. lia. Qed.
Lemma lcopy_full {T} (dst src : list T) : length dst = length src -> lcopy dst src = src.
Proof. intros H. unfold lcopy. rewrite H, firstn_all, skipn_all2 by lia. apply app_nil_r. Qed.
Lemma lset_length {T} (l : list T) i x : length (lset l i x) = length l.
Proof. revert i; induction l; destruct i; simpl; auto. Qed.
Lemma lset_app_last {T} (l : list T) y x : lset (l ++ [y]) (length l) x = l ++ [x].
Proof. induction l; simpl; congruence. Qed.

(* common.SortPriorities: sort.SliceStable with less(i, j) = priorities[j] < priorities[i] -- a stable sort, highest
   first; modelled by the stable insertion sort (the same definition as Sched.sort_desc) *)
Fixpoint insert_desc (x : N) (l : list N) : list N :=
  match l with
  | [] => [x]
  | y :: r => if (y <? x)%N then x :: y :: r else y :: insert_desc x r
  end.
Fixpoint sort_desc (l : list N) : list N :=
  match l with [] => [] | x :: r => insert_desc x (sort_desc r) end.

(* ------------------------------------------------------------------ maps: map[uint]T *)

(* None = the nil map; Some l = an association list (unique keys; first binding wins on lookup) *)
Definition gmap (T : Type) : Type := option (list (N * T)).

Fixpoint aget {T : Type} (zero : T) (l : list (N * T)) (k : N) : T :=
  match l with [] => zero | (k', v) :: r => if N.eqb k k' then v else aget zero r k end.
Fixpoint aset {T : Type} (l : list (N * T)) (k : N) (v : T) : list (N * T) :=
  match l with
  | [] => [(k, v)]
  | (k', v') :: r => if N.eqb k k' then (k, v) :: r else (k', v') :: aset r k v
  end.
Fixpoint ahas {T : Type} (l : list (N * T)) (k : N) : bool :=
  match l with [] => false | (k', _) :: r => if N.eqb k k' then true else ahas r k end.
Definition adel {T : Type} (l : list (N * T)) (k : N) : list (N * T) :=
  filter (fun kv => negb (N.eqb (fst kv) k)) l.

Definition mnil {T : Type} : gmap T := None.
Definition mmake {T : Type} : gmap T := Some [].                                    (* make(map[uint]T) *)
Definition mget {T : Type} (zero : T) (m : gmap T) (k : N) : T :=                   (* m[k] *)
  match m with None => zero | Some l => aget zero l k end.
Definition mhas {T : Type} (m : gmap T) (k : N) : bool :=                           (* _, ok := m[k] *)
  match m with None => false | Some l => ahas l k end.
(* m[k] = v; on a nil map Go panics, the model leaves it nil *)
Definition mset {T : Type} (m : gmap T) (k : N) (v : T) : gmap T :=
  match m with None => None | Some l => Some (aset l k v) end.
Definition mdel {T : Type} (m : gmap T) (k : N) : gmap T :=                         (* delete(m, k) *)
  match m with None => None | Some l => Some (adel l k) end.
Definition mitems {T : Type} (m : gmap T) : list (N * T) := match m with None => [] | Some l => l end.
Definition mkeys {T : Type} (m : gmap T) : list N := map fst (mitems m).
Definition mlen {T : Type} (m : gmap T) : N := N.of_nat (length (mitems m)).        (* len(m) *)
Definition mlen_i {T : Type} (m : gmap T) : Z := Z.of_nat (length (mitems m)).
Definition mclear {T : Type} (m : gmap T) : gmap T := match m with None => None | Some _ => Some [] end.
Definition mclone {T : Type} (m : gmap T) : gmap T := m.                            (* maps.Clone *)

Section MapLemmas.
Local Open Scope N_scope.
(* at value type N the association-list operations are those of Base.v *)
Lemma aget_get (l : Base.dist) k : aget 0 l k = Base.get l k.
Proof. induction l as [|[k' v] r IH]; simpl; [reflexivity|]. now rewrite IH. Qed.
Lemma aset_set (l : Base.dist) k v : aset l k v = Base.set l k v.
Proof. induction l as [|[k' v'] r IH]; simpl; [reflexivity|]. now rewrite IH. Qed.
Lemma mget_Some (l : Base.dist) k : mget 0 (Some l) k = Base.get l k.
Proof. apply aget_get. Qed.
Lemma mset_Some (l : Base.dist) k v : mset (Some l) k v = Some (Base.set l k v).
Proof. simpl. now rewrite aset_set. Qed.
Lemma mget_None {T} (z : T) k : mget z None k = z.                   Proof. reflexivity. Qed.
Lemma mset_None {T} k (v : T) : mset None k v = None.                Proof. reflexivity. Qed.
Lemma mitems_Some {T} (l : list (N * T)) : mitems (Some l) = l.      Proof. reflexivity. Qed.
Lemma mkeys_Some (l : Base.dist) : mkeys (Some l) = Base.keys l.
Proof. unfold mkeys; simpl. induction l as [|[k v] r IH]; simpl; congruence. Qed.
Lemma mlen_Some {T} (l : list (N * T)) : mlen (Some l) = N.of_nat (length l).   Proof. reflexivity. Qed.
Lemma mdel_Some {T} (l : list (N * T)) k :
  mdel (Some l) k = Some (filter (fun kv => negb (N.eqb (fst kv) k)) l).
Proof. reflexivity. Qed.
Lemma is_nil_Some {A} (x : A) : is_nil (Some x) = false.             Proof. reflexivity. Qed.
Lemma is_nil_None {A} : is_nil (@None A) = true.                     Proof. reflexivity. Qed.

Lemma aget_aset_same {T} (z : T) l k v : aget z (aset l k v) k = v.
Proof.
  induction l as [|[k' v'] r IH]; simpl; [now rewrite N.eqb_refl|].
  destruct (N.eqb_spec k k') as [->|Hne]; simpl; [now rewrite N.eqb_refl|].
  destruct (N.eqb_spec k k'); [contradiction|auto].
Qed.
Lemma aget_aset_other {T} (z : T) l k k' v : k <> k' -> aget z (aset l k v) k' = aget z l k'.
Proof.
  intros Hne. induction l as [|[k0 v0] r IH]; simpl.
  - destruct (N.eqb_spec k' k); [congruence|auto].
  - destruct (N.eqb_spec k k0) as [->|H0]; simpl.
    + destruct (N.eqb_spec k' k0); [congruence|auto].
    + destruct (N.eqb_spec k' k0); auto.
Qed.
Lemma map_fst_aset_in {T} (l : list (N * T)) k v : In k (map fst l) -> map fst (aset l k v) = map fst l.
Proof.
  induction l as [|[k' v'] r IH]; simpl; [tauto|].
  destruct (N.eqb_spec k k') as [->|Hne]; simpl; [reflexivity|].
  intros [H|H]; [congruence|]. now rewrite IH.
Qed.
End MapLemmas.

(* ------------------------------------------------------------------ Divider function values *)

(* v2: func(priorities []uint, dividend uint, distribution map[uint]uint) -- updates the map in place.
   v1: func(...) map[uint]uint -- returns the map.
   The first argument of the model is the index of the call (the world counter w), so that stateful dividers are
   covered; a nil function value is None (calling it panics in Go; in the model the call does nothing). *)
Definition divider_fn : Type := nat -> list N -> N -> gmap N -> gmap N.
Definition divfn : Type := option divider_fn.

Definition call_div2 (f : divfn) (w : nat) (ps : list N) (d : N) (m : gmap N) : gmap N :=
  match f with Some g => g w ps d m | None => m end.
Definition call_div1 (f : divfn) (w : nat) (ps : list N) (d : N) (m : gmap N) : gmap N :=
  match f with Some g => g w ps d m | None => None end.
(* what the caller's map looks like after a v1 divider returned r: a v1 divider that is given a non-nil map and
   returns a non-nil map returns that same (updated) map -- the contract stated at the type Divider; when it
   returns nil (the built-in dividers do for an empty list of priorities) the argument is unchanged *)
Definition div1_arg_after (m r : gmap N) : gmap N :=
  match m, r with Some _, Some _ => r | _, _ => m end.

Lemma call_div2_Some g w ps d m : call_div2 (Some g) w ps d m = g w ps d m.       Proof. reflexivity. Qed.
Lemma call_div1_Some g w ps d m : call_div1 (Some g) w ps d m = g w ps d m.       Proof. reflexivity. Qed.
