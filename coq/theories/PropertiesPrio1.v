(* Property theorems for the v1 priority discipline (C01 C02 C07 C16 C17). *)
From Coq Require Import List NArith Bool Sorted. From Cqos Require Import Base Divider Sched Prio1 Prio1P. Import ListNotations. Open Scope N_scope.
Theorem C01_v1_accounting :
  forall (fixed : bool) (dv : nat -> Divider),
         (forall (k : nat) (ps : list N) (n : N) (d : dist), NoDup (keys d) -> NoDup (keys (dv k ps n d))) ->
         forall s0 s : st, Init1 s0 -> reachable fixed dv s0 s -> forall p : N, get (actual s) p = cnt s p.
Proof. exact @prio1_accounting. Qed.
Print Assumptions C01_v1_accounting.

Theorem C01_v1_capacity :
  forall (fixed : bool) (dv : nat -> Divider),
         (forall (k : nat) (ps : list N) (n : N) (d : dist), NoDup (keys d) -> NoDup (keys (dv k ps n d))) ->
         forall s0 s : st,
         Init1 s0 ->
         reachable fixed dv s0 s ->
         N.of_nat (length (outq s)) + N.of_nat (length (held s)) + N.of_nat (length (fbq s)) = sum (actual s) /\
         sum (actual s) <= H s.
Proof. exact @prio1_capacity. Qed.
Print Assumptions C01_v1_capacity.

Theorem C01_v1_round_budget :
  forall (fixed : bool) (dv : nat -> Divider),
         (forall (k : nat) (ps : list N) (n : N) (d : dist), NoDup (keys d) -> NoDup (keys (dv k ps n d))) ->
         forall s0 s : st,
         Init1 s0 ->
         reachable fixed dv s0 s ->
         match pcs s with
         | Prio _ _ _ | Read _ _ _ _ _ | Send _ _ _ _ _ | Recalc _ => sum (actual s) + sum (tactic s) <= H s
         | _ => True
         end.
Proof. exact @prio1_round_budget. Qed.
Print Assumptions C01_v1_round_budget.

Theorem C01_v1_never_quantity_exceeded :
  forall (fixed : bool) (dv : nat -> Divider),
         (forall (k : nat) (ps : list N) (n : N) (d : dist), NoDup (keys d) -> NoDup (keys (dv k ps n d))) ->
         forall s0 s : st,
         Init1 s0 ->
         reachable fixed dv s0 s ->
         pcs s <> Drain (Some EQuantityExceeded) /\ pcs s <> Done (Some EQuantityExceeded).
Proof. exact @prio1_never_quantity_exceeded. Qed.
Print Assumptions C01_v1_never_quantity_exceeded.

Theorem C17_inputs_wf :
  forall (fixed : bool) (dv : nat -> Divider),
         (forall (k : nat) (ps : list N) (n : N) (d : dist), NoDup (keys d) -> NoDup (keys (dv k ps n d))) ->
         forall s0 s : st,
         Init1 s0 ->
         reachable fixed dv s0 s -> NoDup (prios s) /\ (forall p : N, In p (prios s) <-> chan_of s p <> None).
Proof. exact @prio1_inputs_wf. Qed.
Print Assumptions C17_inputs_wf.

Theorem C17_inputs_sorted :
  forall (fixed : bool) (dv : nat -> Divider),
         (forall (k : nat) (ps : list N) (n : N) (d : dist), NoDup (keys d) -> NoDup (keys (dv k ps n d))) ->
         forall s0 s : st,
         Init1 s0 -> StronglySorted N.gt (prios s0) -> reachable fixed dv s0 s -> StronglySorted N.gt (prios s).
Proof. exact @prio1_inputs_sorted. Qed.
Print Assumptions C17_inputs_sorted.

Theorem C17_add_effect :
  forall (dv : nat -> Divider) (s : st) (ch : nat) (p : N) (rest : list cmd),
         NoDup (prios s) ->
         let s' := do_cmd dv s (CAdd ch p) rest in
         chan_of s' p = Some ch /\
         drained s' p = false /\
         In p (prios s') /\
         NoDup (prios s') /\
         (forall q : N,
          q <> p ->
          chan_of s' q = chan_of s q /\ drained s' q = drained s q /\ (In q (prios s') <-> In q (prios s))) /\
         strategic s' = dv (ncalls s) (prios s') (H s) [] /\ actual s' = actual s.
Proof. exact @prio1_add_effect. Qed.
Print Assumptions C17_add_effect.

Theorem C17_add_sorted :
  forall (dv : nat -> Divider) (s : st) (ch : nat) (p : N) (rest : list cmd),
         NoDup (prios s) ->
         StronglySorted N.gt (prios s) -> StronglySorted N.gt (prios (do_cmd dv s (CAdd ch p) rest)).
Proof. exact @prio1_add_sorted. Qed.
Print Assumptions C17_add_sorted.

Theorem C17_remove_effect :
  forall (dv : nat -> Divider) (s : st) (p : N) (rest : list cmd),
         let s' := do_cmd dv s (CRmv p) rest in
         chan_of s' p = None /\
         ~ In p (prios s') /\
         actual s' = actual s /\
         (forall q : N, q <> p -> chan_of s' q = chan_of s q /\ (In q (prios s') <-> In q (prios s))).
Proof. exact @prio1_remove_effect. Qed.
Print Assumptions C17_remove_effect.

Theorem C17_read_registered :
  forall (fixed : bool) (dv : nat -> Divider) (o : nat) (s s' : st),
         sched_step fixed dv o s = Some s' ->
         forall (ch : nat) (p x : N),
         reads s' = (ch, p, x) :: reads s -> chan_of s p = Some ch /\ In x (inq s ch).
Proof. exact @prio1_read_registered. Qed.
Print Assumptions C17_read_registered.

Theorem C17_unregistered_not_read :
  forall (fixed : bool) (dv : nat -> Divider) (o : nat) (s s' : st) (ch : nat),
         sched_step fixed dv o s = Some s' ->
         (forall p : N, chan_of s p <> Some ch) ->
         inq s' ch = inq s ch /\ (forall p x : N, reads s' <> (ch, p, x) :: reads s).
Proof. exact @prio1_unregistered_not_read. Qed.
Print Assumptions C17_unregistered_not_read.

Theorem C17_tagged :
  forall (fixed : bool) (dv : nat -> Divider) (s0 s : st),
         Init1 s0 ->
         reachable fixed dv s0 s ->
         forall p x : N, In (p, x) (delivered s) -> exists ch : nat, In (ch, p, x) (reads s).
Proof. exact @prio1_tagged. Qed.
Print Assumptions C17_tagged.

Theorem C02_v1_consumed_prefix :
  forall (fixed : bool) (dv : nat -> Divider) (s0 s : st),
         Init1 s0 -> reachable fixed dv s0 s -> forall ch : nat, read_items s ch ++ inq s ch = written s ch.
Proof. exact @prio1_consumed_prefix. Qed.
Print Assumptions C02_v1_consumed_prefix.

Theorem C16_delivered_subsequence :
  forall (fixed : bool) (dv : nat -> Divider) (s0 s : st),
         Init1 s0 ->
         reachable fixed dv s0 s ->
         sublist (delivered s) (rev (map (fun r : nat * N * N => (snd (fst r), snd r)) (reads s))).
Proof. exact @prio1_delivered_subsequence. Qed.
Print Assumptions C16_delivered_subsequence.

Theorem C02_v1_nothing_lost_without_stop :
  forall (fixed : bool) (dv : nat -> Divider) (s0 s : st),
         Init1 s0 -> reachable fixed dv s0 s -> stopped s = false -> dropped s = [].
Proof. exact @prio1_nothing_lost_without_stop. Qed.
Print Assumptions C02_v1_nothing_lost_without_stop.

Theorem C02_v1_read_accounting :
  forall (fixed : bool) (dv : nat -> Divider) (s0 s : st),
         Init1 s0 ->
         reachable fixed dv s0 s ->
         length (reads s) =
         (length (delivered s) + length (dropped s) + match pcs s with
                                                      | Send _ _ _ _ _ => 1
                                                      | _ => 0
                                                      end)%nat.
Proof. exact @prio1_read_accounting. Qed.
Print Assumptions C02_v1_read_accounting.

Theorem C07_v1_done_without_stop :
  forall (fixed : bool) (dv : nat -> Divider),
         (forall (k : nat) (ps : list N) (n : N) (d : dist), NoDup (keys d) -> NoDup (keys (dv k ps n d))) ->
         forall (s0 s : st) (e : option perr),
         Init1 s0 ->
         reachable fixed dv s0 s ->
         pcs s = Done e ->
         stopped s = false ->
         sum (actual s) = 0 /\
         outq s = [] /\
         held s = [] /\
         fbq s = [] /\ (e = None -> graceful s = true /\ (forall p : N, In p (prios s) -> drained s p = true)).
Proof. exact @prio1_done_without_stop. Qed.
Print Assumptions C07_v1_done_without_stop.

Theorem C07_v1_drained_closed_empty :
  forall (fixed : bool) (dv : nat -> Divider) (s0 s : st),
         Init1 s0 ->
         reachable fixed dv s0 s ->
         forall p : N,
         drained s p = true -> exists ch : nat, chan_of s p = Some ch /\ closed s ch = true /\ inq s ch = [].
Proof. exact @prio1_drained_closed_empty. Qed.
Print Assumptions C07_v1_drained_closed_empty.

Theorem C16_done_is_final :
  forall (fixed : bool) (dv : nat -> Divider) (o : nat) (s : st) (e : option perr),
         pcs s = Done e -> sched_step fixed dv o s = None.
Proof. exact @prio1_done_is_final. Qed.
Print Assumptions C16_done_is_final.

Theorem C16_stop_never_blocked :
  forall (fixed : bool) (dv : nat -> Divider) (s : st),
         stopped s = true ->
         (forall e : option perr, pcs s <> Done e) ->
         pcs s <> Idle -> exists s' : st, sched_step fixed dv 0 s = Some s'.
Proof. exact @prio1_stop_never_blocked. Qed.
Print Assumptions C16_stop_never_blocked.

Theorem C16_stop_terminates :
  forall (fixed : bool) (dv : nat -> Divider),
         fixed = true ->
         forall s0 s : st,
         Init1 s0 ->
         reachable fixed dv s0 s ->
         stopped s = true ->
         exists (n : nat) (s' : st) (e : option perr),
           (n <= stop_bound s)%nat /\ iter_auto fixed dv n s = Some s' /\ pcs s' = Done e.
Proof. exact @prio1_stop_terminates. Qed.
Print Assumptions C16_stop_terminates.

Theorem C16_stop_bound_linear :
  forall (fixed : bool) (dv : nat -> Divider) (s0 s : st),
         Init1 s0 -> reachable fixed dv s0 s -> (stop_bound s <= 4 * length (prios s) + 10)%nat.
Proof. exact @prio1_stop_bound_linear. Qed.
Print Assumptions C16_stop_bound_linear.

Theorem C16_stop_spins_old :
  forall fixed : bool,
         fixed = false ->
         exists s0 s : st,
           Init1 s0 /\
           reachable fixed dv_example s0 s /\
           stopped s = true /\
           (forall n : nat,
            exists s' : st, iter_auto fixed dv_example n s = Some s' /\ (pcs s' = Calc \/ pcs s' = WaitFb)).
Proof. exact @prio1_stop_spins_old. Qed.
Print Assumptions C16_stop_spins_old.

Theorem C17_init :
  forall dv : nat -> Divider,
         (forall (k : nat) (ps : list N) (n : N) (d : dist), NoDup (keys d) -> NoDup (keys (dv k ps n d))) ->
         forall (cfg : list (N * nat)) (h : N) (bufs : nat -> bool) (ocap : N),
         NoDup (map fst cfg) -> Init1 (init_state dv cfg h bufs ocap).
Proof. exact @init_state_Init1. Qed.
Print Assumptions C17_init.

